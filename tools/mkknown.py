"""Freeze the list of functions the rule tables know (engine/known_functions.txt).

Run once on the pinned tree: `python tools/mkknown.py`.  Private helpers that
are NOT in this list (i.e. introduced later, typically by extracting a block of
an existing function) are looked through by engine/inline.py."""
import os, sys

sys.path.insert(0, os.path.join(os.path.dirname(os.path.abspath(__file__)), ".."))
from engine.src import Repo
from engine.inline import KNOWN_FILE

repo = Repo(sys.argv[1] if len(sys.argv) > 1 else "/repo", look_through_helpers=False)
names = sorted(repo.all_functions)
# compiled sources: functions and methods of the .pyx files (parsed, never built)
try:
    from engine import cysrc

    for rel in repo.list_files((".pyx",)):
        m = cysrc.parse(repo, rel)
        names += [f"{rel}:{f}" for f in m.functions]
        for c in m.classes:
            names += [f"{rel}:{c.name}.{f}" for f in c.methods]
    names = sorted(set(names))
except ImportError as e:
    print("Cython parser not available:", e)
with open(KNOWN_FILE, "w", encoding="utf-8") as f:
    f.write("# functions of the pinned tree (qualnames); see engine/inline.py\n")
    for n in names:
        f.write(n + "\n")
print(len(names), "functions")
