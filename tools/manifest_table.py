"""Per-property texts for MANIFEST.json (see tools/mkmanifest.py)."""

_COMMON_NOTE = (
    "Trusted base: Python semantics of the statement kinds used; the hand-written classification of external calls "
    "(fresh / view / in-place) printed in the evidence; name+MRO call resolution (unresolved shapes are reported as "
    "ANALYSIS-ERROR, exit 2, never as a pass). The check decides the named structural clauses, which are necessary "
    "conditions of the property; it does not decide numerical equality or the behaviour as a whole."
)

CLAIMED = {
    "C01": {
        "text": "Static analysis over every estimator class: the clauses of the sklearn parameter protocol that are visible in the code's shape are decided on every path (constructor stores every parameter under its name and unmodified; set_params returns self on every normal exit; custom get_params reports every constructor parameter; prefixed/indexed key codecs agree for every index length via a string-segment abstract domain; literal keys are assigned on a feasible path; no lossy rebuild of the parameter store; derived state refreshed). Tests sample a few configurations; these rules quantify over all classes, keys and index lengths.",
        "technique": "AST/CFG must-assignment dataflow over constructors, return-value path rule, dict-key typestate, string-segment abstract interpretation of key codecs",
        "note": _COMMON_NOTE + " Declined: equality of parameter values for arbitrary objects and 'behaves identically after set_params' beyond the derived-state rule.",
    },
    "C02": {
        "text": "Static analysis of every public method of every estimator class and of everything they reach inside the package: fit returns self on all normal exits; every write of self.<hyper-parameter> outside __init__/set_params is shown, on the CFG with exception edges, to be restored on every exit including exceptional ones; a flow-sensitive may-alias analysis with interprocedural write summaries shows no in-place write reaches the caller's X/y/sample_weight; every .fit receiver on a fit path is traced (through locals, lists, parameters and delayed() tasks) to a clone unless the class is a documented in-place wrapper. Tests cannot enumerate failure points of fit; the CFG rule covers every call that can raise.",
        "technique": "CFG with exception edges + path search for unrestored overrides; flow-sensitive may-alias dataflow with interprocedural write summaries; receiver-origin tracing for clone-before-fit",
        "note": _COMMON_NOTE + " Declined: 'a later successful fit equals a fresh clone' as a numerical statement (decided only through restored state here and C03). Anything not in the alias tables is treated as producing a fresh object, so only positively derived writes are reported.",
    },
    "C03": {
        "text": "Static analysis of every fit path: each generator constructor must be seeded by a value that a forward must-analysis proves non-None (or be check_random_state); estimators documented as deterministic under an integer random_state have no unguarded global-stream draw in their fit-reachable set; an interprocedural must-assignment analysis of fitted attributes (helpers inlined, the external parent's fit modelled from its parsed source) shows that no fitted attribute is read before the current fit assigned it, that predict-time caches are reset by fit, and that attributes assigned on some fit paths only are read under the same guard. This covers every history fit(A);fit(B) at once, which tests can only sample.",
        "technique": "RNG-provenance rule with non-None must-facts; interprocedural must-assigned / read-before-write dataflow on fitted attributes; guard agreement for partially assigned state",
        "note": _COMMON_NOTE + " Declined: bit-equality of two fits and 'refit equals fresh clone' as numerical statements; staleness of partially assigned attributes that no predict-reachable code reads.",
    },
    "C04": {
        "text": "Static analysis of every predict/transform path: gather/scatter pairing is decided by def-use signatures (the mask that selects rows is the very value through which results are written back; in-place mutation of a mask between the two uses is a new definition); predict-time purity (no store to self.*, no global-stream draw reachable from any predict-like method, frozen exemptions printed); clone_with_fitted_parameters installs only copies; compiled criteria define __getstate__/__setstate__ (Cython parse tree). These are the structural necessary conditions for batch-independence, repeatability and persistence; equality of outputs is a runtime fact and is declined.",
        "technique": "def-use signature pairing of gather/scatter masks; reachability census of self.* stores and RNG draws from predict entry points; copy-provenance rule; Cython parse-tree query",
        "note": _COMMON_NOTE + " Declined: equality of outputs row-vs-batch, after pickle, or after cloning (batch statistics hidden in arithmetic cannot be excluded by shape).",
    },
    "C05": {
        "text": "Abstract interpretation over the orientation domain {over-prediction, under-prediction} -> linear polynomial in q: the multiplier built by _epsilon and the transforms applied by each consumer (IRLS weights and error in fit, the score) must give exactly c x (over: 1-q, under: q), c = 1 in fit and 2 in score, with the call's argument roles (targets first, predictions second) checked; plus the structural clauses of fit_intercept/positive. This decides, for every q at once, that fit and score optimise/report the same loss, which is what the property's 'score returns exactly twice the mean of that same loss' needs; optimality up to IRLS tolerance is numerical and declined.",
        "technique": "abstract interpretation (sign -> linear polynomial in q) of the loss multiplier and its consumers; structural checks of intercept handling",
        "note": _COMMON_NOTE + " Declined: optimality of the fitted hyperplane, fraction of targets below it, weight/duplication equivalence (numerical).",
    },
    "C06": {
        "text": "Sibling-agreement and path rules over kmeans_l1.py/_kmeans_022.py: the L2 branch of fit/predict/transform is exactly KMeans.<same method>(self, ...) with every shared parameter forwarded (compared with the parsed scikit-learn signature) and the three dispatchers agree on the norm set; every distance primitive reachable from the L1 entry points is Manhattan (guard/metric agreement); the M-step is the coordinate-wise median of X[labels == i] stored as centre i and the returned labels/inertia come from an E-step on the returned centres; reductions over a cluster's rows are guarded against empty clusters. These are the structural parts of 'self-consistent in Manhattan geometry' and 'identical to KMeans'; numeric consistency of labels/inertia is declined.",
        "technique": "structural delegation check against the parsed parent signature; guard/metric agreement over the L1 call graph; def-use checks of M-step/E-step; must-guard rule",
        "note": _COMMON_NOTE + " Declined: label/inertia/centre consistency as numbers, equality with KMeans beyond delegation.",
    },
    "C07": {
        "text": "Static rules over _kmeans_constraint_.py/kmeans_constraint.py deciding the bookkeeping the size guarantee rests on: every label assignment of the distance strategy is paired with the counter increment under the quota or leftover guard (comparison operators included); every other element write of the label array is an exchange of two entries or a move with symmetric counter updates under the two-sided capacity guard; the allowance vector of the gain strategy is zero-filled and exactly n - ave*k distinct entries are set to 1 (exact linear arithmetic on the source expressions); limit = n // k and leftover = n - limit*k at both set-up sites; the iteration counter is bounded by its loop guard; predict dispatches to the balanced assignment iff balanced_predictions. That the greedy procedure as a whole reaches balance for every geometry is an algorithmic theorem and is declined.",
        "technique": "tracked-aggregate / pairing rules on AST blocks with guard matching; exact linear arithmetic (Fractions) on quota expressions; dispatch structure check",
        "note": _COMMON_NOTE + " The rules identify the bookkeeping variables by their roles in the functions named in the property's anchors; a rename of those locals is reported as ANALYSIS-ERROR/violation of shape, which is the price of deciding operators and pairings exactly.",
    },
    "C08": {
        "text": "Static rules over piecewise_estimator.py: co-indexing of X/y/sample_weight handed to each local model by def-use signatures (also across the class-borrowing block that extends a copy of the mask); structure of the task dispatch (one clone per mapping entry, task i trains estimators[i] on bucket i, fallback clone on all rows, predict dispatch table and fallback method name); gather/scatter pairing of per-bucket predictions; for every Parallel(...)(delayed(f)(...)) site, arguments that are the same object for all tasks are never written by the task according to interprocedural write summaries (generator draws count as writes) — the clause that quantifies over thread schedules; fit-side and predict-side bucket keys are built by equal expressions with unknown -> -1. Tests run one schedule and a few data sets; these rules cover all schedules and all rows.",
        "technique": "def-use signature co-indexing; structural dispatch checks; write-effect summaries applied to loop-invariant arguments of delayed() tasks; sibling agreement of bucket-key expressions",
        "note": _COMMON_NOTE + " Declined: probabilities summing to one, labels in classes_ (depends on label values), bucket semantics of arbitrary binners.",
    },
    "C09": {
        "text": "Structural part only. Python side: per-leaf rows/targets/weights are co-indexed, fit and predict number leaves through the same predict_leaves and index betas_ by its result, and the intercept column is appended where the Cython criterion writes the constant feature (cross-language agreement). Cython side (sources parsed with Cython's own parser and converted to Python ast, nothing is compiled or run): every _mse call receives the mean and weight computed by _mean on the same index range, left = (start, pos), right = (pos, end); update/reset/reverse_reset move pos and the side weights together; the fast criterion's prefix-sum reads have the form S[hi-1] - (S[lo-1] if lo > 0 else 0), the fill is cumulative, and the zero-fill invariant that two lower-term-free reads rely on is present. NOT claimed: that impurities equal the true weighted MSE / least-squares residual for every (start, pos, end) — that needs an inductive loop invariant or numerical oracle.",
        "technique": "def-use co-indexing; sibling agreement across languages; range/mean/weight triple matching and prefix-sum read shapes on Cython parse trees",
        "note": _COMMON_NOTE + " The compiled extensions cannot be built offline here, so the analysis says nothing about binaries; Cython's parser is trusted to yield the tree the compiler would see. Central numerical claims of C09 are explicitly not decided.",
    },
    "C10": {
        "text": "Sibling-agreement and arithmetic rules over decision_tree_logreg.py: the four separately coded sites that split rows (fit, fit_improve, predict_proba, decision_path) compute the same canonical predicate prob[:, 1] > self.threshold and its exact complement, and the two read-side traversals recurse under identical guards — the 'three traversals agree' core of the property; gather/scatter pairing of rows, ids and probabilities; decision_path marks its own index before routing; child depth = depth + 1 behind the max_depth guard, index arithmetic (self.index + 1, last + 1, return last, n_nodes_ = last + 1); predict = classes_ taken at P >= 0.5 with classes_[1] as positive class; every node classifier is a clone. Holds for all inputs because it is a property of the code's shape; row sums of probabilities and the optimisation inside fit_improve are declined.",
        "technique": "AST canonicalisation (comparison forms, complements) for sibling agreement; def-use gather/scatter signatures; structural index/depth arithmetic checks",
        "note": _COMMON_NOTE + " Declined: probabilities summing to one, behaviour of fit_improve's optimisation.",
    },
}

NOT_APPLICABLE = {}

FIX_COMMITS = ["6505037", "37050b8", "33dee10", "d99d4dd", "4f7666c", "028434d", "395087d", "d475015", "054609b", "c1a2672", "079fb2a", "e434baf", "260aa11", "297c1aa", "754d171", "7aab489", "88e1e6d", "586d727", "669834d", "5c15583", "10b6b5d"]
