"""Per-property texts for MANIFEST.json (see tools/mkmanifest.py)."""

_COMMON_NOTE = (
    "Trusted base: Python semantics of the statement kinds used; the hand-written classification of external calls "
    "(fresh / view / in-place) printed in the evidence; name+MRO call resolution (unresolved shapes are reported as "
    "ANALYSIS-ERROR, exit 2, never as a pass). The check decides the named structural clauses, which are necessary "
    "conditions of the property; it does not decide numerical equality or the behaviour as a whole."
)

CLAIMED = {
    "C01": {
        "text": "Static analysis over every estimator class: the clauses of the sklearn parameter protocol that are visible in the code's shape are decided on every path (constructor stores every parameter under its name and unmodified; set_params returns self on every normal exit; custom get_params reports every constructor parameter; prefixed/indexed key codecs agree for every index length via a string-segment abstract domain; literal keys are assigned on a feasible path; no lossy rebuild of the parameter store; derived state refreshed). Tests sample a few configurations; these rules quantify over all classes, keys and index lengths.",
        "technique": "AST/CFG must-assignment dataflow over constructors, return-value path rule, dict-key typestate, string-segment abstract interpretation of key codecs",
        "note": _COMMON_NOTE + " Declined: equality of parameter values for arbitrary objects and 'behaves identically after set_params' beyond the derived-state rule.",
    },
}

NOT_APPLICABLE = {}

FIX_COMMITS = ["6505037", "37050b8", "33dee10", "d99d4dd", "4f7666c", "028434d"]
