#!/venv/bin/python
"""Regenerates /verif/MANIFEST.json from the table below (run after editing)."""
import json, os, sys
HERE = os.path.dirname(os.path.dirname(os.path.abspath(__file__)))
sys.path.insert(0, HERE)
from tools.manifest_table import CLAIMED, NOT_APPLICABLE, FIX_COMMITS

props = [json.loads(l) for l in open(os.path.join(HERE, "properties.jsonl"))]
ids = [p["id"] for p in props]
checks = []
for pid in ids:
    if pid in CLAIMED:
        c = CLAIMED[pid]
        checks.append({
            "property_id": pid,
            "quick_cmd": f"./check {pid} --tier quick",
            "thorough_cmd": f"./check {pid} --tier thorough",
            "evidence_file": f"/verif/evidence/{pid}.json",
            "replay_cmd_template": f"./check {pid} --explain {{path}}",
            "engine": "static-analysis",
            "level_claimed": {"category": "other", "text": c["text"], "design_ref": c.get("design_ref", f"DESIGN.md §4 {pid}")},
            "level_note": c["note"],
            "technique": c["technique"],
        })
na = [{"property_id": pid, "reason": NOT_APPLICABLE.get(pid, "check not built yet (work in progress)")} for pid in ids if pid not in CLAIMED]
m = {
    "version": 1,
    "setup_cmd": "/venv/bin/python -m compileall -q engine rules selftest tools >/dev/null && /venv/bin/python -c \"import ast, sys; sys.exit(0)\"",
    "hooks": {
        "guard": "MLINSIGHTS_VERIF",
        "enable": "none needed: the checks are static analyses that read /repo's sources; nothing in /repo is instrumented",
        "baseline_off_cmd": "cd /repo && /venv/bin/python -m pytest -ra -q -p no:cacheprovider --timeout=900 --continue-on-collection-errors",
        "source_commits": [],
        "add_only": True,
    },
    "engines": [{
        "name": "static-analysis",
        "path": "/verif/engine",
        "serves_properties": sorted(CLAIMED),
        "kind_free_text": "repository-specific static analysis over Python ast (module/class tables, MRO, statement CFG with exception edges, forward dataflow, affine index arithmetic, string-segment and orientation abstract domains, AST normalisation for sibling agreement) and Cython's parser for .pyx; nothing from /repo is imported or run",
    }],
    "checks": checks,
    "not_applicable": na,
    "notes": "Repairs of genuine defects found by the checks are unguarded 'fix:' commits in /repo: " + ", ".join(FIX_COMMITS) + ". See known_findings.json and DESIGN.md.",
}
json.dump(m, open(os.path.join(HERE, "MANIFEST.json"), "w"), indent=1)
print("MANIFEST.json written:", len(checks), "checks,", len(na), "not applicable")
