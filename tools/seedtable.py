#!/venv/bin/python
"""Prints the markdown table of seeded changes from /verif/seeded/*/meta.json."""
import glob, json, os
rows = []
for d in sorted(glob.glob(os.path.join(os.path.dirname(os.path.dirname(os.path.abspath(__file__))), "seeded", "*"))):
    m = os.path.join(d, "meta.json")
    if not os.path.exists(m):
        continue
    j = json.load(open(m))
    note = j.get("needs_to_manifest", "").strip().split("\n")
    first = next((l.strip("# ").strip() for l in note if l.strip()), "")
    rules = []
    for pid, lines in j.get("detected_by", {}).items():
        rs = sorted({l.split("[")[1].split("]")[0] for l in lines if "[" in l and "]" in l and l.split("[")[1][:1] == "C"})
        rules.append(f"{pid} ({', '.join(rs)})" if rs else pid)
    kind = j.get("kind", "breaks " + j.get("property", "?"))
    rows.append((os.path.basename(d), j.get("property", "?"), kind, first[:110], "; ".join(rules) or "—"))
print("| change | property | what it is | caught by (rules) |")
print("|---|---|---|---|")
for r in rows:
    print(f"| {r[0]} | {r[1]} | {r[3]} | {r[4]} |")
