#!/venv/bin/python
"""Runs the pinned test-suite (as in /root/.vp/BASELINE.json) and compares
with its stable_pass list.  Development helper, not a registered check."""
import json, subprocess, sys, tempfile, os, xml.etree.ElementTree as ET
b = json.load(open("/root/.vp/BASELINE.json"))
out = tempfile.mktemp(suffix=".xml", dir="/var/tmp")
cmd = b["cmd"].replace("<file>", out)
subprocess.run(cmd, shell=True, stdout=subprocess.DEVNULL, stderr=subprocess.DEVNULL)
passed = set()
for tc in ET.parse(out).getroot().iter("testcase"):
    if not list(tc):
        passed.add(f"{tc.get('classname')}::{tc.get('name')}")
os.remove(out)
missing = [t for t in b["stable_pass"] if t not in passed]
print("stable_pass:", len(b["stable_pass"]), "passing now:", len(b["stable_pass"]) - len(missing))
for m in missing:
    print("MISSING", m)
sys.exit(1 if missing else 0)
