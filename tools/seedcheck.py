#!/venv/bin/python
"""Development helper (not a registered check): evaluates a seeded change.

  tools/seedcheck.py verify <dir>      confirm demo passes clean / fails patched in a scratch worktree
  tools/seedcheck.py detect <dir> [ids] apply the patch to /repo, run ./check for the given (default: all
                                        claimed) properties, print which rules fire, undo the patch
  tools/seedcheck.py tests <dir>       run the pinned suite with the patch applied in a scratch worktree

<dir> contains patch.diff and demo.py.
"""
import json, os, subprocess, sys, shutil, tempfile

VERIF = os.path.dirname(os.path.dirname(os.path.abspath(__file__)))
SCRATCH = os.environ.get("SEED_SCRATCH", "/tmp/seedverify-%d" % os.getpid())


def sh(cmd, cwd=None, env=None, timeout=1200):
    r = subprocess.run(cmd, shell=True, cwd=cwd, env=env, capture_output=True, text=True, timeout=timeout)
    return r.returncode, r.stdout + r.stderr


def scratch():
    if os.path.exists(SCRATCH):
        sh(f"git -C /repo worktree remove --force {SCRATCH}")
        shutil.rmtree(SCRATCH, ignore_errors=True)
    rc, out = sh(f"git -C /repo worktree add -q --detach {SCRATCH} HEAD")
    assert rc == 0, out
    return SCRATCH


def drop_scratch():
    sh(f"git -C /repo worktree remove --force {SCRATCH}")
    shutil.rmtree(SCRATCH, ignore_errors=True)


def verify(d):
    w = scratch()
    env = dict(os.environ, MLI_REPO=w)
    demo = os.path.join(d, "demo.py")
    rc0, out0 = sh(f"/venv/bin/python {demo}", cwd=w, env=env)
    rc, out = sh(f"git -C {w} apply {os.path.join(d, 'patch.diff')}")
    if rc != 0:
        drop_scratch()
        return {"applies": False, "msg": out[-300:]}
    rc1, out1 = sh(f"/venv/bin/python {demo}", cwd=w, env=env)
    drop_scratch()
    return {"applies": True, "demo_clean_rc": rc0, "demo_patched_rc": rc1, "clean_tail": out0[-200:], "patched_tail": out1[-300:]}


def tests(d):
    w = scratch()
    rc, out = sh(f"git -C {w} apply {os.path.join(d, 'patch.diff')}")
    assert rc == 0, out
    b = json.load(open("/root/.vp/BASELINE.json"))
    xml = tempfile.mktemp(suffix=".xml", dir="/var/tmp")
    cmd = b["cmd"].replace("cd /repo", f"cd {w}").replace("<file>", xml)
    sh(cmd, timeout=3000)
    import xml.etree.ElementTree as ET

    passed = set()
    for tc in ET.parse(xml).getroot().iter("testcase"):
        if not list(tc):
            passed.add(f"{tc.get('classname')}::{tc.get('name')}")
    os.remove(xml)
    drop_scratch()
    missing = [t for t in b["stable_pass"] if t not in passed]
    return {"stable_pass": len(b["stable_pass"]), "missing": missing}


def detect_wt(d, ids=None):
    """like detect, but on a scratch worktree through ./check --repo (does not touch /repo)"""
    man = json.load(open(os.path.join(VERIF, "MANIFEST.json")))
    ids = ids or [c["property_id"] for c in man["checks"]]
    w = scratch()
    rc, out = sh(f"git -C {w} apply {os.path.join(d, 'patch.diff')}")
    if rc != 0:
        drop_scratch()
        return {"applies": False, "msg": out[-300:]}
    res = {}
    try:
        for pid in ids:
            rc, out = sh(f"./check {pid} --tier quick --no-write --repo {w}", cwd=VERIF)
            lines = [l for l in out.splitlines() if "[" + pid + "." in l or l.startswith("ANALYSIS-ERROR")]
            res[pid] = {"rc": rc, "lines": [l[:300] for l in lines[:6]]}
    finally:
        drop_scratch()
    return res


def keep(d, pid, name):
    v = verify(d)
    if not v.get("applies") or v.get("demo_clean_rc") != 0 or v.get("demo_patched_rc") == 0:
        print("REJECT", name, v)
        return
    t = tests(d)
    if t["missing"]:
        print("REJECT (tests)", name, t)
        return
    det = detect_wt(d)
    out = os.path.join(VERIF, "seeded", name)
    os.makedirs(out, exist_ok=True)
    shutil.copy(os.path.join(d, "patch.diff"), os.path.join(out, "patch.diff"))
    shutil.copy(os.path.join(d, "demo.py"), os.path.join(out, "demo.py"))
    notes = ""
    if os.path.exists(os.path.join(d, "notes.md")):
        notes = open(os.path.join(d, "notes.md")).read()
    caught = {k: v["lines"][:3] for k, v in det.items() if v["rc"] == 1}
    broken = {k: v["lines"][:3] for k, v in det.items() if v["rc"] == 2}
    meta = {
        "property": pid,
        "origin": "independent sub-agent given only the property record and a scratch worktree",
        "needs_to_manifest": notes,
        "confirmed": {
            "demo_exit_clean": v["demo_clean_rc"],
            "demo_exit_patched": v["demo_patched_rc"],
            "pinned_suite_stable_pass_with_patch": t["stable_pass"] - len(t["missing"]),
            "how": "scratch git worktree of /repo HEAD; `MLI_REPO=<worktree> /venv/bin/python demo.py` before and after `git apply patch.diff`; pinned pytest command of BASELINE.json run in the patched worktree; ./check <ID> --repo <patched worktree> for every claimed property",
        },
        "detected_by": caught,
        "analysis_error_in": broken,
        "repo_head": sh("git -C /repo rev-parse --short HEAD")[1].strip(),
    }
    json.dump(meta, open(os.path.join(out, "meta.json"), "w"), indent=1)
    print("KEPT", name, "detected by", sorted(caught) or "NOTHING", "| exit2:", sorted(broken))


def keepref(d, pid, name):
    """archive a behaviour-preserving refactoring: demo must pass clean AND patched,
    the pinned suite must pass, and every check must stay silent."""
    v = verify(d)
    if not v.get("applies") or v.get("demo_clean_rc") != 0 or v.get("demo_patched_rc") != 0:
        print("REJECT (demo)", name, v)
        return
    t = tests(d)
    if t["missing"]:
        print("REJECT (tests)", name, t)
        return
    det = detect_wt(d)
    out = os.path.join(VERIF, "seeded", name)
    os.makedirs(out, exist_ok=True)
    shutil.copy(os.path.join(d, "patch.diff"), os.path.join(out, "patch.diff"))
    shutil.copy(os.path.join(d, "demo.py"), os.path.join(out, "demo.py"))
    notes = open(os.path.join(d, "notes.md")).read() if os.path.exists(os.path.join(d, "notes.md")) else ""
    caught = {k: v["lines"][:3] for k, v in det.items() if v["rc"] == 1}
    broken = {k: v["lines"][:3] for k, v in det.items() if v["rc"] == 2}
    meta = {
        "property": pid,
        "kind": "behaviour-preserving refactoring (checks must stay silent)",
        "origin": "independent sub-agent given only the property record and a scratch worktree",
        "needs_to_manifest": notes,
        "confirmed": {
            "demo_exit_clean": v["demo_clean_rc"],
            "demo_exit_patched": v["demo_patched_rc"],
            "pinned_suite_stable_pass_with_patch": t["stable_pass"] - len(t["missing"]),
            "how": "scratch git worktree of /repo HEAD; demo run before and after `git apply patch.diff` (exit 0 both times); pinned pytest command in the patched worktree; ./check <ID> --repo <patched worktree> for every claimed property",
        },
        "detected_by": caught,
        "analysis_error_in": broken,
        "repo_head": sh("git -C /repo rev-parse --short HEAD")[1].strip(),
    }
    json.dump(meta, open(os.path.join(out, "meta.json"), "w"), indent=1)
    print("KEPT-REF", name, "SILENT" if not caught and not broken else f"FALSE ALARM in {sorted(caught)} exit2 {sorted(broken)}")


def detect(d, ids=None):
    man = json.load(open(os.path.join(VERIF, "MANIFEST.json")))
    ids = ids or [c["property_id"] for c in man["checks"]]
    rc, out = sh(f"git -C /repo status --porcelain")
    assert out.strip() == "", "/repo not clean: " + out
    rc, out = sh(f"git -C /repo apply {os.path.join(d, 'patch.diff')}")
    if rc != 0:
        return {"applies": False, "msg": out[-300:]}
    res = {}
    try:
        for pid in ids:
            rc, out = sh(f"./check {pid} --tier quick --no-write", cwd=VERIF)
            lines = [l for l in out.splitlines() if "[" + pid + "." in l or l.startswith("ANALYSIS-ERROR")]
            res[pid] = {"rc": rc, "lines": [l[:260] for l in lines[:6]]}
    finally:
        sh("git -C /repo checkout -- .")
    return res


if __name__ == "__main__":
    mode = sys.argv[1]
    d = os.path.abspath(sys.argv[2]) if len(sys.argv) > 2 else None
    if mode == "verify":
        print(json.dumps(verify(d), indent=1))
    elif mode == "tests":
        print(json.dumps(tests(d), indent=1))
    elif mode == "keep":
        keep(d, sys.argv[3], sys.argv[4])
    elif mode == "keepref":
        keepref(d, sys.argv[3], sys.argv[4])
    elif mode == "refresh":
        # re-run every claimed check against every archived change; update meta.json
        import glob
        for dd in sorted(glob.glob(os.path.join(VERIF, "seeded", "*"))):
            mp = os.path.join(dd, "meta.json")
            if not os.path.exists(mp):
                continue
            meta = json.load(open(mp))
            det = detect_wt(dd)
            meta["detected_by"] = {k: v["lines"][:3] for k, v in det.items() if isinstance(v, dict) and v.get("rc") == 1}
            meta["analysis_error_in"] = {k: v["lines"][:3] for k, v in det.items() if isinstance(v, dict) and v.get("rc") == 2}
            meta["repo_head_at_refresh"] = sh("git -C /repo rev-parse --short HEAD")[1].strip()
            json.dump(meta, open(mp, "w"), indent=1)
            exp_silent = meta.get("kind", "").startswith("behaviour-preserving")
            status = "SILENT" if not meta["detected_by"] and not meta["analysis_error_in"] else ("detected by " + ",".join(sorted(meta["detected_by"])) + (" exit2:" + ",".join(sorted(meta["analysis_error_in"])) if meta["analysis_error_in"] else ""))
            flag = ""
            if exp_silent and status != "SILENT":
                flag = "  <-- FALSE ALARM"
            if not exp_silent and not meta["detected_by"]:
                flag = "  <-- MISSED"
            print(os.path.basename(dd), status, flag)
    elif mode == "detectwt":
        r = detect_wt(d, sys.argv[3:] or None)
        for pid, v in r.items():
            if isinstance(v, dict) and v.get("rc", 0) != 0:
                print(pid, "rc", v["rc"])
                for l in v["lines"]:
                    print("   ", l)
    elif mode == "detect":
        r = detect(d, sys.argv[3:] or None)
        for pid, v in r.items():
            if isinstance(v, dict) and v.get("rc", 0) != 0:
                print(pid, "rc", v["rc"])
                for l in v["lines"]:
                    print("   ", l)
        if isinstance(r, dict) and all(isinstance(v, dict) and v.get("rc", 0) == 0 for v in r.values()):
            print("NOT DETECTED by", list(r))
