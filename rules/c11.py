"""C11 — ExtendedFeatures (structural part).

  C11.a  slice-width conformance: in both block recurrences the destination
         slice of multiply() is exactly as wide as the source slice, and the
         factor is one column (exact linear arithmetic on the loop body)
  C11.b  the names recurrence mirrors the value recurrences: same source block
         [index[i] + DEC, index[-1]), same factor column i, block boundaries
         recorded at the current write position before writing, same first
         degree block and bias handling; dispatchers agree on the kinds;
         n_output_features_ = number of names = width of the allocated output

NOT decided: equality with PolynomialFeatures' column order (a property of the
recurrence's values) — see DESIGN.md.
"""

from __future__ import annotations

import ast
from engine.util import clone_ast
from typing import Dict, List, Optional, Tuple

from engine.src import FunctionInfo, own_nodes, own_nodes_incl_lambda, src_of, AnalysisError
from engine.affine import lin, Lin, LinErr
from engine.util import is_self_attr, const_value, kwarg

RULES = {
    "C11.a": "multiply(XP[:, s0:s1], X[:, i:i+1], XP[:, d0:d1]): d1 - d0 == s1 - s0 and the factor is a single column (affine proof)",
    "C11.b": "_get_feature_names_poly and _transform_iall/_transform_ionly have the same recurrence summary; dispatch/kind agreement; output width = number of names",
}

POLY = "mlinsights.mlmodel._extended_features_polynomial"
EXT = "mlinsights.mlmodel.extended_features"


def _inner_loop(fn: ast.AST) -> Tuple[ast.For, ast.For, ast.If]:
    """(degree loop, feature loop, the `if d == 0` statement)"""
    outer = [l for l in ast.walk(fn) if isinstance(l, ast.For) and isinstance(l.target, ast.Name) and l.target.id == "d"]
    if len(outer) != 1:
        raise AnalysisError("degree loop `for d in range(0, degree)` not found")
    o = outer[0]
    iff = [s for s in o.body if isinstance(s, ast.If) and src_of(s.test) == "d == 0"]
    if len(iff) != 1:
        raise AnalysisError("`if d == 0` block not found")
    inner = [l for l in ast.walk(ast.Module(body=iff[0].orelse, type_ignores=[])) if isinstance(l, ast.For) and isinstance(l.target, ast.Name) and l.target.id == "i"]
    if len(inner) != 1:
        raise AnalysisError("feature loop `for i in range(0, n)` not found")
    return o, inner[0], iff[0]


def _env_of(stmts: List[ast.stmt], upto: Optional[ast.AST] = None, base: Optional[Dict[str, Lin]] = None) -> Dict[str, Lin]:
    env: Dict[str, Lin] = dict(base or {})
    for s in stmts:
        if upto is not None and s is upto:
            break
        if isinstance(s, ast.Assign) and len(s.targets) == 1 and isinstance(s.targets[0], ast.Name):
            try:
                env[s.targets[0].id] = lin(s.value, env)
            except LinErr:
                env.pop(s.targets[0].id, None)
    return env


def _slice(sub: ast.AST) -> Optional[ast.Slice]:
    """the column slice of XP[:, a:b]"""
    if isinstance(sub, ast.Subscript) and isinstance(sub.slice, ast.Tuple) and len(sub.slice.elts) == 2 and isinstance(sub.slice.elts[1], ast.Slice):
        return sub.slice.elts[1]
    return None


def check_a(ck, repo):
    for name in ("_transform_iall", "_transform_ionly"):
        fi = repo.func(POLY, name)
        try:
            o, inner, iff = _inner_loop(fi.node)
        except AnalysisError as e:
            ck.unknown("C11.a", fi, name, str(e))
            continue
        pre = [s for s in iff.orelse if s.lineno < inner.lineno]
        base = _env_of(pre)
        calls = [c for c in ast.walk(inner) if isinstance(c, ast.Call) and src_of(c.func) == "multiply"]
        if len(calls) != 1 or len(calls[0].args) != 3:
            ck.unknown("C11.a", fi, "multiply(...)", f"{len(calls)} multiply calls in the feature loop")
            continue
        c = calls[0]
        st = None
        for s in inner.body:
            if any(x is c for x in ast.walk(s)):
                st = s
        env = _env_of(inner.body, upto=st, base=base)
        S, F, D = [_slice(a) for a in c.args]
        if S is None or F is None or D is None:
            ck.unknown("C11.a", fi, c, "multiply arguments are not column slices")
            continue
        try:
            ws = lin(S.upper, env) - lin(S.lower, env)
            wd = lin(D.upper, env) - lin(D.lower, env)
            wf = lin(F.upper, env) - lin(F.lower, env)
        except (LinErr, AttributeError) as e:
            ck.unknown("C11.a", fi, c, f"cannot form slice widths: {e}")
            continue
        ck.verdict(ws == wd, "C11.a", fi, c, f"destination width {wd!r} == source width {ws!r}", f"destination slice is {wd!r} wide but the source block is {ws!r} wide: numpy broadcasts or raises, and every later block is shifted")
        ck.verdict(wf == Lin(1) and src_of(F.lower) == "i", "C11.a", fi, f"factor {src_of(c.args[1])}", "the block is multiplied by the single column i", f"the factor {src_of(c.args[1])} is not the single column i")
        ck.verdict(src_of(c.args[0].value) == "XP" and src_of(c.args[2].value) == "XP" and src_of(c.args[1].value) == "X", "C11.a", fi, "multiply(XP[..], X[..], XP[..])", "source and destination are blocks of the output, factor comes from the input", "multiply operands are not (XP block, X column, XP block)")
        # pos advances to the end of the block just written
        adv = [s for s in inner.body if isinstance(s, ast.Assign) and src_of(s.targets[0]) == "pos" and s.lineno > c.lineno]
        ok = len(adv) == 1 and src_of(adv[0].value) == src_of(D.upper)
        ck.verdict(ok, "C11.a", fi, adv[0] if adv else "pos = new_pos", "write position advances to the end of the block written", "the write position is not advanced to the end of the destination block: blocks overlap or leave gaps")
        # neutral guard for ionly
        brk = [s for s in inner.body if isinstance(s, ast.If) and any(isinstance(x, (ast.Break, ast.Continue, ast.Return)) for x in s.body)]
        for b in brk:
            try:
                t = b.test
                okb = isinstance(t, ast.Compare) and len(t.ops) == 1 and isinstance(t.ops[0], ast.LtE) and (lin(t.left, env) - lin(t.comparators[0], env)) == wd and isinstance(b.body[0], ast.Break) and b.lineno < c.lineno
            except LinErr:
                okb = False
            ck.verdict(okb, "C11.a", fi, b.test, "early exit only when the destination block is empty (no column skipped)", f"early exit `{src_of(b.test)}` does not test the emptiness of the block about to be written: columns are skipped")


def _summary_transform(fi: FunctionInfo) -> Dict[str, str]:
    o, inner, iff = _inner_loop(fi.node)
    pre = [s for s in iff.orelse if s.lineno < inner.lineno]
    post = [s for s in iff.orelse if s.lineno > inner.end_lineno]
    sym = {"index[i]": Lin.sym("I_i"), "index[i + 1]": Lin.sym("I_i1"), "index[-1]": Lin.sym("I_last")}
    base = _env_of(pre, base=sym)
    c = [x for x in ast.walk(inner) if isinstance(x, ast.Call) and src_of(x.func) == "multiply"][0]
    st = [s for s in inner.body if any(x is c for x in ast.walk(s))][0]
    env = _env_of(inner.body, upto=st, base=base)
    S = _slice(c.args[0])
    D = _slice(c.args[2])
    rec = [s for s in inner.body if isinstance(s, ast.Expr) and src_of(s.value).startswith("new_index.append(")]
    out = {
        "src_lower": repr(lin(S.lower, env)),
        "src_upper": repr(lin(S.upper, env)),
        "factor": src_of(_slice(c.args[1]).lower),
        "record_before_write": str(
            len(rec) == 1
            and rec[0].lineno < c.lineno
            and src_of(rec[0].value) == f"new_index.append({src_of(D.lower)})"
            # recorded for EVERY feature, also when the block is empty and the loop exits early
            and all(rec[0].lineno < x.lineno for x in ast.walk(inner) if isinstance(x, (ast.Break, ast.Continue)))
        ),
        "close": str([src_of(s) for s in post] == ["new_index.append(pos)", "index = new_index"]),
        "reset": str(any(src_of(s) == "new_index = []" for s in pre)),
    }
    # first-degree block
    first = [src_of(s) for s in iff.body]
    out["first_block"] = str(first == ["XP[:, pos:pos + n] = X", "index = list(range(pos, pos + n))", "pos += n", "index.append(pos)"])
    # bias
    b = [s for s in fi.node.body if isinstance(s, ast.If) and src_of(s.test) == "bias"]
    out["bias"] = str(len(b) == 1 and [src_of(x) for x in b[0].body] == ["XP[:, 0] = 1", "pos = 1"] and [src_of(x) for x in b[0].orelse] == ["pos = 0"])
    out["degree_loop"] = src_of(o.iter)
    out["feature_loop"] = src_of(inner.iter)
    nn = [src_of(s.value) for s in fi.node.body if isinstance(s, ast.Assign) and src_of(s.targets[0]) == "n"]
    out["n"] = str(nn)
    return out


def _summary_names(fi: FunctionInfo, interaction_only: bool) -> Dict[str, str]:
    o, inner, iff = _inner_loop(fi.node)
    pre = [s for s in iff.orelse if s.lineno < inner.lineno]
    post = [s for s in iff.orelse if s.lineno > inner.end_lineno]
    sym = {"index[i]": Lin.sym("I_i"), "index[i + 1]": Lin.sym("I_i1"), "index[-1]": Lin.sym("I_last")}
    base = _env_of(pre, base=sym)

    class PE(ast.NodeTransformer):
        def visit_IfExp(self, node):
            self.generic_visit(node)
            if src_of(node.test) == "interaction_only":
                return node.body if interaction_only else node.orelse
            return node

    import copy

    body = [PE().visit(clone_ast(s)) for s in inner.body]
    for s in body:
        ast.fix_missing_locations(s)
    ext = [s for s in body if isinstance(s, ast.Expr) and src_of(s.value).startswith("names.extend(")]
    if len(ext) != 1:
        raise AnalysisError("names.extend(...) not found in the names recurrence")
    env = _env_of(body, upto=ext[0], base=base)
    comp = ext[0].value.args[0]
    if not isinstance(comp, ast.ListComp) or len(comp.generators) != 1:
        raise AnalysisError("names.extend argument is not a list comprehension")
    it = comp.generators[0].iter
    if not (isinstance(it, ast.Subscript) and src_of(it.value) == "names" and isinstance(it.slice, ast.Slice)):
        raise AnalysisError("names block is not names[start:end]")
    var = src_of(comp.generators[0].target)
    elt = comp.elt
    fac = None
    if isinstance(elt, ast.BinOp) and isinstance(elt.op, ast.Add):
        # <var> + " " + input_features[i]
        parts = []
        def flat(e):
            if isinstance(e, ast.BinOp) and isinstance(e.op, ast.Add):
                flat(e.left); flat(e.right)
            else:
                parts.append(e)
        flat(elt)
        if len(parts) == 3 and src_of(parts[0]) == var and const_value(parts[1]) == " " and isinstance(parts[2], ast.Subscript) and src_of(parts[2].value) == "input_features":
            fac = src_of(parts[2].slice)
    rec = [s for s in body if isinstance(s, ast.Expr) and src_of(s.value).startswith("new_index.append(")]
    out = {
        "src_lower": repr(lin(it.slice.lower, env)),
        "src_upper": repr(lin(it.slice.upper, env)),
        "factor": str(fac),
        "record_before_write": str(len(rec) == 1 and rec[0].lineno < ext[0].lineno and src_of(rec[0].value) == "new_index.append(len(names))"),
        "close": str([src_of(s) for s in post] == ["new_index.append(len(names))", "index = new_index"]),
        "reset": str(any(src_of(s) == "new_index = []" for s in pre)),
    }
    first = [src_of(s) for s in iff.body]
    out["first_block"] = str(first == ["pos = len(names)", "names.extend(input_features)", "index = list(range(pos, len(names)))", "index.append(len(names))"])
    b = [s for s in own_nodes(fi.node) if isinstance(s, ast.Assign) and src_of(s.targets[0]) == "names" and isinstance(s.value, ast.IfExp)]
    out["bias"] = str(len(b) == 1 and src_of(b[0].value) == "['1'] if self.poly_include_bias else []")
    out["degree_loop"] = src_of(o.iter).replace("self.poly_degree", "degree")
    out["feature_loop"] = src_of(inner.iter)
    nn = [src_of(s.value) for s in own_nodes(fi.node) if isinstance(s, ast.Assign) and src_of(s.targets[0]) == "n"]
    out["n"] = str(["X.shape[1]"] if nn == ["self.n_input_features_"] else nn)
    return out


def check_b(ck, repo):
    ci = repo.cls(EXT, "ExtendedFeatures")
    names = ci.methods.get("_get_feature_names_poly")
    if names is None:
        raise AnalysisError("anchor vanished: ExtendedFeatures._get_feature_names_poly")
    for tname, io in (("_transform_iall", False), ("_transform_ionly", True)):
        tf = repo.func(POLY, tname)
        try:
            a = _summary_transform(tf)
            b = _summary_names(names, io)
        except (AnalysisError, LinErr, IndexError) as e:
            ck.unknown("C11.b", tf, f"{tname} vs names(interaction_only={io})", f"cannot summarise: {e}")
            continue
        for k in sorted(a):
            va, vb = a[k], b.get(k)
            label = f"{tname} vs names[interaction_only={io}]: {k}"
            if k in ("record_before_write", "close", "reset", "first_block", "bias"):
                ck.verdict(va == "True" and vb == "True", "C11.b", tf if va != "True" else names, label, "both recurrences have this step", f"step '{k}' is {va} in {tname} and {vb} in the names recurrence: names no longer describe the columns")
            else:
                ck.verdict(va == vb, "C11.b", names, label + f" = {va}", "identical in both recurrences", f"{k}: {tname} uses {va} but the names recurrence uses {vb}: column j is not named by the monomial it contains")
    # the names function is a pure function of the fitted configuration: no instance cache
    stores = [x for x in own_nodes(names.node) if isinstance(x, (ast.Assign, ast.AugAssign)) and any(isinstance(t, ast.Attribute) and isinstance(t.value, ast.Name) and t.value.id == "self" for t in (x.targets if isinstance(x, ast.Assign) else [x.target]))]
    ck.verdict(not stores, "C11.b", names, stores[0] if stores else "no store to self.* in _get_feature_names_poly", "names are recomputed from the current parameters at every call", "feature names are cached on the instance: after set_params (degree, flags) and a refit, names, n_output_features_ and the transform width describe the previous configuration")
    rets = [src_of(r.value) for r in own_nodes(names.node) if isinstance(r, ast.Return)]
    ck.verdict(rets == ["names"], "C11.b", names, f"returns {rets}", "single exit returning the names built by the recurrence", f"_get_feature_names_poly returns {rets}: some path returns something else than the names built by the recurrence")
    pn = [f for f in repo.all_functions.values() if f.parent is names and f.name == "process_name"]
    if pn:
        par = pn[0].named_params[0]
        raw = [c for c in own_nodes_incl_lambda(pn[0].node) if isinstance(c, ast.Call) and isinstance(c.func, ast.Attribute) and c.func.attr in ("count", "find", "index") and isinstance(c.func.value, ast.Name) and c.func.value.id == par]
        ck.verdict(not raw, "C11.b", pn[0], raw[0] if raw else "exponents counted on the token list", "exponents are counted over whole factor names", f"`{src_of(raw[0]) if raw else ''}` counts substring occurrences in the joined name: 'x1' is also counted inside 'x10', so a column is named by another monomial than the one it contains")
    # dispatchers
    kinds = {}
    for m in ("get_feature_names_out", "fit", "transform"):
        fi = ci.methods[m]
        lits = sorted(const_value(s.test.comparators[0]) for s in own_nodes(fi.node) if isinstance(s, ast.If) and isinstance(s.test, ast.Compare) and is_self_attr(s.test.left, "kind") and isinstance(const_value(s.test.comparators[0]), str))
        kinds[m] = lits
        ck.verdict(lits == ["poly", "poly-slow"] and any(isinstance(x, ast.Raise) for x in own_nodes(fi.node)), "C11.b", fi, f"{m}: kinds {lits}", "dispatch on exactly 'poly' and 'poly-slow', anything else raises", f"{m} dispatches on {lits}")
    tr = ci.methods["transform"]
    targets = {const_value(s.test.comparators[0]): src_of(s.body[0]) for s in own_nodes(tr.node) if isinstance(s, ast.If) and isinstance(s.test, ast.Compare) and is_self_attr(s.test.left, "kind")}
    ck.verdict(targets == {"poly": "return self._transform_poly(X)", "poly-slow": "return self._transform_poly_slow(X)"}, "C11.b", tr, f"{targets}", "each kind goes to its own implementation", "kind dispatch in transform changed")
    # transform_poly picks the recurrence matching the interaction flag and passes degree/bias in order
    tp = ci.methods["_transform_poly"]
    calls = {src_of(c.func): c for c in own_nodes_incl_lambda(tp.node) if isinstance(c, ast.Call) and src_of(c.func) in ("_transform_ionly", "_transform_iall")}
    want_args = ["self.poly_degree", "self.poly_include_bias", "XP", "X", "multiply", "final"]
    for fn, c in calls.items():
        ck.verdict([src_of(a) for a in c.args] == want_args, "C11.b", tp, c, "degree, bias, output, input passed in the recurrence's parameter order", f"{fn} is called with {[src_of(a) for a in c.args]}")
    io = [s for s in own_nodes(tp.node) if isinstance(s, ast.If) and is_self_attr(s.test, "poly_interaction_only")]
    ok = len(io) == 1 and any(isinstance(x, ast.Call) and src_of(x.func) == "_transform_ionly" for x in ast.walk(io[0].body[0])) and len(calls) == 2
    ck.verdict(ok, "C11.b", tp, io[0].test if io else "if self.poly_interaction_only", "interaction-only flag selects the interaction-only recurrence", "the interaction flag does not select _transform_ionly / _transform_iall as expected")
    mul = [f for f in repo.all_functions.values() if f.parent is tp and f.name == "multiply"]
    if mul:
        r = [src_of(x) for x in own_nodes(mul[0].node) if isinstance(x, ast.Return)]
        ck.verdict(r == ["return numpy.multiply(A, B, out=C)"], "C11.b", mul[0], r[0] if r else "multiply", "multiply writes A * B into C", "the multiply callback is not numpy.multiply(A, B, out=C)")
    # widths
    for m in ("_transform_poly", "_transform_poly_slow"):
        fi = ci.methods[m]
        al = [s for s in own_nodes(fi.node) if isinstance(s, ast.Assign) and src_of(s.targets[0]) == "XP"]
        ok = len(al) == 1 and isinstance(al[0].value, ast.Call) and src_of(al[0].value.args[0]) == "(X.shape[0], self.n_output_features_)"
        ck.verdict(ok, "C11.b", fi, al[0] if al else "XP = numpy.empty((n, n_output_features_))", "output has n_output_features_ columns", "allocated output width is not n_output_features_")
    fit = ci.methods["fit"]
    nf = [s for s in own_nodes(fit.node) if isinstance(s, ast.Assign) and any(is_self_attr(t, "n_output_features_") for t in s.targets)]
    ni = [s for s in own_nodes(fit.node) if isinstance(s, ast.Assign) and any(is_self_attr(t, "n_input_features_") for t in s.targets)]
    ck.verdict(len(nf) == 1 and src_of(nf[0].value) == "len(self.get_feature_names_out())", "C11.b", fit, nf[0] if nf else "n_output_features_ = len(names)", "n_output_features_ is the number of names", "n_output_features_ is not the number of feature names")
    ck.verdict(len(ni) == 1 and src_of(ni[0].value) == "X.shape[1]" and nf and ni[0].lineno < nf[0].lineno, "C11.b", fit, ni[0] if ni else "n_input_features_ = X.shape[1]", "input width recorded before the names are counted", "n_input_features_ is not X.shape[1] set before counting names")
    # slow path: same combinations arguments
    sl = ci.methods["_transform_poly_slow"]
    cc = [c for c in own_nodes_incl_lambda(sl.node) if isinstance(c, ast.Call) and src_of(c.func) == "_combinations_poly"]
    ok = len(cc) == 1 and [src_of(a) for a in cc[0].args] == ["X.shape[1]", "self.poly_degree", "self.poly_interaction_only"] and src_of(kwarg(cc[0], "include_bias")) == "self.poly_include_bias"
    ck.verdict(ok, "C11.b", sl, cc[0] if cc else "_combinations_poly(...)", "slow path enumerates combinations with the same options", "slow path does not pass (n_features, degree, interaction_only, include_bias)")
    cp = repo.func(POLY, "_combinations_poly")
    t = {src_of(s.targets[0]): src_of(s.value) for s in own_nodes(cp.node) if isinstance(s, ast.Assign)}
    ok = t.get("comb") == "combinations if interaction_only else combinations_w_r" and t.get("start") == "int(not include_bias)"
    r = [src_of(x.value) for x in own_nodes(cp.node) if isinstance(x, ast.Return)]
    ok = ok and r == ["chain.from_iterable((comb(range(n_features), i) for i in range(start, degree + 1)))"]
    ck.verdict(ok, "C11.b", cp, "combinations of sizes start..degree", "scikit-learn's enumeration order (by degree, then lexicographic)", "the combination enumeration differs from PolynomialFeatures' (_combinations)")
    loop = [l for l in own_nodes(sl.node) if isinstance(l, ast.For)]
    ok = len(loop) == 1 and src_of(loop[0].body[0]) == "XP[:, i] = X[:, comb].prod(1)" and src_of(loop[0].iter) == "enumerate(comb)"
    ck.verdict(ok, "C11.b", sl, loop[0].body[0] if loop else "XP[:, i] = X[:, comb].prod(1)", "column i is the product of the columns of combination i", "slow path column i is not the product over combination i")


def run(ck):
    repo = ck.repo
    for k, v in RULES.items():
        ck.rule(k, v)
    check_a(ck, repo)
    check_b(ck, repo)
    ck.require_count("C11.a", 5, "width, factor, operands, advance x2 functions + break guard")
    ck.require_count("C11.b", 18, "recurrence summaries x2, dispatchers, widths, slow path")


_P = "mlinsights/mlmodel/_extended_features_polynomial.py"
_E = "mlinsights/mlmodel/extended_features.py"
WITNESSES = [
    {"name": "iall-dest-one-short", "file": _P, "rule": "C11.a", "old": "                new_pos = pos + end - a\n                multiply(XP[:, a:end]", "new": "                new_pos = pos + end - a - 1\n                multiply(XP[:, a:end]"},
    {"name": "ionly-source-not-shifted", "file": _P, "rule": "C11.a", "old": "multiply(XP[:, a + dec : end], X[:, i : i + 1], XP[:, pos:new_pos])", "new": "multiply(XP[:, a:end], X[:, i : i + 1], XP[:, pos:new_pos])"},
    {"name": "iall-factor-two-columns", "file": _P, "rule": "C11.a", "old": "multiply(XP[:, a:end], X[:, i : i + 1], XP[:, pos:new_pos])", "new": "multiply(XP[:, a:end], X[:, i : i + 2], XP[:, pos:new_pos])"},
    {"name": "ionly-break-strict", "file": _P, "rule": "C11.a", "old": "                if new_pos <= pos:\n", "new": "                if new_pos <= pos + 1:\n"},
    {"name": "iall-pos-not-advanced", "file": _P, "rule": "C11.a", "old": "                multiply(XP[:, a:end], X[:, i : i + 1], XP[:, pos:new_pos])\n                pos = new_pos\n", "new": "                multiply(XP[:, a:end], X[:, i : i + 1], XP[:, pos:new_pos])\n                pos = new_pos - 1\n"},
    {"name": "names-source-from-previous-index", "file": _E, "rule": "C11.b", "old": "start = a + (index[i + 1] - index[i] if interaction_only else 0)", "new": "start = a + (index[i + 1] - index[i] if not interaction_only else 0)"},
    {"name": "names-other-factor", "file": _E, "rule": "C11.b", "old": '[a + " " + input_features[i] for a in names[start:end]]', "new": '[a + " " + input_features[n - 1 - i] for a in names[start:end]]'},
    {"name": "iall-record-after-write", "file": _P, "rule": "C11.b", "old": "                a = index[i]\n                new_index.append(pos)\n                new_pos = pos + end - a\n", "new": "                a = index[i]\n                new_pos = pos + end - a\n                new_index.append(new_pos)\n"},
    {"name": "ionly-record-after-break", "file": _P, "rule": "C11.b", "old": "                a = index[i]\n                new_index.append(pos)\n                dec = index[i + 1] - index[i]\n                new_pos = pos + end - a - dec\n                if new_pos <= pos:\n                    break\n", "new": "                a = index[i]\n                dec = index[i + 1] - index[i]\n                new_pos = pos + end - a - dec\n                if new_pos <= pos:\n                    break\n                new_index.append(pos)\n"},
    {"name": "names-cached", "file": _E, "rule": "C11.b", "old": "        names = [process_name(s) for s in names]\n        return names\n", "new": "        names = [process_name(s) for s in names]\n        self._names_cache_ = names\n        return names\n"},
    {"name": "names-substring-count", "file": _E, "rule": "C11.b", "old": "            scol = col.split()\n            res = []\n            for c in sorted(scol):\n                if not res or res[-1][0] != c:\n                    res.append((c, 1))\n                else:\n                    res[-1] = (c, res[-1][1] + 1)\n", "new": "            res = [(c, col.count(c)) for c in sorted(set(col.split()))]\n"},
    {"name": "transform-flag-inverted", "file": _E, "rule": "C11.b", "old": "        if self.poly_interaction_only:\n            return _transform_ionly(", "new": "        if not self.poly_interaction_only:\n            return _transform_ionly("},
    {"name": "transform-degree-bias-swapped", "file": _E, "rule": "C11.b", "old": "        return _transform_iall(\n            self.poly_degree, self.poly_include_bias, XP, X, multiply, final\n", "new": "        return _transform_iall(\n            self.poly_include_bias, self.poly_degree, XP, X, multiply, final\n"},
    {"name": "slow-kind-uses-fast-names", "file": _E, "rule": "C11.b", "old": "            self.poly_interaction_only,\n            include_bias=self.poly_include_bias,", "new": "            self.poly_interaction_only,\n            include_bias=True,"},
    {"name": "n-output-minus-one", "file": _E, "rule": "C11.b", "old": "self.n_output_features_ = len(self.get_feature_names_out())", "new": "self.n_output_features_ = len(self.get_feature_names_out()) - 1"},
    {"name": "combinations-start-zero", "file": _P, "rule": "C11.b", "old": "    start = int(not include_bias)\n", "new": "    start = 0\n"},
]
TWINS = [
    {"name": "iall-width-rewritten", "file": _P, "old": "                new_pos = pos + end - a\n                multiply(XP[:, a:end]", "new": "                new_pos = end - a + pos\n                multiply(XP[:, a:end]"},
]
MIN_WITNESSES = 11
