"""C11 — ExtendedFeatures (structural part).

  C11.a  slice-width conformance: in both block recurrences the destination
         slice of multiply() is exactly as wide as the source slice, and the
         factor is one column (exact linear arithmetic on the loop body)
  C11.b  the names recurrence mirrors the value recurrences: same source block
         [index[i] + DEC, index[-1]), same factor column i, block boundaries
         recorded at the current write position before writing, same first
         degree block and bias handling; dispatchers agree on the kinds;
         n_output_features_ = number of names = width of the allocated output

NOT decided: equality with PolynomialFeatures' column order (a property of the
recurrence's values) — see DESIGN.md.
"""

from __future__ import annotations

import ast
from engine.util import clone_ast
from typing import Dict, List, Optional, Tuple

from engine.src import FunctionInfo, own_nodes, own_nodes_incl_lambda, src_of, AnalysisError
from engine.affine import lin, Lin, LinErr
from engine.util import is_self_attr, const_value, kwarg
from .common import resolve_call
from .sem import expander, ctext, bind, calls, paths, RAISE, defs_texts

RULES = {
    "C11.a": "multiply(XP[:, s0:s1], X[:, i:i+1], XP[:, d0:d1]): d1 - d0 == s1 - s0 and the factor is a single column (affine proof)",
    "C11.b": "_get_feature_names_poly and _transform_iall/_transform_ionly have the same recurrence summary; dispatch/kind agreement; output width = number of names",
}

POLY = "mlinsights.mlmodel._extended_features_polynomial"
EXT = "mlinsights.mlmodel.extended_features"


# ---------------------------------------------------------------------------
# One symbolic round of a block recurrence.
#
# Both value recurrences and the names recurrence have the shape
#     [bias]  for d in range(degree):  if d == 0: FIRST   else: for i in range(n): STEP ; CLOSE
# They are compared through what ONE round does to the write position, written
# as linear forms over symbols:  P (write position at the start of the round),
# n, and I_i, I_i1, I_last (entries i, i+1 and -1 of the previous round's block
# boundaries).  Local names, temporaries, equivalent arithmetic, helper
# extraction of the first round and the way a block is appended (extend of a
# comprehension / loop of appends) do not matter.


def _slice(sub: ast.AST) -> Optional[ast.Slice]:
    """the column slice of XP[:, a:b]"""
    if isinstance(sub, ast.Subscript) and isinstance(sub.slice, ast.Tuple) and len(sub.slice.elts) == 2 and isinstance(sub.slice.elts[1], ast.Slice) and sub.slice.elts[1].lower is not None and sub.slice.elts[1].upper is not None:
        return sub.slice.elts[1]
    return None


class Seq:
    """list of consecutive integers first, first+1, ... (count of them)"""

    def __init__(self, first: Lin, count: Lin):
        self.first, self.count = first, count

    def __repr__(self):
        return f"Seq({self.first!r}; {self.count!r})"


class Acc:
    def __init__(self):
        self.items: List[Lin] = []


class PrevIndex:
    """the block boundaries produced by the previous round (symbolic)"""


class Unsupported(Exception):
    pass


class Round:
    def __init__(self, repo, fi: FunctionInfo, mode: str, flags: Dict[str, bool]):
        self.repo, self.fi, self.mode, self.flags = repo, fi, mode, flags
        self.env: Dict[str, object] = {}
        self.pos_name: Optional[str] = None  # values: the write position variable
        self.L: Optional[Lin] = None  # names: current len(names)
        self.names_var: Optional[str] = None
        self.events: List[tuple] = []
        self.iv: Optional[str] = None
        self.guards: List[Lin] = []
        self.broke_before_record = False

    # ---- expressions
    def _rewrite(self, e: ast.AST) -> ast.AST:
        iv, env = self.iv, self.env

        class R(ast.NodeTransformer):
            def visit_Subscript(s_, n):
                if isinstance(n.value, ast.Name) and isinstance(env.get(n.value.id), PrevIndex):
                    t = src_of(n.slice).replace(" ", "")
                    if iv is not None and t == iv:
                        return ast.Name(id="I_i", ctx=ast.Load())
                    if iv is not None and t in (f"{iv}+1", f"1+{iv}"):
                        return ast.Name(id="I_i1", ctx=ast.Load())
                    if t == "-1":
                        return ast.Name(id="I_last", ctx=ast.Load())
                return s_.generic_visit(n)

            def visit_IfExp(s_, n):
                v = self.truth(n.test)
                if v is True:
                    return s_.visit(n.body)
                if v is False:
                    return s_.visit(n.orelse)
                return s_.generic_visit(n)

        return R().visit(clone_ast(e))

    def truth(self, t: ast.AST) -> Optional[bool]:
        txt = src_of(t)
        if isinstance(t, ast.UnaryOp) and isinstance(t.op, ast.Not):
            v = self.truth(t.operand)
            return None if v is None else (not v)
        if isinstance(t, ast.Name) and isinstance(self.env.get(t.id), bool):
            return self.env[t.id]
        for k, v in self.flags.items():
            if txt == k:
                return v
        return None

    def lin(self, e: ast.AST) -> Lin:
        env = {k: v for k, v in self.env.items() if isinstance(v, Lin)}
        for alias in ("X.shape[1]", "self.n_input_features_", "len(input_features)"):
            env.setdefault(alias, Lin.sym("n"))
        if self.L is not None and self.names_var:
            env[f"len({self.names_var})"] = self.L
        return lin(self._rewrite(e), env)

    def value(self, e: ast.AST):
        if isinstance(e, ast.Name) and e.id in self.env and not isinstance(self.env[e.id], Lin):
            return self.env[e.id]
        if isinstance(e, ast.List) and not e.elts:
            return Acc()
        if isinstance(e, ast.Call) and src_of(e.func) == "list" and len(e.args) == 1 and isinstance(e.args[0], ast.Call) and src_of(e.args[0].func) == "range":
            r = e.args[0].args
            lo, hi = (Lin(0), self.lin(r[0])) if len(r) == 1 else (self.lin(r[0]), self.lin(r[1]))
            return Seq(lo, hi - lo)
        if isinstance(e, ast.BinOp) and isinstance(e.op, ast.Add):
            l = self.value(e.left) if not isinstance(e.left, ast.Name) or e.left.id in self.env else None
            if isinstance(l, Seq) and isinstance(e.right, ast.List) and len(e.right.elts) == 1:
                v = self.lin(e.right.elts[0])
                if v == l.first + l.count:
                    return Seq(l.first, l.count + Lin(1))
                raise Unsupported("list of boundaries is not consecutive")
        if isinstance(e, ast.IfExp):
            v = self.truth(e.test)
            if v is not None:
                return self.value(e.body if v else e.orelse)
        return self.lin(e)

    # ---- statements
    def run(self, stmts):
        for s in stmts:
            self.stmt(s)

    def bind(self, t, v):
        if isinstance(t, ast.Name):
            self.env[t.id] = v

    def stmt(self, s):
        if isinstance(s, ast.Assign) and len(s.targets) == 1:
            t = s.targets[0]
            if isinstance(t, (ast.Tuple, ast.List)):
                if isinstance(s.value, (ast.Tuple, ast.List)) and len(s.value.elts) == len(t.elts):
                    vals = [self.value(v) for v in s.value.elts]
                    for a, v in zip(t.elts, vals):
                        self.bind(a, v)
                    return
                if isinstance(s.value, ast.Call):
                    vals = self.call_helper(s.value)
                    if vals is not None and len(vals) == len(t.elts):
                        for a, v in zip(t.elts, vals):
                            self.bind(a, v)
                        return
                raise Unsupported(f"tuple assignment {src_of(s)[:50]}")
            if isinstance(t, ast.Subscript):
                # XP[:, a:b] = X : the first-degree block
                sl = _slice(t)
                if sl is not None:
                    lo, hi = self.lin(sl.lower), self.lin(sl.upper)
                    self.events.append(("copy", lo, hi - lo, src_of(s.value)))
                    return
                self.events.append(("store", src_of(t), src_of(s.value)))
                return
            if isinstance(t, ast.Name):
                try:
                    self.env[t.id] = self.value(s.value)
                except LinErr:
                    self.env[t.id] = None
                return
        if isinstance(s, ast.AugAssign) and isinstance(s.target, ast.Name) and isinstance(s.op, (ast.Add, ast.Sub)):
            cur = self.env.get(s.target.id)
            if isinstance(cur, Lin):
                d = self.lin(s.value)
                self.env[s.target.id] = cur + d if isinstance(s.op, ast.Add) else cur - d
                return
        if isinstance(s, ast.Expr) and isinstance(s.value, ast.Call):
            c = s.value
            f = c.func
            if isinstance(f, ast.Attribute) and isinstance(f.value, ast.Name):
                obj = self.env.get(f.value.id)
                if f.attr == "append" and isinstance(obj, Seq) and len(c.args) == 1:
                    v = self.lin(c.args[0])
                    if not (v == obj.first + obj.count):
                        raise Unsupported("boundary appended is not the next position")
                    obj.count = obj.count + Lin(1)
                    return
                if f.attr == "append" and isinstance(obj, Acc) and len(c.args) == 1:
                    obj.items.append(self.lin(c.args[0]))
                    self.events.append(("record", obj.items[-1]))
                    return
                if f.value.id == self.names_var and f.attr == "append" and len(c.args) == 1 and isinstance(c.args[0], ast.Constant) and isinstance(c.args[0].value, str):
                    self.events.append(("literal", self.L, c.args[0].value))
                    self.L = self.L + Lin(1)
                    return
                if f.value.id == self.names_var and f.attr in ("extend", "append"):
                    self.grow(c, f.attr)
                    return
            if isinstance(f, ast.Name) and len(c.args) == 3 and all(_slice(a) is not None for a in c.args):
                S, F, D = [_slice(a) for a in c.args]
                self.events.append(("mul", self.lin(S.lower), self.lin(S.upper), self.lin(F.lower), self.lin(F.upper), self.lin(D.lower), self.lin(D.upper), [src_of(a.value) for a in c.args], src_of(f)))
                return
            vals = self.call_helper(c)
            if vals is not None:
                return
            raise Unsupported(f"call {src_of(c)[:50]}")
        if isinstance(s, ast.If):
            v = self.truth(s.test)
            if v is not None:
                self.run(s.body if v else s.orelse)
                return
            # `if <width> <= 0: break` style guard
            if not s.orelse and len(s.body) == 1 and isinstance(s.body[0], (ast.Break, ast.Continue)) and isinstance(s.test, ast.Compare) and len(s.test.ops) == 1:
                l, r = self.lin(s.test.left), self.lin(s.test.comparators[0])
                op = s.test.ops[0]
                if isinstance(op, (ast.LtE, ast.Lt)):
                    d = l - r  # exits when d <= 0 (or < 0)
                elif isinstance(op, (ast.GtE, ast.Gt)):
                    d = r - l
                else:
                    raise Unsupported("guard operator")
                self.events.append(("guard", d, isinstance(op, (ast.LtE, ast.GtE)), isinstance(s.body[0], ast.Break)))
                return
            # `if <width> > 0: STEP` form
            raise Unsupported(f"branch on {src_of(s.test)[:40]}")
        if isinstance(s, ast.For):
            # a loop of appends over a slice of the names: grows the list by the slice width
            if self.names_var and isinstance(s.iter, ast.Subscript) and src_of(s.iter.value) == self.names_var and isinstance(s.iter.slice, ast.Slice) and len(s.body) == 1 and isinstance(s.body[0], ast.Expr) and isinstance(s.body[0].value, ast.Call) and src_of(s.body[0].value.func) == f"{self.names_var}.append":
                self.grow_from(s.iter.slice, src_of(s.target), s.body[0].value.args[0])
                return
            raise Unsupported("nested loop")
        if isinstance(s, (ast.Pass, ast.Assert)) or (isinstance(s, ast.Expr) and isinstance(s.value, ast.Constant)):
            return
        raise Unsupported(f"statement {src_of(s)[:50]}")

    def grow(self, c: ast.Call, how: str):
        a = c.args[0]
        if how == "extend" and isinstance(a, ast.Name):
            # names.extend(input_features): n names, the features in order
            self.events.append(("copy", self.L, Lin.sym("n"), a.id))
            self.L = self.L + Lin.sym("n")
            return
        if how == "extend" and isinstance(a, (ast.ListComp, ast.GeneratorExp)) and len(a.generators) == 1 and not a.generators[0].ifs:
            g = a.generators[0]
            if isinstance(g.iter, ast.Subscript) and src_of(g.iter.value) == self.names_var and isinstance(g.iter.slice, ast.Slice):
                self.grow_from(g.iter.slice, src_of(g.target), a.elt)
                return
        raise Unsupported(f"growth of the names {src_of(c)[:50]}")

    def grow_from(self, sl: ast.Slice, var: str, elt: ast.AST):
        lo, hi = self.lin(sl.lower), self.lin(sl.upper)
        parts = []

        def flat(e):
            if isinstance(e, ast.BinOp) and isinstance(e.op, ast.Add):
                flat(e.left)
                flat(e.right)
            else:
                parts.append(e)

        flat(elt)
        fac = None
        if len(parts) == 3 and src_of(parts[0]) == var and const_value(parts[1]) == " " and isinstance(parts[2], ast.Subscript) and isinstance(parts[2].value, ast.Name):
            fac = self.lin(parts[2].slice)
        elif isinstance(elt, ast.JoinedStr):
            vals = [v for v in elt.values]
            if len(vals) == 3 and isinstance(vals[0], ast.FormattedValue) and src_of(vals[0].value) == var and isinstance(vals[1], ast.Constant) and vals[1].value == " " and isinstance(vals[2], ast.FormattedValue) and isinstance(vals[2].value, ast.Subscript):
                fac = self.lin(vals[2].value.slice)
        if fac is None:
            raise Unsupported("appended name is not <block name> + ' ' + input_features[k]")
        self.events.append(("mul", lo, hi, fac, fac + Lin(1), self.L, self.L + (hi - lo), ["names", "input_features", "names"], "extend"))
        self.L = self.L + (hi - lo)

    def call_helper(self, c: ast.Call):
        from .common import resolve_call

        callee = resolve_call(self.repo, self.fi, c)
        if callee is None or callee.name == "__init__":
            return None
        body = [b for b in callee.node.body if not (isinstance(b, ast.Expr) and isinstance(b.value, ast.Constant))]
        if not body or not isinstance(body[-1], ast.Return):
            return None
        sub = Round(self.repo, callee, self.mode, self.flags)
        sub.names_var, sub.L = self.names_var, self.L
        ps = callee.named_params
        for k, a in enumerate(c.args):
            if k < len(ps):
                try:
                    sub.env[ps[k]] = self.value(a)
                except (LinErr, Unsupported):
                    sub.env[ps[k]] = None
        sub.run(body[:-1])
        self.events += sub.events
        r = body[-1].value
        vals = [sub.value(x) for x in (r.elts if isinstance(r, ast.Tuple) else [r])]
        return vals


def _find_structure(fi: FunctionInfo):
    """(prelude, degree loop, its variable, first-round statements, step prelude,
    feature loop, its variable, close statements)"""
    body = [s for s in fi.node.body if not (isinstance(s, ast.Expr) and isinstance(s.value, ast.Constant))]
    loops = [s for s in body if isinstance(s, ast.For) and isinstance(s.target, ast.Name) and isinstance(s.iter, ast.Call) and src_of(s.iter.func) == "range" and "degree" in src_of(s.iter)]
    if len(loops) != 1:
        raise AnalysisError("degree loop `for d in range(degree)` not found")
    o = loops[0]
    dv = o.target.id
    pre = body[: body.index(o)]
    first = rest = None
    for s in o.body:
        if isinstance(s, ast.If):
            t = src_of(s.test).replace(" ", "")
            if t in (f"{dv}==0", f"0=={dv}", f"not{dv}", f"{dv}<1"):
                first, rest = s.body, s.orelse
            elif t in (f"{dv}!=0", f"{dv}>0", dv, f"{dv}>=1", f"0<{dv}"):
                first, rest = s.orelse, s.body
    if first is None or not rest:
        # the first round peeled out of the loop: statements between the bias handling and the loop
        # that copy the inputs, the loop body being a later round
        cut = None
        for k, s in enumerate(pre):
            t = src_of(s)
            if (isinstance(s, ast.Assign) and isinstance(s.targets[0], ast.Subscript) and isinstance(s.targets[0].slice, ast.Tuple)) or ".extend(input_features)" in t or "list(range(" in t.replace(" ", ""):
                cut = k
                break
        if cut is None:
            raise AnalysisError(f"the branch on the first round (`{dv} == 0`) was not found")
        # keep the statements that define the position used by the first block with the prelude
        first, rest, pre = pre[cut:], list(o.body), pre[:cut]
        o._peeled = True  # type: ignore[attr-defined]
        # the peeled round must not run for degree 0: an early exit `if degree < 1: return ..` before it
        guarded = False
        for s in pre:
            if isinstance(s, ast.If) and s.body and isinstance(s.body[-1], ast.Return) and not s.orelse:
                t = src_of(s.test).replace(" ", "").replace("self.poly_degree", "degree")
                if t in ("degree<1", "degree==0", "degree<=0", "1>degree", "0==degree", "0>=degree", "notdegree"):
                    guarded = True
        o._peel_guarded = guarded  # type: ignore[attr-defined]
    
    inner = [s for s in rest if isinstance(s, ast.For) and isinstance(s.target, ast.Name) and isinstance(s.iter, ast.Call) and src_of(s.iter.func) == "range"]
    if len(inner) != 1:
        raise AnalysisError("feature loop `for i in range(n)` not found")
    k = rest.index(inner[0])
    return pre, o, dv, first, rest[:k], inner[0], inner[0].target.id, rest[k + 1 :]


def _range_lin(it: ast.Call, rd: "Round") -> Tuple[Lin, Lin]:
    a = it.args
    if len(a) == 1:
        return Lin(0), rd.lin(a[0])
    return rd.lin(a[0]), rd.lin(a[1])


def summarise(repo, fi: FunctionInfo, mode: str, interaction_only: Optional[bool] = None) -> Dict[str, str]:
    """what one round of the recurrence does, as linear forms"""
    pre, o, dv, first, step_pre, inner, iv, close = _find_structure(fi)
    out: Dict[str, str] = {}
    flags_base = {}
    if interaction_only is not None:
        flags_base = {"interaction_only": interaction_only, "self.poly_interaction_only": interaction_only}
    # ---- bias: the write position before the first round, with and without the constant column
    for bias in (True, False):
        rd = Round(repo, fi, mode, dict(flags_base, **{"bias": bias, "self.poly_include_bias": bias, "include_bias": bias}))
        rd.env["n"] = Lin.sym("n")
        if mode == "names":
            rd.L = Lin(0)
        lits: List[str] = []
        nvar = _names_var(pre) if mode == "names" else None
        for s in pre:
            try:
                if mode == "names" and isinstance(s, ast.Assign) and isinstance(s.targets[0], ast.Name) and s.targets[0].id == nvar:
                    v = s.value
                    if isinstance(v, ast.IfExp) and rd.truth(v.test) is not None:
                        v = v.body if rd.truth(v.test) else v.orelse
                    if isinstance(v, ast.List) and all(isinstance(e, ast.Constant) and isinstance(e.value, str) for e in v.elts):
                        rd.names_var = nvar
                        rd.L = Lin(len(v.elts))
                        lits = [e.value for e in v.elts]
                        continue
                rd.stmt(s)
            except (Unsupported, LinErr):
                continue
        if mode == "names":
            lits += [e[2] for e in rd.events if e[0] == "literal"]
            out[f"bias_{bias}_names"] = str(lits)
        if mode == "values":
            consts = {k: v for k, v in rd.env.items() if isinstance(v, Lin) and v.is_const() and k != "n"}
            out[f"bias_{bias}_pos"] = str(sorted(repr(v) for v in consts.values()))
            ones = [e for e in rd.events if e[0] == "store"]
            out[f"bias_{bias}_column"] = str([(e[1].replace(" ", ""), e[2]) for e in ones])
        else:
            out[f"bias_{bias}_pos"] = str([repr(rd.L)])
    lo, hi = None, None
    # ---- first round
    rd = Round(repo, fi, mode, flags_base)
    P = Lin.sym("P")
    rd.env["n"] = Lin.sym("n")
    _seed(rd, fi, mode, pre, P)
    rd.run(first)
    idx = [v for v in rd.env.values() if isinstance(v, Seq)]
    cp = [e for e in rd.events if e[0] == "copy"]
    out["first_copy"] = str([(repr(e[1] - P), repr(e[2]), "features" if e[3] in ("X", "input_features") else e[3]) for e in cp])
    out["first_index"] = str([(repr(x.first - P), repr(x.count)) for x in idx])
    out["first_pos"] = repr(_pos(rd, mode) - P)
    # ---- one step of a later round
    rd = Round(repo, fi, mode, flags_base)
    rd.env["n"] = Lin.sym("n")
    _seed(rd, fi, mode, pre, P)
    prevs = _index_names(first, step_pre + [inner], iv)
    for nm in prevs:
        rd.env[nm] = PrevIndex()
    rd.iv = iv
    rd.run(step_pre)
    rl, rh = _range_lin(inner.iter, rd)
    out["feature_loop"] = f"{rl!r}..{rh!r}"
    dl, dh = _range_lin(o.iter, rd)
    if getattr(o, "_peeled", False) and getattr(o, "_peel_guarded", False):
        # first round written before the loop (skipped when degree < 1): the loop runs the later rounds
        dl = dl - Lin(1)
    out["degree_loop"] = f"{dl!r}..{repr(dh).replace('self.poly_degree', 'degree')}"
    rd.env[iv] = Lin.sym("i")
    n_pre = len(rd.events)
    rd.run(inner.body)
    ev = rd.events[n_pre:]
    mul = [e for e in ev if e[0] == "mul"]
    rec = [e for e in ev if e[0] == "record"]
    grd = [e for e in ev if e[0] == "guard"]
    if len(mul) != 1:
        raise Unsupported(f"{len(mul)} block writes in one step")
    m = mul[0]
    out["src_lower"] = repr(m[1])
    out["src_upper"] = repr(m[2])
    out["factor"] = f"{m[3]!r} (+{(m[4] - m[3])!r})"
    out["dest"] = f"{(m[5] - P)!r} width {(m[6] - m[5])!r}"
    out["widths_equal"] = str((m[6] - m[5]) == (m[2] - m[1]))
    out["operands"] = str(m[7])
    order = [e[0] for e in ev]
    out["record"] = str([repr(e[1] - P) for e in rec])
    out["record_first"] = str(bool(rec) and order.index("record") < order.index("mul") and ("guard" not in order or order.index("record") < order.index("guard")))
    out["guards"] = str([(repr(g[1] - (m[6] - m[5])), g[2], g[3]) for g in grd]) if mode == "values" else "[]"
    out["step_pos"] = repr(_pos(rd, mode) - P - (m[6] - m[5]))
    # ---- close of the round
    n_pre = len(rd.events)
    P2 = _pos(rd, mode)
    rd.run(close)
    ev = rd.events[n_pre:]
    out["close_record"] = str([repr(e[1] - P2) for e in ev if e[0] == "record"])
    accs = {k for k, v in rd.env.items() if isinstance(v, Acc)}
    out["close_swap"] = str(sorted(k for k in prevs if isinstance(rd.env.get(k), Acc)) == sorted(prevs) and bool(prevs))
    out["reset"] = str(all(len(v.items) == 2 for v in rd.env.values() if isinstance(v, Acc)))
    return out


def _pos(rd: "Round", mode: str) -> Lin:
    if mode == "names":
        return rd.L
    v = rd.env.get(rd.pos_name)
    if not isinstance(v, Lin):
        raise Unsupported("write position lost")
    return v


def _names_var(pre) -> Optional[str]:
    """the list the names are accumulated in: initialised before the rounds from
    list literals (`["1"] if bias else []`, or `[]` followed by an append)"""
    nv = None
    for s in pre:
        if isinstance(s, ast.Assign) and isinstance(s.targets[0], ast.Name):
            v = s.value
            vs = [v.body, v.orelse] if isinstance(v, ast.IfExp) else [v]
            if all(isinstance(x, ast.List) and all(isinstance(e, ast.Constant) for e in x.elts) for x in vs):
                nv = s.targets[0].id
    return nv


def _seed(rd: "Round", fi, mode, pre, P):
    if mode == "names":
        rd.names_var = _names_var(pre)
        for s in pre:
            if isinstance(s, ast.Assign) and isinstance(s.targets[0], ast.Name) and src_of(s.value) in ("self.n_input_features_", "X.shape[1]"):
                rd.env[s.targets[0].id] = Lin.sym("n")
            if isinstance(s, ast.Assign) and isinstance(s.targets[0], ast.Name) and src_of(s.value) in ("self.poly_interaction_only",) and "interaction_only" in rd.flags:
                rd.env[s.targets[0].id] = rd.flags["interaction_only"]
        if rd.names_var is None:
            raise Unsupported("the list of names is not initialised before the rounds")
        rd.L = P
    else:
        # the write position: the variable given a constant in both branches of the bias test
        cands = {}
        for s in pre:
            for x in ast.walk(s):
                if isinstance(x, ast.Assign) and isinstance(x.targets[0], ast.Name) and isinstance(x.value, ast.Constant) and isinstance(x.value.value, int):
                    cands.setdefault(x.targets[0].id, 0)
                    cands[x.targets[0].id] += 1
            if isinstance(s, ast.Assign) and isinstance(s.targets[0], ast.Name) and src_of(s.value) in ("X.shape[1]",):
                rd.env[s.targets[0].id] = Lin.sym("n")
        names = [k for k, v in cands.items() if v >= 1]
        if len(names) != 1:
            raise Unsupported(f"write position variable not identified ({names})")
        rd.pos_name = names[0]
        rd.env[rd.pos_name] = P


def _index_names(first, rest=None, iv=None) -> List[str]:
    """names bound in the first round that later rounds read as block boundaries
    (subscripted with -1, the feature variable or the feature variable + 1)"""
    bound = set()
    for s in first:
        for x in ast.walk(s):
            if isinstance(x, ast.Assign):
                for t in x.targets:
                    for e in (t.elts if isinstance(t, (ast.Tuple, ast.List)) else [t]):
                        if isinstance(e, ast.Name):
                            bound.add(e.id)
    used = set()
    for s in rest or []:
        for x in ast.walk(s):
            if isinstance(x, ast.Subscript) and isinstance(x.value, ast.Name) and x.value.id in bound and isinstance(x.ctx, ast.Load):
                t = src_of(x.slice).replace(" ", "")
                if t == "-1" or (iv is not None and t in (iv, f"{iv}+1", f"1+{iv}")):
                    used.add(x.value.id)
    return sorted(used)


def check_a(ck, repo):
    for name in ("_transform_iall", "_transform_ionly"):
        fi = repo.func(POLY, name)
        try:
            sm = summarise(repo, fi, "values")
        except (AnalysisError, Unsupported, LinErr) as e:
            ck.unknown("C11.a", fi, name, f"cannot follow one round of the recurrence: {e}")
            continue
        import re as _re

        opaque = sorted(set(_re.findall(r"[A-Za-z_]\w*\[[^\]]*\]", " ".join(str(sm[k_]) for k_ in ("dest", "src_lower", "src_upper", "step_pos")))))
        if opaque:
            # block bounds read from a table this interpretation does not evolve (e.g. boundaries
            # computed beforehand by accumulate): the recurrence is written another way
            ck.unknown("C11.a", fi, f"{name}: destination {sm['dest']}", f"the bounds of the block written are read from {opaque[:3]}, a table filled outside the step this rule follows: widths and positions are not decided")
            ck.extra.setdefault("c11_opaque", []).append(name)
            continue
        ck.verdict(sm["widths_equal"] == "True", "C11.a", fi, f"{name}: destination {sm['dest']}, source [{sm['src_lower']}, {sm['src_upper']})", "destination block exactly as wide as the source block", f"destination block ({sm['dest']}) is not as wide as the source block [{sm['src_lower']}, {sm['src_upper']}): numpy broadcasts or raises, and every later block is shifted")
        ck.verdict(sm["factor"] == "i (+1)", "C11.a", fi, f"{name}: factor column {sm['factor']}", "the block is multiplied by the single column i", f"the factor columns are {sm['factor']}, not the single column i")
        ck.verdict(sm["operands"] == str(["XP", "X", "XP"]), "C11.a", fi, f"{name}: operands {sm['operands']}", "source and destination are blocks of the output, factor comes from the input", "multiply operands are not (XP block, X column, XP block)")
        ck.verdict(sm["dest"].startswith("0 width") and sm["step_pos"] == "0", "C11.a", fi, f"{name}: write at {sm['dest']}, then position {sm['step_pos']} past the block", "the block is written at the write position, which then advances to its end", "the destination does not start at the write position, or the position is not advanced to the end of the block: blocks overlap or leave gaps")
        for g in eval(sm["guards"]):
            ck.verdict(g[0] == "0" and g[1] and g[2], "C11.a", fi, f"{name}: early exit when width {g[0]} <= 0", "early exit only when the destination block is empty (no column skipped)", f"the early exit does not test the emptiness of the block about to be written (width {g[0]}{' <=' if g[1] else ' <'} 0{'' if g[2] else ', continue'}): columns are skipped")


SHARED = ["first_copy", "first_index", "first_pos", "feature_loop", "degree_loop", "src_lower", "src_upper", "factor", "dest", "record", "record_first", "step_pos", "close_record", "close_swap", "reset", "bias_True_pos", "bias_False_pos"]
EXPECT = {"first_copy": "[('0', 'n', 'features')]", "first_index": "[('0', 'n+1')]", "first_pos": "n", "record": "['0']", "record_first": "True", "step_pos": "0", "close_record": "['0']", "close_swap": "True", "reset": "True", "bias_True_pos": "['1']", "bias_False_pos": "['0']", "feature_loop": "0..n", "factor": "i (+1)", "degree_loop": "0..degree"}
WHAT = {
    "first_copy": "the first round copies the n input columns / names at the write position",
    "first_index": "the first round records the n+1 consecutive block boundaries P..P+n",
    "first_pos": "the first round advances the write position by n",
    "record": "each step records the current write position as a block boundary",
    "record_first": "the boundary is recorded before the block is written and before any early exit",
    "step_pos": "the write position advances by the width of the block written",
    "close_record": "the round is closed by recording the final write position",
    "close_swap": "the boundaries recorded become the previous round's boundaries",
    "reset": "boundaries are recorded into a fresh list each round",
    "bias_True_pos": "with the constant column the first block starts at 1",
    "bias_False_pos": "without the constant column the first block starts at 0",
    "degree_loop": "one round per degree 1..degree, the first one only when degree >= 1 (degree 0 leaves the constant column alone)",
}


def check_b(ck, repo):
    ci = repo.cls(EXT, "ExtendedFeatures")
    names = ci.methods.get("_get_feature_names_poly")
    if names is None:
        raise AnalysisError("anchor vanished: ExtendedFeatures._get_feature_names_poly")
    ex = expander(repo)
    for tname, io in (("_transform_iall", False), ("_transform_ionly", True)):
        tf = repo.func(POLY, tname)
        try:
            a = summarise(repo, tf, "values")
            b = summarise(repo, names, "names", io)
        except (AnalysisError, Unsupported, LinErr, IndexError, KeyError) as e:
            ck.unknown("C11.b", tf, f"{tname} vs names(interaction_only={io})", f"cannot summarise one round of the recurrences: {e}")
            continue
        import re as _re

        opq = sorted(set(_re.findall(r"[A-Za-z_]\w*\[[^\]]*\]", " ".join(str(d_.get(k_)) for d_ in (a, b) for k_ in ("dest", "src_lower", "src_upper", "step_pos")))))
        if opq:
            ck.unknown("C11.b", tf, f"{tname} vs names(interaction_only={io})", f"one of the recurrences reads its block bounds from {opq[:3]}, a table filled outside the step this rule follows: the two recurrences are not compared")
            continue
        for k in SHARED:
            va, vb = a.get(k), b.get(k)
            label = f"{tname} vs names[interaction_only={io}]: {k}"
            if k in EXPECT:
                bad = [n_ for n_, v in ((tname, va), ("the names recurrence", vb)) if v != EXPECT[k]]
                ck.verdict(not bad, "C11.b", tf if va != EXPECT[k] else names, label + f" = {va}", WHAT.get(k, "identical in both recurrences"), f"{k} is {va} in {tname} and {vb} in the names recurrence (expected {EXPECT[k]}): {WHAT.get(k, 'the recurrences differ')} does not hold, so names no longer describe the columns")
            else:
                ck.verdict(va == vb, "C11.b", names, label + f" = {va}", "identical in both recurrences", f"{k}: {tname} uses {va} but the names recurrence uses {vb}: column j is not named by the monomial it contains")
        ck.verdict(a.get("bias_True_column") == "[('XP[:,0]', '1')]" and a.get("bias_False_column") == "[]" and b.get("bias_True_names") == "['1']" and b.get("bias_False_names") == "[]", "C11.b", tf, f"{tname}: constant column {a.get('bias_True_column')} / name {b.get('bias_True_names')}", "the constant column is column 0, filled with 1 and named '1', only with include_bias", "the constant column / its name are not handled alike by the values and the names")
    # the names function is a pure function of the fitted configuration: no instance cache
    stores = [x for x in own_nodes(names.node) if isinstance(x, (ast.Assign, ast.AugAssign)) and any(isinstance(t, ast.Attribute) and isinstance(t.value, ast.Name) and t.value.id == "self" for t in (x.targets if isinstance(x, ast.Assign) else [x.target]))]
    ck.verdict(not stores, "C11.b", names, stores[0] if stores else "no store to self.* in _get_feature_names_poly", "names are recomputed from the current parameters at every call", "feature names are cached on the instance: after set_params (degree, flags) and a refit, names, n_output_features_ and the transform width describe the previous configuration")
    # every exit returns the names built by the recurrence, each formatted by the exponent formatter
    rets = [r for r in own_nodes(names.node) if isinstance(r, ast.Return)]
    fmt = None
    okr = bool(rets)
    try:
        nv = _names_var(_find_structure(names)[0])
    except AnalysisError:
        nv = None
    from .sem import elementwise as _elementwise

    for r in rets:
        v = r.value
        if isinstance(v, ast.Name):
            # `names = [fmt(s) for s in names]; return names`: the last re-binding of the returned name
            ds = [x for x in own_nodes(names.node) if isinstance(x, ast.Assign) and src_of(x.targets[0]) == v.id and isinstance(x.value, (ast.ListComp, ast.Call))]
            ds.sort(key=lambda x: x.lineno)
            v, at_ = (ds[-1].value, ds[-1]) if ds else (v, r)
        else:
            at_ = r
        ew = _elementwise(repo, names, v, at_) if v is not None else None
        el = ew[1] if ew is not None else None
        if ew is not None and ew[0] == [nv] and isinstance(el, ast.Call) and len(el.args) == 1 and not el.keywords and src_of(el.args[0]) == "__e0":
            fmt = resolve_call(repo, names, el)
        else:
            okr = False
    ck.verdict(okr and fmt is not None, "C11.b", names, f"returns {[src_of(r.value)[:50] for r in rets]}", "single kind of exit: the names built by the recurrence, each passed through the exponent formatter", f"_get_feature_names_poly returns {[src_of(r.value) for r in rets]}: some path returns something else than the names built by the recurrence")
    if fmt is not None:
        par = fmt.named_params[0]
        raw = [c for c in own_nodes_incl_lambda(fmt.node) if isinstance(c, ast.Call) and isinstance(c.func, ast.Attribute) and c.func.attr in ("count", "find", "index") and isinstance(c.func.value, ast.Name) and c.func.value.id == par]
        ck.verdict(not raw, "C11.b", fmt, raw[0] if raw else "exponents counted on the token list", "exponents are counted over whole factor names", f"`{src_of(raw[0]) if raw else ''}` counts substring occurrences in the joined name: 'x1' is also counted inside 'x10', so a column is named by another monomial than the one it contains")
    # dispatchers: evaluated for kind = 'poly', 'poly-slow' and an unknown kind
    want_ret = {
        "get_feature_names_out": {"poly": "self._get_feature_names_poly(input_features)", "poly-slow": "self._get_feature_names_poly(input_features)"},
        "fit": {"poly": "self._fit_poly(X, y)", "poly-slow": "self._fit_poly(X, y)"},
        "transform": {"poly": "self._transform_poly(X)", "poly-slow": "self._transform_poly_slow(X)"},
    }
    for m, table in want_ret.items():
        fi = ci.methods[m]
        for kind, w in table.items():
            ps = [p for p in paths(fi, {"self.kind": kind}) if p.ret != RAISE]
            got = sorted(set(p.ret_text() for p in ps))
            ck.verdict(got == [w], "C11.b", fi, f"{m}[kind={kind!r}] -> {got}", "each kind goes to its own implementation", f"{m} with kind={kind!r} returns {got}, expected {w}")
        ps = [p for p in paths(fi, {"self.kind": "<other>"}) if p.ret != RAISE]
        ck.verdict(not ps, "C11.b", fi, f"{m}[unknown kind] raises", "an unknown kind is refused", f"{m} accepts an unknown kind")
    # fit: widths recorded, input width before the names are counted
    fit = ci.methods["fit"]
    for p in paths(fit, {"self.kind": "poly"}):
        if p.ret == RAISE:
            continue
        keys = list(p.stores)
        ok = keys[:2] == ["self.n_input_features_", "self.n_output_features_"] and ast.unparse(p.stores[keys[0]]) == "X.shape[1]" and ast.unparse(p.stores[keys[1]]) == "len(self.get_feature_names_out())"
        ck.verdict(ok, "C11.b", fit, f"fit stores {[(k, ast.unparse(v)) for k, v in p.stores.items()][:2]}", "n_input_features_ = X.shape[1] is recorded before n_output_features_ = number of names", "n_output_features_ is not the number of feature names computed after the input width was recorded")
    # _transform_poly picks the recurrence matching the interaction flag and passes degree/bias in order
    tp = ci.methods["_transform_poly"]
    for io, fn in ((True, "_transform_ionly"), (False, "_transform_iall")):
        ps = [p for p in paths(tp, {"self.poly_interaction_only": io}) if p.ret not in (RAISE, None)]
        ok = False
        got = None
        for p in ps:
            r = p.ret
            if isinstance(r, ast.Call):
                got = ast.unparse(r.func)
                callee = repo.func(POLY, fn)
                b = {k: ast.unparse(v) for k, v in bind(r, callee.named_params).items()}
                ok = got == fn and b.get("degree") == "self.poly_degree" and b.get("bias") == "self.poly_include_bias" and b.get("X") == "X" and b.get("XP", "").replace(" ", "").startswith("numpy.empty((X.shape[0],self.n_output_features_)")
        ck.verdict(ok and len(ps) == 1, "C11.b", tp, f"interaction_only={io} -> {got}", "the interaction flag selects its recurrence; degree, bias, output of n_output_features_ columns and input passed to their parameters", f"with interaction_only={io}, _transform_poly calls {got} with arguments that do not match (degree, bias, XP of n_output_features_ columns, X)")
    mul = [f for f in repo.all_functions.values() if f.parent is tp]
    cb = None
    for p in paths(tp, {"self.poly_interaction_only": True}):
        if isinstance(p.ret, ast.Call):
            b = bind(p.ret, repo.func(POLY, "_transform_ionly").named_params)
            cbn = src_of(b["multiply"]).replace("__def", "") if "multiply" in b else None
            cb = next((f for f in mul if f.name == cbn), None)
            if cb is None and cbn:
                # a module-level function or a method used as callback
                cb = resolve_call(repo, tp, ast.Call(func=ast.parse(cbn, mode="eval").body, args=[], keywords=[]))
                if cb is None and cbn.isidentifier():
                    cb = tp.module.functions.get(cbn)
                if cb is not None and isinstance(cb, FunctionInfo) and cb.named_params[:1] == ["self"]:
                    cb = None
    if cb is not None:
        A, B, C = cb.named_params[:3]
        r = [p.ret_text() for p in paths(cb)]
        ck.verdict(r == [f"numpy.multiply({A}, {B}, out={C})"], "C11.b", cb, f"multiply callback returns {r}", "multiply writes A * B into C", "the multiply callback is not numpy.multiply(A, B, out=C)")
    else:
        ck.unknown("C11.b", tp, "multiply callback", "callback passed to the recurrence not found")
    # slow path
    sl = ci.methods["_transform_poly_slow"]
    cc = calls(sl, lambda c: src_of(c.func) == "_combinations_poly")
    okc = False
    if len(cc) == 1:
        b = {k: ex.text(v, sl, cc[0]) for k, v in bind(cc[0], repo.func(POLY, "_combinations_poly").named_params).items()}
        okc = b == {"n_features": "X.shape[1]", "degree": "self.poly_degree", "interaction_only": "self.poly_interaction_only", "include_bias": "self.poly_include_bias"}
    slow_unread = not cc
    if slow_unread:
        ck.unknown("C11.b", sl, "_combinations_poly(...)", "the slow path does not call _combinations_poly: the enumeration it loops over is written another way, which this rule does not compare with the shared one")
    else:
        ck.verdict(okc, "C11.b", sl, cc[0] if cc else "_combinations_poly(...)", "slow path enumerates combinations with the same options", "slow path does not pass (n_features, degree, interaction_only, include_bias)")
    loop = [l for l in own_nodes(sl.node) if isinstance(l, ast.For)]
    okl = False
    if len(loop) == 1 and isinstance(loop[0].iter, ast.Call) and src_of(loop[0].iter.func) == "enumerate" and isinstance(loop[0].target, ast.Tuple) and len(loop[0].target.elts) == 2 and len(loop[0].body) == 1 and cc:
        iv, cv = [src_of(x) for x in loop[0].target.elts]
        it0 = loop[0].iter.args[0]
        tcc = ex.text(cc[0], sl, cc[0])
        src_ok = ex.text(it0, sl, loop[0]) == tcc or (isinstance(it0, ast.Name) and any(tx == tcc for _, tx in defs_texts(repo, sl, it0.id)))
        st = loop[0].body[0]
        if isinstance(st, ast.Assign) and isinstance(st.targets[0], ast.Subscript):
            t, v = st.targets[0], st.value
            tgt_ok = isinstance(t.slice, ast.Tuple) and len(t.slice.elts) == 2 and src_of(t.slice.elts[1]) == iv and isinstance(t.slice.elts[0], ast.Slice)
            arr = src_of(t.value)
            val_ok = isinstance(v, ast.Call) and isinstance(v.func, ast.Attribute) and v.func.attr == "prod" and src_of(v.func.value).replace(" ", "") == f"X[:,{cv}]" and [src_of(a) for a in v.args] + [f"{k.arg}={src_of(k.value)}" for k in v.keywords] in (["1"], ["axis=1"])
            allocs = [tx.replace(" ", "") for _, tx in defs_texts(repo, sl, arr)]
            alloc = allocs[0] if len(allocs) == 1 else str(allocs)
            okl = src_ok and tgt_ok and val_ok
            ck.verdict(alloc.startswith("numpy.empty((X.shape[0],self.n_output_features_)"), "C11.b", sl, f"{arr} = {alloc[:60]}", "output has n_output_features_ columns", "allocated output width is not n_output_features_")
            rets = [src_of(r.value) for r in own_nodes(sl.node) if isinstance(r, ast.Return)]
            okl = okl and rets == [arr]
    if slow_unread and not okl:
        pass  # reported above as unknown
    else:
        ck.verdict(okl, "C11.b", sl, loop[0].body[0] if loop else "XP[:, i] = X[:, comb].prod(1)", "column i is the product of the columns of combination i", "slow path column i is not the product over combination i")
    cp = repo.func(POLY, "_combinations_poly")
    from .sem import ptext as _t

    def _cval(e):
        """value of an expression made of constants, not/and/or, int()/bool(), conditional expressions"""
        if isinstance(e, ast.Constant):
            return e.value
        if isinstance(e, ast.UnaryOp) and isinstance(e.op, ast.Not):
            return not _cval(e.operand)
        if isinstance(e, ast.UnaryOp) and isinstance(e.op, ast.USub):
            return -_cval(e.operand)
        if isinstance(e, ast.Call) and isinstance(e.func, ast.Name) and e.func.id in ("int", "bool") and len(e.args) == 1:
            return {"int": int, "bool": bool}[e.func.id](_cval(e.args[0]))
        if isinstance(e, ast.IfExp):
            return _cval(e.body) if _cval(e.test) else _cval(e.orelse)
        if isinstance(e, ast.BinOp) and isinstance(e.op, (ast.Add, ast.Sub)):
            a_, b_ = _cval(e.left), _cval(e.right)
            return a_ + b_ if isinstance(e.op, ast.Add) else a_ - b_
        raise ValueError(ast.unparse(e))

    bad = []
    pn, pd, pio, pib = cp.named_params[:4]
    for io in (True, False):
        for ib in (True, False):
            ps_ = [p for p in paths(cp, {pio: io, pib: ib}) if p.ret not in (None, RAISE)]
            ok_ = False
            if len(ps_) == 1 and isinstance(ps_[0].ret, ast.Call) and _t(ps_[0].ret.func) in ("chain.from_iterable", "itertools.chain.from_iterable") and len(ps_[0].ret.args) == 1 and isinstance(ps_[0].ret.args[0], (ast.GeneratorExp, ast.ListComp)):
                g = ps_[0].ret.args[0]
                if len(g.generators) == 1 and not g.generators[0].ifs and isinstance(g.generators[0].target, ast.Name) and isinstance(g.elt, ast.Call) and len(g.elt.args) == 2:
                    v = g.generators[0].target.id
                    it_ = g.generators[0].iter
                    try:
                        f_ = g.elt.func
                        if isinstance(f_, ast.IfExp):
                            f_ = f_.body if _cval(f_.test) else f_.orelse
                        start_ok = isinstance(it_, ast.Call) and _t(it_.func) == "range" and len(it_.args) == 2 and _cval(it_.args[0]) == (0 if ib else 1) and _t(it_.args[1]) in (ctext(f"{pd} + 1"), ctext(f"1 + {pd}"))
                        ok_ = start_ok and _t(f_) == ("combinations" if io else "combinations_w_r") and _t(g.elt.args[0]) == f"range({pn})" and _t(g.elt.args[1]) == v
                    except (ValueError, TypeError):
                        ok_ = False
            if not ok_:
                bad.append((io, ib, [p.ret_text()[:90] for p in ps_]))
    ck.verdict(not bad, "C11.b", cp, "combinations of sizes start..degree", "scikit-learn's enumeration order (by degree, then lexicographic), with/without replacement by interaction_only, sizes from 0 or 1 by include_bias", f"the combination enumeration differs from PolynomialFeatures' (_combinations) for (interaction_only, include_bias) in {[(a_, b_) for a_, b_, _ in bad]}: {bad[0][2] if bad else ''}")


def run(ck):
    repo = ck.repo
    for k, v in RULES.items():
        ck.rule(k, v)
    check_a(ck, repo)
    check_b(ck, repo)
    from .sem import check_decorators
    ci = repo.cls(EXT, "ExtendedFeatures")
    fis = [repo.func(POLY, n) for n in ("_transform_iall", "_transform_ionly", "_combinations_poly")] + list(ci.methods.values())
    n_dec = len(ck.obs)
    check_decorators(ck, "C11.b", fis)
    if len(ck.obs) == n_dec:
        ck.holds("C11.b", repo.func(POLY, "_combinations_poly"), f"decorators of {len(fis)} functions of the polynomial expansion", "no function of the expansion is wrapped: calls mean what the bodies say (in particular the one-shot iterator of _combinations_poly is built anew by every call)")
    ck.require_count("C11.a", 5, "width, factor, operands, advance x2 functions + break guard")
    ck.require_count("C11.b", 18, "recurrence summaries x2, dispatchers, widths, slow path")


_P = "mlinsights/mlmodel/_extended_features_polynomial.py"
_E = "mlinsights/mlmodel/extended_features.py"
WITNESSES = [
    {"name": "combinations-iterator-memoised", "file": _P, "rule": "C11.b", "old": "def _combinations_poly(", "new": "import functools\n\n\n@functools.lru_cache(maxsize=128)\ndef _combinations_poly("},
    {"name": "iall-dest-one-short", "file": _P, "rule": "C11.a", "old": "                new_pos = pos + end - a\n                multiply(XP[:, a:end]", "new": "                new_pos = pos + end - a - 1\n                multiply(XP[:, a:end]"},
    {"name": "ionly-source-not-shifted", "file": _P, "rule": "C11.a", "old": "multiply(XP[:, a + dec : end], X[:, i : i + 1], XP[:, pos:new_pos])", "new": "multiply(XP[:, a:end], X[:, i : i + 1], XP[:, pos:new_pos])"},
    {"name": "iall-factor-two-columns", "file": _P, "rule": "C11.a", "old": "multiply(XP[:, a:end], X[:, i : i + 1], XP[:, pos:new_pos])", "new": "multiply(XP[:, a:end], X[:, i : i + 2], XP[:, pos:new_pos])"},
    {"name": "ionly-break-strict", "file": _P, "rule": "C11.a", "old": "                if new_pos <= pos:\n", "new": "                if new_pos <= pos + 1:\n"},
    {"name": "iall-pos-not-advanced", "file": _P, "rule": "C11.a", "old": "                multiply(XP[:, a:end], X[:, i : i + 1], XP[:, pos:new_pos])\n                pos = new_pos\n", "new": "                multiply(XP[:, a:end], X[:, i : i + 1], XP[:, pos:new_pos])\n                pos = new_pos - 1\n"},
    {"name": "names-source-from-previous-index", "file": _E, "rule": "C11.b", "old": "start = a + (index[i + 1] - index[i] if interaction_only else 0)", "new": "start = a + (index[i + 1] - index[i] if not interaction_only else 0)"},
    {"name": "names-other-factor", "file": _E, "rule": "C11.b", "old": '[a + " " + input_features[i] for a in names[start:end]]', "new": '[a + " " + input_features[n - 1 - i] for a in names[start:end]]'},
    {"name": "iall-record-after-write", "file": _P, "rule": "C11.b", "old": "                a = index[i]\n                new_index.append(pos)\n                new_pos = pos + end - a\n", "new": "                a = index[i]\n                new_pos = pos + end - a\n                new_index.append(new_pos)\n"},
    {"name": "ionly-record-after-break", "file": _P, "rule": "C11.b", "old": "                a = index[i]\n                new_index.append(pos)\n                dec = index[i + 1] - index[i]\n                new_pos = pos + end - a - dec\n                if new_pos <= pos:\n                    break\n", "new": "                a = index[i]\n                dec = index[i + 1] - index[i]\n                new_pos = pos + end - a - dec\n                if new_pos <= pos:\n                    break\n                new_index.append(pos)\n"},
    {"name": "names-cached", "file": _E, "rule": "C11.b", "old": "        names = [process_name(s) for s in names]\n        return names\n", "new": "        names = [process_name(s) for s in names]\n        self._names_cache_ = names\n        return names\n"},
    {"name": "names-substring-count", "file": _E, "rule": "C11.b", "old": "            scol = col.split()\n            res = []\n            for c in sorted(scol):\n                if not res or res[-1][0] != c:\n                    res.append((c, 1))\n                else:\n                    res[-1] = (c, res[-1][1] + 1)\n", "new": "            res = [(c, col.count(c)) for c in sorted(set(col.split()))]\n"},
    {"name": "transform-flag-inverted", "file": _E, "rule": "C11.b", "old": "        if self.poly_interaction_only:\n            return _transform_ionly(", "new": "        if not self.poly_interaction_only:\n            return _transform_ionly("},
    {"name": "transform-degree-bias-swapped", "file": _E, "rule": "C11.b", "old": "        return _transform_iall(\n            self.poly_degree, self.poly_include_bias, XP, X, multiply, final\n", "new": "        return _transform_iall(\n            self.poly_include_bias, self.poly_degree, XP, X, multiply, final\n"},
    {"name": "slow-kind-uses-fast-names", "file": _E, "rule": "C11.b", "old": "            self.poly_interaction_only,\n            include_bias=self.poly_include_bias,", "new": "            self.poly_interaction_only,\n            include_bias=True,"},
    {"name": "n-output-minus-one", "file": _E, "rule": "C11.b", "old": "self.n_output_features_ = len(self.get_feature_names_out())", "new": "self.n_output_features_ = len(self.get_feature_names_out()) - 1"},
    {"name": "combinations-start-zero", "file": _P, "rule": "C11.b", "old": "    start = int(not include_bias)\n", "new": "    start = 0\n"},
]
TWINS = [
    {"name": "iall-width-rewritten", "file": _P, "old": "                new_pos = pos + end - a\n                multiply(XP[:, a:end]", "new": "                new_pos = end - a + pos\n                multiply(XP[:, a:end]"},
]
MIN_WITNESSES = 11
