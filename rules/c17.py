"""C17 — IntervalRegressor bootstraps over the whole training set, aggregates exactly.

  C17.a  index domain: the index array used to subscript X along axis 0 is drawn
         by randint(low, high, size) with low = 0 and exclusive high affine-equal
         to X.shape[0]
  C17.b  X, y, sample_weight are indexed by the same draw; the sample size is
         int(n * alpha + 0.5); one clone per range(self.n_estimators); predict is
         mean(axis=1) of predict_all's matrix, predict_sorted sorts each row of
         that same matrix ascending; column i of the matrix is estimator i's
         prediction
"""

from __future__ import annotations

import ast
from typing import List

from engine.src import FunctionInfo, own_nodes, own_nodes_incl_lambda, src_of, AnalysisError
from engine.affine import lin, Lin, LinErr
from engine.util import kwarg, is_self_attr
from .pairing_rules import check_coindex, pairing
from .c08 import _parallel_sites

RULES = {
    "C17.a": "resampling indices: randint(low=0, high=X.shape[0] (exclusive), size) — every row eligible, none out of range (affine equality)",
    "C17.b": "rows, targets and weights selected by the same draw; sample size int(n*alpha + 0.5); one clone per estimator; mean / per-row sort of the same prediction matrix; column i = estimator i",
}

MOD = "mlinsights.mlmodel.interval_regressor"


def check_a(ck, repo):
    ci = repo.cls(MOD, "IntervalRegressor")
    fit = ci.methods["fit"]
    task = repo.nested(fit, "_fit_piecewise_estimator")
    draws = [c for c in own_nodes_incl_lambda(task.node) if isinstance(c, ast.Call) and src_of(c.func).split(".")[-1] in ("randint", "integers", "choice", "permutation")]
    if len(draws) != 1:
        ck.unknown("C17.a", task, "rnd = numpy.random.randint(...)", f"{len(draws)} index draws")
        return
    c = draws[0]
    fn = src_of(c.func).split(".")[-1]
    n = Lin.sym("X.shape[0]")
    if fn in ("randint", "integers"):
        args = list(c.args)
        low = kwarg(c, "low") or (args[0] if len(args) >= 2 else None)
        high = kwarg(c, "high") or (args[1] if len(args) >= 2 else (args[0] if len(args) == 1 else None))
        if len(args) == 1 and kwarg(c, "high") is None:
            low = None
        try:
            lo = lin(low) if low is not None else Lin(0)
            hi = lin(high)
        except (LinErr, TypeError):
            ck.unknown("C17.a", task, c, "bounds are not affine expressions")
            return
        if fn == "integers" and kwarg(c, "endpoint") is not None and src_of(kwarg(c, "endpoint")) == "True":
            hi = hi + Lin(1)
        ck.verdict(lo == Lin(0), "C17.a", task, f"low = {src_of(low) if low is not None else 0}", "lowest index 0: the first row is eligible", f"lowest drawn index is {lo!r}, not 0: the first rows are never drawn")
        ck.verdict(hi == n, "C17.a", task, c, "exclusive upper bound is the number of rows: every row is eligible and no index is out of range", f"exclusive upper bound is {hi!r}; it must equal X.shape[0]: " + ("the last row(s) are never drawn and a single-row training set raises" if (n - hi).is_const() and (n - hi).c > 0 else "indices can fall outside the training set"))
    else:
        a0 = c.args[0] if c.args else None
        try:
            ok = a0 is not None and lin(a0) == n
        except LinErr:
            ok = False
        ck.verdict(ok and (fn != "choice" or (kwarg(c, "replace") is None or src_of(kwarg(c, "replace")) == "True")) and fn != "permutation", "C17.a", task, c, "indices drawn with replacement over range(X.shape[0])", "indices are not drawn with replacement over all X.shape[0] rows")
    # size
    size = kwarg(c, "size") or (c.args[2] if len(c.args) > 2 else (c.args[1] if fn == "choice" and len(c.args) > 1 else None))
    sdef = None
    if isinstance(size, ast.Name):
        d = [s for s in own_nodes(task.node) if isinstance(s, ast.Assign) and src_of(s.targets[0]) == size.id]
        sdef = src_of(d[0].value) if len(d) == 1 else None
    ck.verdict(sdef in ("int(X.shape[0] * alpha + 0.5)", "int(alpha * X.shape[0] + 0.5)", "round(alpha * X.shape[0])", "round(X.shape[0] * alpha)"), "C17.b", task, f"size = {sdef}", "sample size is round(alpha * n)", f"the number of rows drawn is {sdef}, not round(alpha * n)")
    # the draw indexes X along axis 0
    tgt = [s for s in own_nodes(task.node) if isinstance(s, ast.Assign) and s.value is c]
    name = src_of(tgt[0].targets[0]) if tgt else None
    uses = [s for s in own_nodes(task.node) if isinstance(s, ast.Assign) and isinstance(s.value, (ast.Subscript, ast.IfExp)) and name and f"[{name}]" in src_of(s.value)]
    ck.verdict(len(uses) == 3, "C17.b", task, f"{[src_of(u) for u in uses]}", "the draw selects rows of X, y and sample_weight", f"expected X, y and sample_weight to be indexed by '{name}', found {len(uses)} uses")


def check_b(ck, repo):
    ci = repo.cls(MOD, "IntervalRegressor")
    fit = ci.methods["fit"]
    task = repo.nested(fit, "_fit_piecewise_estimator")
    n = check_coindex(ck, "C17.b", repo, task, methods={"fit"}, min_args=3)
    if n == 0:
        ck.violated("C17.b", task, "est.fit(Xr, yr, sr)", "the model is not fitted on X, y and sample_weight selected by one and the same draw: features, target and weight of a drawn row are not kept together")
    fits = [c for c in own_nodes_incl_lambda(task.node) if isinstance(c, ast.Call) and isinstance(c.func, ast.Attribute) and c.func.attr == "fit"]
    ck.verdict(len(fits) == 1 and src_of(fits[0].func.value) == task.named_params[1], "C17.b", task, fits[0] if fits else "est.fit(...)", "the estimator handed to the task is the one fitted and returned", "the task fits another object than the clone it was given")
    est = [s for s in own_nodes(fit.node) if isinstance(s, ast.Assign) and src_of(s.targets[0]) == "estimators"]
    ck.verdict(len(est) == 1 and src_of(est[0].value) == "[clone(self.estimator) for i in range(self.n_estimators)]", "C17.b", fit, est[0] if est else "estimators = [...]", "n_estimators clones of the base regressor", "the list of models is not one clone per range(self.n_estimators)")
    sites = _parallel_sites(fit)
    if len(sites) != 1:
        ck.unknown("C17.b", fit, "Parallel(...)(delayed(...))", f"{len(sites)} parallel sites")
    else:
        c, gen, inner, f = sites[0]
        a = [src_of(x) for x in inner.args]
        lv = src_of(gen.generators[0].target)
        ck.verdict(src_of(f) == "_fit_piecewise_estimator" and a == [lv, f"estimators[{lv}]", "X", "y", "sample_weight", "self.alpha"], "C17.b", fit, inner, "task i trains estimators[i] on a resample of (X, y, sample_weight) of relative size alpha", f"task arguments are {a}")
        it = gen.generators[0].iter
        loop_src = it
        if isinstance(it, ast.Name):
            d = [s for s in own_nodes(fit.node) if isinstance(s, ast.Assign) and src_of(s.targets[0]) == it.id]
            loop_src = d[0].value if d else it
        ranges = [src_of(x) for x in ast.walk(loop_src) if isinstance(x, ast.Call) and src_of(x.func) == "range"]
        ck.verdict(bool(ranges) and all(r == "range(len(estimators))" for r in ranges), "C17.b", fit, f"loop over {ranges}", "every model is trained", "the task loop does not cover range(len(estimators))")
        st = c._parent
        while st is not None and not isinstance(st, ast.stmt):
            st = getattr(st, "_parent", None)
        ck.verdict(isinstance(st, ast.Assign) and any(is_self_attr(t, "estimators_") for t in st.targets), "C17.b", fit, "self.estimators_ = Parallel(...)", "fitted models stored in order", "fitted models are not stored as estimators_")
    # aggregation
    pa, pr, ps = ci.methods["predict_all"], ci.methods["predict"], ci.methods["predict_sorted"]
    t = [src_of(s) for s in sorted((x for x in own_nodes(pa.node) if isinstance(x, (ast.Assign, ast.Return))), key=lambda x: x.lineno)]
    ck.verdict(t == ["container = numpy.empty((X.shape[0], len(self.estimators_)))", "pred = est.predict(X)", "container[:, i] = pred", "return container"], "C17.b", pa, " ; ".join(t), "column i of the matrix is estimator i's prediction for every row", f"predict_all is not [one column per estimator, column i = estimators_[i].predict(X)]: {t}")
    loops = [l for l in own_nodes(pa.node) if isinstance(l, ast.For)]
    ck.verdict(len(loops) == 1 and src_of(loops[0].iter) == "enumerate(self.estimators_)" and src_of(loops[0].target) == "(i, est)", "C17.b", pa, loops[0] if loops else "for i, est in enumerate(self.estimators_)", "all estimators, in order", "predict_all does not enumerate all estimators")
    t = [src_of(s) for s in sorted((x for x in own_nodes(pr.node) if isinstance(x, (ast.Assign, ast.Return))), key=lambda x: x.lineno)]
    ck.verdict(t == ["preds = self.predict_all(X)", "return preds.mean(axis=1)"], "C17.b", pr, " ; ".join(t), "predict = row-wise mean of the individual predictions", f"predict is not predict_all(X).mean(axis=1): {t}")
    t = [src_of(s) for s in sorted((x for x in own_nodes(ps.node) if isinstance(x, (ast.Assign, ast.Return))), key=lambda x: x.lineno)]
    ck.verdict(t == ["preds = self.predict_all(X)", "preds[i, :] = numpy.sort(preds[i, :])", "return preds"], "C17.b", ps, " ; ".join(t), "each row of the same matrix sorted ascending", f"predict_sorted is not the row-wise ascending sort of predict_all(X): {t}")
    loops = [l for l in own_nodes(ps.node) if isinstance(l, ast.For)]
    ck.verdict(len(loops) == 1 and src_of(loops[0].iter) == "range(preds.shape[0])", "C17.b", ps, loops[0] if loops else "for i in range(preds.shape[0])", "every row is sorted", "predict_sorted does not sort every row")


def run(ck):
    repo = ck.repo
    for k, v in RULES.items():
        ck.rule(k, v)
    check_a(ck, repo)
    check_b(ck, repo)
    ck.require_count("C17.a", 1, "low and high of the draw")
    ck.require_count("C17.b", 7, "size, uses, co-index, receiver, clones, task args, loop, storage, predict_all x2, predict, predict_sorted x2")


_F = "mlinsights/mlmodel/interval_regressor.py"
WITNESSES = [
    {"name": "high-minus-one", "file": _F, "rule": "C17.a", "old": "numpy.random.randint(0, X.shape[0], new_size)", "new": "numpy.random.randint(0, X.shape[0] - 1, new_size)"},
    {"name": "low-one", "file": _F, "rule": "C17.a", "old": "numpy.random.randint(0, X.shape[0], new_size)", "new": "numpy.random.randint(1, X.shape[0], new_size)"},
    {"name": "high-new-size", "file": _F, "rule": "C17.a", "old": "numpy.random.randint(0, X.shape[0], new_size)", "new": "numpy.random.randint(0, new_size, new_size)"},
    {"name": "targets-own-draw", "file": _F, "rule": "C17.b", "old": "            yr = y[rnd]\n", "new": "            yr = y[numpy.random.randint(0, X.shape[0], new_size)]\n"},
    {"name": "weights-unselected", "file": _F, "rule": "C17.b", "old": "            sr = sample_weight[rnd] if sample_weight is not None else None\n", "new": "            sr = sample_weight[:new_size] if sample_weight is not None else None\n"},
    {"name": "size-truncated", "file": _F, "rule": "C17.b", "old": "new_size = int(X.shape[0] * alpha + 0.5)", "new": "new_size = int(X.shape[0] * alpha)"},
    {"name": "predict-median", "file": _F, "rule": "C17.b", "old": "        return preds.mean(axis=1)\n", "new": "        return numpy.median(preds, axis=1)\n"},
    {"name": "sorted-descending", "file": _F, "rule": "C17.b", "old": "            preds[i, :] = numpy.sort(preds[i, :])\n", "new": "            preds[i, :] = numpy.sort(preds[i, :])[::-1]\n"},
    {"name": "sorted-columns", "file": _F, "rule": "C17.b", "old": "        for i in range(preds.shape[0]):\n            preds[i, :] = numpy.sort(preds[i, :])\n", "new": "        for i in range(preds.shape[1]):\n            preds[:, i] = numpy.sort(preds[:, i])\n"},
    {"name": "predict-all-column-shift", "file": _F, "rule": "C17.b", "old": "            container[:, i] = pred\n", "new": "            container[:, -i] = pred\n"},
    {"name": "one-clone-shared", "file": _F, "rule": "C17.b", "old": "estimators = [clone(self.estimator) for i in range(self.n_estimators)]", "new": "estimators = [clone(self.estimator)] * self.n_estimators"},
]
TWINS = [
    {"name": "randint-single-bound", "file": _F, "old": "numpy.random.randint(0, X.shape[0], new_size)", "new": "numpy.random.randint(X.shape[0], size=new_size)"},
    {"name": "randint-keywords", "file": _F, "old": "numpy.random.randint(0, X.shape[0], new_size)", "new": "numpy.random.randint(low=0, high=X.shape[0], size=new_size)"},
]
MIN_WITNESSES = 10
