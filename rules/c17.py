"""C17 — IntervalRegressor bootstraps over the whole training set, aggregates exactly.

  C17.a  index domain: the index array used to subscript X along axis 0 is drawn
         by randint(low, high, size) with low = 0 and exclusive high affine-equal
         to X.shape[0]
  C17.b  X, y, sample_weight are indexed by the same draw; the sample size is
         int(n * alpha + 0.5); one clone per range(self.n_estimators); predict is
         mean(axis=1) of predict_all's matrix, predict_sorted sorts each row of
         that same matrix ascending; column i of the matrix is estimator i's
         prediction
"""

from __future__ import annotations

import ast
from engine.util import clone_ast
import re
from typing import Dict, List

from engine.src import FunctionInfo, own_nodes, own_nodes_incl_lambda, src_of, AnalysisError
from engine.affine import lin, Lin, LinErr
from engine.util import kwarg, is_self_attr
from .pairing_rules import check_coindex, pairing
from .c08 import _parallel_sites, _strip_progress
from .common import resolve_call
from .sem import truth_of, expander, ctext, want, xt, bind, calls, paths, stmt_of, defs_texts, guarded_values, gather_alternatives, same_selection, RAISE, conds_at

RULES = {
    "C17.a": "resampling indices: randint(low=0, high=X.shape[0] (exclusive), size) — every row eligible, none out of range (affine equality)",
    "C17.b": "rows, targets and weights selected by the same draw; sample size int(n*alpha + 0.5); one clone per estimator; mean / per-row sort of the same prediction matrix; column i = estimator i",
}

MOD = "mlinsights.mlmodel.interval_regressor"


def _t(x) -> str:
    return ast.unparse(x) if isinstance(x, ast.AST) else str(x)


def _task(repo, fit: FunctionInfo):
    sites = _parallel_sites(fit)
    if len(sites) != 1:
        return None, None
    c, gen, inner, f = sites[0]
    fake = ast.Call(func=f, args=inner.args, keywords=inner.keywords)
    ast.copy_location(fake, inner)
    fake._parent = getattr(inner, "_parent", None)
    return resolve_call(repo, fit, fake), sites[0]


def _roles(repo, fit: FunctionInfo, task: FunctionInfo, site) -> Dict[str, Optional[str]]:
    """which parameter of the task receives the estimator, X, y, sample_weight and
    alpha: decided by what the call site passes (not by position)"""
    c, gen, inner, f = site
    b = bind(inner, task.named_params)
    ex = expander(repo)
    fX, fy, fsw = fit.named_params[1:4]
    roles: Dict[str, Optional[str]] = {"est": None, "X": None, "y": None, "sw": None, "alpha": None, "index": None}
    lv_names = {n.id for n in ast.walk(gen.generators[0].target) if isinstance(n, ast.Name)}
    for prm, arg in b.items():
        t = src_of(arg)
        if t == fX:
            roles["X"] = prm
        elif t == fy:
            roles["y"] = prm
        elif t == fsw:
            roles["sw"] = prm
        elif t in ("self.alpha",) or ex.text(arg, fit, stmt_of(c)) == "self.alpha":
            roles["alpha"] = prm
        elif isinstance(arg, ast.Subscript) and isinstance(arg.value, ast.Name) and isinstance(arg.slice, ast.Name) and arg.slice.id in lv_names:
            roles["est"] = prm
        elif isinstance(arg, ast.Name) and arg.id in lv_names:
            # either the index itself or the model drawn from zip(.., estimators)
            it = gen.generators[0].iter
            is_zip = isinstance(it, ast.Call) and src_of(it.func) == "zip"
            if is_zip and isinstance(gen.generators[0].target, ast.Tuple):
                pos = [k for k, e in enumerate(gen.generators[0].target.elts) if isinstance(e, ast.Name) and e.id == arg.id]
                if pos and pos[0] < len(it.args) and not any(xt(_strip_progress(x_)).startswith("range(") for _, x_, _ in guarded_values(repo, fit, it.args[pos[0]], stmt_of(c))):
                    roles["est"] = prm
                    continue
            roles["index"] = prm
    # a closure may read fit's X, y, sample_weight as free variables instead of receiving them
    if getattr(task, "parent", None) is fit:
        loaded = {n.id for n in ast.walk(task.node) if isinstance(n, ast.Name) and isinstance(n.ctx, ast.Load)}
        stored = {n.id for n in ast.walk(task.node) if isinstance(n, ast.Name) and isinstance(n.ctx, ast.Store)}
        for nm, key in ((fX, "X"), (fy, "y"), (fsw, "sw")):
            if roles[key] is None and nm not in task.named_params and nm in loaded and nm not in stored:
                roles[key] = nm
    return roles


def check_a(ck, repo):
    ci = repo.cls(MOD, "IntervalRegressor")
    fit = ci.methods["fit"]
    task, site = _task(repo, fit)
    if task is None:
        raise AnalysisError("anchor vanished: the resampling task of IntervalRegressor.fit")
    ex = expander(repo)
    roles = _roles(repo, fit, task, site)
    if roles["X"] is None:
        raise AnalysisError("anchor vanished: the resampling task does not receive fit's X")
    pX = roles["X"]
    draws = [c for c in own_nodes_incl_lambda(task.node) if isinstance(c, ast.Call) and src_of(c.func).split(".")[-1] in ("randint", "integers", "choice", "permutation")]
    if len(draws) != 1:
        ck.unknown("C17.a", task, "rnd = numpy.random.randint(...)", f"{len(draws)} index draws")
        return
    c = draws[0]
    st = stmt_of(c)
    fn = src_of(c.func).split(".")[-1]
    n = Lin.sym(f"{pX}.shape[0]")

    def L(e):
        return lin(ex.norm_expr(e, task, st))

    if fn in ("randint", "integers"):
        args = list(c.args)
        low = kwarg(c, "low") or (args[0] if len(args) >= 2 else None)
        high = kwarg(c, "high") or (args[1] if len(args) >= 2 else (args[0] if len(args) == 1 else None))
        if len(args) == 1 and kwarg(c, "high") is None:
            low = kwarg(c, "low")
        if high is None and low is not None:
            low, high = None, low  # randint(low=n): a single bound is the exclusive upper one
        try:
            lo = L(low) if low is not None else Lin(0)
            hi = L(high)
        except (LinErr, TypeError):
            ck.violated("C17.a", task, c, f"the bounds of the draw ({src_of(low) if low is not None else 0}, {ex.text(high, task, st) if high is not None else None}) are not 0 and {pX}.shape[0]: rows are not all eligible or indices can fall outside the training set")
            return
        if fn == "integers" and kwarg(c, "endpoint") is not None and src_of(kwarg(c, "endpoint")) == "True":
            hi = hi + Lin(1)
        ck.verdict(lo == Lin(0), "C17.a", task, f"low = {src_of(low) if low is not None else 0}", "lowest index 0: the first row is eligible", f"lowest drawn index is {lo!r}, not 0: the first rows are never drawn")
        ck.verdict(hi == n, "C17.a", task, c, "exclusive upper bound is the number of rows: every row is eligible and no index is out of range", f"exclusive upper bound is {hi!r}; it must equal {pX}.shape[0]: " + ("the last row(s) are never drawn and a single-row training set raises" if (n - hi).is_const() and (n - hi).c > 0 else "indices can fall outside the training set"))
    else:
        a0 = c.args[0] if c.args else None
        try:
            ok = a0 is not None and L(a0) == n
        except LinErr:
            ok = False
        ck.verdict(ok and (fn != "choice" or (kwarg(c, "replace") is None or src_of(kwarg(c, "replace")) == "True")) and fn != "permutation", "C17.a", task, c, "indices drawn with replacement over range(X.shape[0])", "indices are not drawn with replacement over all X.shape[0] rows")
    # size
    size = kwarg(c, "size") or (c.args[2] if len(c.args) > 2 else (c.args[1] if fn == "choice" and len(c.args) > 1 else None))
    sdef = ex.text(size, task, st) if size is not None else None
    alpha = roles["alpha"] or "alpha"
    wants = {want(repo, f"int({pX}.shape[0] * {alpha} + 0.5)", task, st), want(repo, f"round({alpha} * {pX}.shape[0])", task, st), want(repo, f"int(round({alpha} * {pX}.shape[0]))", task, st)}
    ck.verdict(sdef in wants, "C17.b", task, f"size = {sdef}", "sample size is round(alpha * n)", f"the number of rows drawn is {sdef}, not round(alpha * n)")


def check_b(ck, repo):
    ci = repo.cls(MOD, "IntervalRegressor")
    fit = ci.methods["fit"]
    task, site = _task(repo, fit)
    ex = expander(repo)
    roles = _roles(repo, fit, task, site) if site is not None else {}
    pE, pX, py_, psw = roles.get("est"), roles.get("X"), roles.get("y"), roles.get("sw")
    if None in (pE, pX, py_, psw):
        ck.unknown("C17.b", fit, "task arguments", f"cannot tell which task parameters receive the model, X, y and sample_weight: {roles}")
        return
    fits = calls(task, lambda c: isinstance(c.func, ast.Attribute) and c.func.attr == "fit")
    ok_sel = False
    if len(fits) == 1:
        c = fits[0]
        b = bind(c, ["X", "y", "sample_weight"])
        if set(b) == {"X", "y", "sample_weight"}:
            with ex.draws_are_values():
                alts = [gather_alternatives(repo, task, b[k], c) for k in ("X", "y", "sample_weight")]
            bases = [{a[1] for a in v} for v in alts]
            ok_sel = bases == [{pX}, {py_}, {psw}] and same_selection(alts)
            # the common row index is the draw
            rows = {a[2] for v in alts for a in v}
            draws = [d for d in own_nodes_incl_lambda(task.node) if isinstance(d, ast.Call) and src_of(d.func).split(".")[-1] in ("randint", "integers", "choice")]
            if ok_sel and len(rows) == 1 and len(draws) == 1:
                r = next(iter(rows))
                dst = stmt_of(draws[0])
                ok_sel = isinstance(dst, ast.Assign) and dst.value is draws[0] and src_of(dst.targets[0]) == r
    ck.verdict(ok_sel, "C17.b", task, fits[0] if fits else "est.fit(Xr, yr, sr)", "X, y and sample_weight are selected by one and the same draw", "the model is not fitted on X, y and sample_weight selected by one and the same draw: features, target and weight of a drawn row are not kept together")
    ck.verdict(len(fits) == 1 and src_of(fits[0].func.value) == pE and [p.ret_text() for p in paths(task) if p.ret != RAISE] and all(isinstance(p.ret, ast.Call) and _t(p.ret.func) == f"{pE}.fit" for p in paths(task) if p.ret != RAISE), "C17.b", task, fits[0] if fits else "est.fit(...)", "the estimator handed to the task is the one fitted and returned", "the task fits (or returns) another object than the clone it was given")
    if site is None:
        ck.unknown("C17.b", fit, "Parallel(...)(delayed(...))", "parallel site not found")
    else:
        c, gen, inner, f = site
        lv = src_of(gen.generators[0].target)
        b = {k: v for k, v in bind(inner, task.named_params).items()}
        bs = {k: src_of(v) for k, v in b.items()}
        m_arg = b.get(pE)
        E = m_arg.value.id if isinstance(m_arg, ast.Subscript) and isinstance(m_arg.value, ast.Name) and src_of(m_arg.slice) == lv else None
        zipped = False
        it_ = gen.generators[0].iter
        if E is None and isinstance(m_arg, ast.Name) and isinstance(it_, ast.Call) and src_of(it_.func) == "zip" and isinstance(gen.generators[0].target, ast.Tuple):
            # for _, est in zip(loop, estimators): model k is paired with position k of the loop
            pos = [k for k, e in enumerate(gen.generators[0].target.elts) if isinstance(e, ast.Name) and e.id == m_arg.id]
            if pos and pos[0] < len(it_.args) and isinstance(it_.args[pos[0]], ast.Name):
                E = it_.args[pos[0]].id
                zipped = True
        idx_ok = zipped or (roles.get("index") is None) or bs.get(roles["index"]) == lv
        def _same(prm_, fname_):
            # bound at the call, or read by the closure as fit's own variable
            return bs.get(prm_) == fname_ or (prm_ == fname_ and prm_ not in task.named_params)

        ok = idx_ok and E is not None and _same(pX, fit.named_params[1]) and _same(py_, fit.named_params[2]) and _same(psw, fit.named_params[3]) and roles.get("alpha") is not None and ex.text(b[roles["alpha"]], fit, stmt_of(c)) == "self.alpha"
        # the rows the tasks resample are the caller's: every row stays eligible
        n_before = len(ck.obs)
        for prm_, fname in ((pX, fit.named_params[1]), (py_, fit.named_params[2]), (psw, fit.named_params[3])):
            a_ = b.get(prm_)
            if a_ is None and prm_ == fname and prm_ not in task.named_params:
                a_ = ast.Name(id=fname, ctx=ast.Load())  # read by the closure as fit's own variable
            if a_ is None:
                continue
            alts_ = list(guarded_values(repo, fit, a_, stmt_of(c))) or [(frozenset(), a_, None)]
            # a parameter rebound on some branch before the dispatch: each rebinding is a value the task may receive
            if isinstance(a_, ast.Name):
                for st_ in own_nodes(fit.node):
                    if isinstance(st_, ast.Assign) and st_.lineno < stmt_of(c).lineno:
                        for t_ in st_.targets:
                            if isinstance(t_, ast.Name) and t_.id == a_.id:
                                alts_.append((frozenset(conds_at(repo, fit, st_)), ex.norm_expr(st_.value, fit, st_), st_))
                            elif isinstance(t_, (ast.Tuple, ast.List)) and isinstance(st_.value, (ast.Tuple, ast.List)) and len(t_.elts) == len(st_.value.elts):
                                for te_, ve_ in zip(t_.elts, st_.value.elts):
                                    if isinstance(te_, ast.Name) and te_.id == a_.id:
                                        alts_.append((frozenset(conds_at(repo, fit, st_)), ex.norm_expr(ve_, fit, st_), st_))
                            elif isinstance(t_, (ast.Tuple, ast.List)) and any(isinstance(te_, ast.Name) and te_.id == a_.id for te_ in t_.elts):
                                k_ = [i for i, te_ in enumerate(t_.elts) if isinstance(te_, ast.Name) and te_.id == a_.id][0]
                                alts_.append((frozenset(conds_at(repo, fit, st_)), ast.Subscript(value=ex.norm_expr(st_.value, fit, st_), slice=ast.Constant(k_), ctx=ast.Load()), st_))
            for fc_, v_, _s in alts_:
                core = v_
                while True:
                    if isinstance(core, ast.Call) and src_of(core.func).split(".")[-1] in ("check_array", "asarray", "array", "ascontiguousarray", "asanyarray", "column_or_1d", "_check_sample_weight") and core.args:
                        core = core.args[0]
                    elif isinstance(core, ast.Call) and isinstance(core.func, ast.Attribute) and core.func.attr in ("astype", "copy", "ravel", "to_numpy") :
                        core = core.func.value
                    elif isinstance(core, ast.Attribute) and core.attr == "values":
                        core = core.value
                    elif isinstance(core, ast.Subscript) and isinstance(core.slice, ast.Constant) and isinstance(core.value, ast.Call) and src_of(core.value.func).split(".")[-1] == "check_X_y" and isinstance(core.slice.value, int) and core.slice.value < len(core.value.args):
                        core = core.value.args[core.slice.value]
                    else:
                        break
                if isinstance(core, ast.Name) and core.id == fname:
                    continue
                if isinstance(core, ast.Constant) and core.value is None and fname == fit.named_params[3]:
                    continue
                if isinstance(core, ast.Subscript) and isinstance(core.value, ast.Name) and core.value.id == fname:
                    ck.violated("C17.b", fit, inner, f"the task receives {xt(v_)[:70]} for {fname}" + (f" when {sorted(fc_)[:2]}" if fc_ else "") + f": a selection of the caller's rows, so n is no longer the number of training rows and the rows left out can never be drawn")
                else:
                    ck.unknown("C17.b", fit, inner, f"the task receives {xt(v_)[:70]} for {fname}: not the caller's array in a form this analysis follows")
        if len(ck.obs) == n_before:
            ck.holds("C17.b", fit, "X, y, sample_weight handed to the tasks", "the caller's arrays on every path (no row is removed before the resampling)")
        ck.verdict(ok, "C17.b", fit, inner, "task i trains estimators[i] on a resample of (X, y, sample_weight) of relative size alpha", f"task arguments are {bs}")
        okc = False
        ds = defs_texts(repo, fit, E) if E else []
        if len(ds) == 1:
            try:
                v = ast.parse(ds[0][1], mode="eval").body
            except SyntaxError:
                v = None
            okc = isinstance(v, ast.ListComp) and _t(v.elt) == "clone(self.estimator)" and len(v.generators) == 1 and not v.generators[0].ifs and _t(v.generators[0].iter) in ("range(self.n_estimators)", "range(0, self.n_estimators)")
        if not okc and E:
            from .sem import elementwise

            r_ = elementwise(repo, fit, ast.Name(id=E, ctx=ast.Load()), stmt_of(c))
            if r_ is not None and len(r_[0]) == 1 and r_[0][0].replace(" ", "") in ("range(self.n_estimators)", "range(0,self.n_estimators)") and _t(r_[1]) == "clone(self.estimator)":
                okc = True
        ck.verdict(okc, "C17.b", fit, ds[0][0] if ds else "estimators = [...]", "n_estimators clones of the base regressor", "the list of models is not one fresh clone per range(self.n_estimators)")
        st = stmt_of(c)
        w = want(repo, f"range(len({E}))", fit, st) if E else None
        if zipped:
            # zip(loop, estimators): as long as the shorter argument; every other argument must be range(len(estimators))
            vals = []
            for a_ in it_.args:
                if isinstance(a_, ast.Name) and a_.id == E:
                    continue
                vals += [xt(_strip_progress(x)) for _, x, _ in guarded_values(repo, fit, a_, st)]
            vals = vals or ([w] if w else [])
        else:
            vals = [xt(_strip_progress(x)) for _, x, _ in guarded_values(repo, fit, gen.generators[0].iter, st)]
        ck.verdict(bool(vals) and all(v == w for v in vals), "C17.b", fit, f"task loop over {sorted(set(v[:40] for v in vals))}", "every model is trained", "the task loop does not cover range(len(estimators))")
        ck.verdict(isinstance(st, ast.Assign) and any(is_self_attr(t, "estimators_") for t in st.targets), "C17.b", fit, "self.estimators_ = Parallel(...)", "fitted models stored in order", "fitted models are not stored as estimators_")
    # aggregation
    pa, pr, ps = ci.methods["predict_all"], ci.methods["predict"], ci.methods["predict_sorted"]
    X = pa.named_params[1]
    pp = [p for p in paths(pa) if p.ret != RAISE]
    oka = False
    loops = [l for l in own_nodes(pa.node) if isinstance(l, ast.For)]
    EST = "self.estimators_"

    def _sub_env(e, p_):
        from engine.patheval import _Sub

        return _t(_Sub(p_.env).visit(clone_ast(e)))

    full = [p for p in pp if p.stores]
    empty = [p for p in pp if not p.stores]
    form = False
    if len(loops) == 1 and full and all(isinstance(p.ret, ast.AST) for p in pp):
        l = loops[0]
        oka = True
        it0 = l.iter
        # the two spellings this rule reads: `for i, est in enumerate(estimators_)` writing a column of the
        # returned buffer, `for column, est in zip(buffer.T, estimators_)` writing through the view
        form = (isinstance(it0, ast.Call) and src_of(it0.func) == "enumerate" and any(isinstance(s_, ast.Assign) and isinstance(s_.targets[0], ast.Subscript) and isinstance(s_.targets[0].slice, ast.Tuple) for s_ in ast.walk(l))) or (isinstance(it0, ast.Call) and src_of(it0.func) == "zip")
        for p in full:
            R = p.ret_text()
            shape = R.replace(" ", "")
            # a read-only property that returns len(estimators_) is that length
            for pn_, pm_ in ci.methods.items():
                rets_ = [r_ for r_ in own_nodes(pm_.node) if isinstance(r_, ast.Return) and r_.value is not None]
                if any(src_of(d_) == "property" for d_ in pm_.node.decorator_list) and len(rets_) == 1 and len(pm_.node.body) <= 2 and src_of(rets_[0].value) == f"len({EST})":
                    shape = shape.replace(f"self.{pn_})", f"len({EST}))").replace(f"self.{pn_},", f"len({EST}),")
            alloc = any(shape.startswith(f"numpy.{fn_}(({X}.shape[0],len({EST}))") for fn_ in ("empty", "zeros", "full"))
            st = {k: _t(v) for k, v in p.stores.items()}
            ok_p = False
            it = l.iter
            if isinstance(it, ast.Call) and src_of(it.func) == "enumerate" and len(it.args) == 1 and isinstance(l.target, ast.Tuple) and len(l.target.elts) == 2:
                i_, e_ = [src_of(x) for x in l.target.elts]
                ok_p = _sub_env(it.args[0], p) == EST and st == {f"{R}[:, {i_}__L{l.lineno}]": f"{e_}__L{l.lineno}.predict({X})"}
            elif isinstance(it, ast.Call) and src_of(it.func) == "zip" and len(it.args) == 2 and isinstance(l.target, ast.Tuple) and len(l.target.elts) == 2 and all(isinstance(x, ast.Name) for x in l.target.elts):
                # for column, est in zip(container.T, estimators): column[:] = est.predict(X)
                # (iterating the transposed buffer yields views on its columns, in order)
                names_ = [x.id for x in l.target.elts]
                args_ = [_sub_env(a, p) for a in it.args]
                if f"{R}.T" in args_ and EST in args_ and args_.index(f"{R}.T") != args_.index(EST):
                    c_ = names_[args_.index(f"{R}.T")]
                    e_ = names_[args_.index(EST)]
                    ok_p = st == {f"{c_}__L{l.lineno}[:]": f"{e_}__L{l.lineno}.predict({X})"}
            oka = oka and alloc and ok_p
        for p in empty:
            # an early exit is acceptable only for "no estimator": the empty buffer is returned
            shape = p.ret_text().replace(" ", "")
            none = truth_of(p.conds, f"len({EST}) == 0") is True or truth_of(p.conds, f"0 == len({EST})") is True or truth_of(p.conds, EST) is False or truth_of(p.conds, f"len({EST})") is False
            oka = oka and none and any(shape.startswith(f"numpy.{fn_}(({X}.shape[0],len({EST}))") for fn_ in ("empty", "zeros"))
        pp = full[:1] if full else pp
    # the buffer keeps the predictions as they are: float64 (the default), not the dtype of X
    if len(pp) == 1 and isinstance(pp[0].ret, ast.Call):
        pos_ = 2 if src_of(pp[0].ret.func).endswith(".full") else 1
        dt = [k.value for k in pp[0].ret.keywords if k.arg == "dtype"] + list(pp[0].ret.args[pos_:pos_ + 1])
        if pos_ == 2 and not dt:
            # numpy.full without a dtype takes the type of the fill value: an integer fill makes an integer buffer
            fv = pp[0].ret.args[1] if len(pp[0].ret.args) > 1 else next((k.value for k in pp[0].ret.keywords if k.arg == "fill_value"), None)
            if fv is not None and isinstance(fv, ast.Constant) and not isinstance(fv.value, float):
                dt = [ast.Name(id=f"type of fill value {fv.value!r}", ctx=ast.Load())]
        FLOAT64 = ("float", "numpy.float64", "'float64'", "numpy.double", "'float'", "'f8'", "'d'", "numpy.float_", "None")
        lossy = [d for d in dt if src_of(d).replace('"', "'") not in FLOAT64]
        ck.verdict(not lossy, "C17.b", pa, f"buffer dtype {[src_of(d) for d in dt] or 'float64 (default)'}", "the matrix stores each model's prediction unchanged", f"the matrix of individual predictions is allocated with dtype={src_of(lossy[0]) if lossy else ''}: predictions are cast (rounded or truncated) when stored, so predict_all/predict_sorted no longer hold the individual predictions and predict is not their mean")
    from .sem import opaque_helpers_in

    gen_helpers = opaque_helpers_in(repo, pa, [src_of(l_.iter) for l_ in loops]) or [c_.func.attr for l_ in loops for c_ in ast.walk(l_.iter) if isinstance(c_, ast.Call) and isinstance(c_.func, ast.Attribute) and src_of(c_.func.value) == "self" and c_.func.attr in ci.methods and c_.func.attr not in ("predict_all", "predict", "predict_sorted", "fit")]
    if not oka and gen_helpers:
        ck.unknown("C17.b", pa, "container[:, i] = estimators_[i].predict(X) for every i", f"the predictions are produced by {gen_helpers[0]}(), a generator this rule does not look into: which estimator fills which column is not decided")
    elif not oka and not form:
        ck.unknown("C17.b", pa, "container[:, i] = estimators_[i].predict(X) for every i", "predict_all does not fill the returned matrix column by column in a loop over the estimators in one of the spellings this rule reads (another buffer layout or counter is not followed)")
    else:
        ck.verdict(oka, "C17.b", pa, "container[:, i] = estimators_[i].predict(X) for every i", "column i of the matrix is estimator i's prediction for every row", "predict_all is not [one column per estimator, column i = estimators_[i].predict(X)]")
    Xp = pr.named_params[1]
    r = [p.ret_text() for p in paths(pr) if p.ret != RAISE]
    ck.verdict(r in ([f"self.predict_all({Xp}).mean(axis=1)"], [f"numpy.mean(self.predict_all({Xp}), axis=1)"], [f"self.predict_all({Xp}).mean(1)"], [f"numpy.mean(self.predict_all({Xp}), 1)"], [f"numpy.average(self.predict_all({Xp}), axis=1)"]), "C17.b", pr, f"return {r}", "predict = row-wise mean of the individual predictions", f"predict is not predict_all(X).mean(axis=1): {r}")
    Xs = ps.named_params[1]
    P = f"self.predict_all({Xs})"
    pps = [p for p in paths(ps) if p.ret != RAISE]
    oks = bool(pps)
    loops = [l for l in own_nodes(ps.node) if isinstance(l, ast.For)]
    for p in pps:
        rt = p.ret_text()
        st = {k: _t(v) for k, v in p.stores.items()}
        ok_p = False
        if rt in (f"numpy.sort({P}, axis=1)", f"numpy.sort({P})", f"numpy.sort({P}, axis=-1)") and not st:
            ok_p = True
        elif rt == P and not st and any(truth_of(p.conds, t) is True for t in (f"{P}.shape[0] == 0", f"0 == {P}.shape[0]", f"len({P}) == 0")):
            ok_p = True  # empty batch: nothing to sort
        elif rt == P and not st and not loops:
            ip = [_t(c_) for c_ in p.calls if isinstance(c_.func, ast.Attribute) and c_.func.attr == "sort"]
            ok_p = ip in ([f"{P}.sort(axis=1)"], [f"{P}.sort()"], [f"{P}.sort(axis=-1)"], [f"{P}.sort(1)"])
        elif not st and re.match(r"^numpy\.(vstack|array|stack)\(\[numpy\.sort\(", rt.replace(" ", "")) is not None:
            # the sorted rows stacked again: [numpy.sort(P[i, :]) for i in range(P.shape[0])]
            m2 = re.match(r"^numpy\.(?:vstack|array|stack)\(\[numpy\.sort\((.+)\[(\w+)(?:,:)?\]\)for(\w+)inrange\((.+)\.shape\[0\]\)\]\)$", rt.replace(" ", ""))
            ok_p = m2 is not None and m2.group(1) == P.replace(" ", "") and m2.group(2) == m2.group(3) and m2.group(4) == P.replace(" ", "")
        elif rt == P and not st and any(truth_of(p.conds, t) is True for t in (f"{P}.shape[0] == 0", f"0 == {P}.shape[0]", f"len({P}) == 0")):
            ok_p = True  # empty batch: nothing to sort
        elif rt == P and not st and loops:
            # an exit before the loop: only where every row has at most one element
            ok_p = any(truth_of(p.conds, t) is True for t in (f"{P}.shape[1] <= 1", f"{P}.shape[1] < 2", f"{P}.shape[1] == 0")) or any(truth_of(p.conds, t) is False for t in (f"{P}.shape[1] > 1", f"1 < {P}.shape[1]", f"{P}.shape[1] >= 2"))
        elif rt == P and len(loops) == 1:
            l = loops[0]
            from engine.patheval import _Sub

            it_t = _t(_Sub(p.env).visit(clone_ast(l.iter)))
            if isinstance(l.target, ast.Name):
                iv = f"{l.target.id}__L{l.lineno}"
                m_ = re.match(r"^range\((?:(.+)\.shape\[0\]|len\((.+)\))\)$", it_t.replace(" ", ""))
                nm_ = (m_.group(1) or m_.group(2)) if m_ else None
                if nm_ is not None and nm_ == P.replace(" ", ""):
                    ok_p = st in ({f"{P}[{iv}, :]": f"numpy.sort({P}[{iv}, :])"}, {f"{P}[{iv}]": f"numpy.sort({P}[{iv}])"})
                elif it_t == P:
                    # for row in preds: row[:] = numpy.sort(row)  (rows of a 2-d array are views)
                    ok_p = st == {f"{iv}[:]": f"numpy.sort({iv})"}
        oks = oks and ok_p
    fam = all(p.ret_text().replace(" ", "").startswith(("numpy.sort(", "numpy.vstack(", "numpy.array(", "numpy.stack(")) or p.ret_text() == P for p in pps)
    if not oks and not fam:
        ck.unknown("C17.b", ps, "every row of predict_all(X) sorted ascending", f"predict_sorted returns {[p.ret_text()[:50] for p in pps][:2]}: not one of the spellings of a row-wise sort this rule reads")
    else:
      ck.verdict(oks, "C17.b", ps, "every row of predict_all(X) sorted ascending", "each row of the same matrix sorted ascending", "predict_sorted is not the row-wise ascending sort of predict_all(X)")


def run(ck):
    repo = ck.repo
    for k, v in RULES.items():
        ck.rule(k, v)
    check_a(ck, repo)
    check_b(ck, repo)
    ck.require_count("C17.a", 1, "low and high of the draw")
    ck.require_count("C17.b", 8, "size, uses, co-index, receiver, clones, task args, loop, storage, predict_all x2, predict, predict_sorted x2")


_F = "mlinsights/mlmodel/interval_regressor.py"
WITNESSES = [
    {"name": "zero-weight-rows-dropped-before-dispatch", "file": _F, "rule": "C17.b", "old": "        def _fit_piecewise_estimator(i, est, X, y, sample_weight, alpha):\n", "new": "        if sample_weight is not None:\n            keep = sample_weight > 0\n            X, y, sample_weight = X[keep], y[keep], sample_weight[keep]\n\n        def _fit_piecewise_estimator(i, est, X, y, sample_weight, alpha):\n"},
    {"name": "predict-all-buffer-dtype-of-X", "file": _F, "rule": "C17.b", "old": "container = numpy.empty((X.shape[0], len(self.estimators_)))", "new": "container = numpy.empty((X.shape[0], len(self.estimators_)), dtype=X.dtype)"},
    {"name": "predict-all-buffer-float32", "file": _F, "rule": "C17.b", "old": "container = numpy.empty((X.shape[0], len(self.estimators_)))", "new": "container = numpy.zeros((X.shape[0], len(self.estimators_)), dtype=numpy.float32)"},
    {"name": "high-minus-one", "file": _F, "rule": "C17.a", "old": "numpy.random.randint(0, X.shape[0], new_size)", "new": "numpy.random.randint(0, X.shape[0] - 1, new_size)"},
    {"name": "low-one", "file": _F, "rule": "C17.a", "old": "numpy.random.randint(0, X.shape[0], new_size)", "new": "numpy.random.randint(1, X.shape[0], new_size)"},
    {"name": "high-new-size", "file": _F, "rule": "C17.a", "old": "numpy.random.randint(0, X.shape[0], new_size)", "new": "numpy.random.randint(0, new_size, new_size)"},
    {"name": "targets-own-draw", "file": _F, "rule": "C17.b", "old": "            yr = y[rnd]\n", "new": "            yr = y[numpy.random.randint(0, X.shape[0], new_size)]\n"},
    {"name": "weights-unselected", "file": _F, "rule": "C17.b", "old": "            sr = sample_weight[rnd] if sample_weight is not None else None\n", "new": "            sr = sample_weight[:new_size] if sample_weight is not None else None\n"},
    {"name": "size-truncated", "file": _F, "rule": "C17.b", "old": "new_size = int(X.shape[0] * alpha + 0.5)", "new": "new_size = int(X.shape[0] * alpha)"},
    {"name": "predict-median", "file": _F, "rule": "C17.b", "old": "        return preds.mean(axis=1)\n", "new": "        return numpy.median(preds, axis=1)\n"},
    {"name": "sorted-descending", "file": _F, "rule": "C17.b", "old": "            preds[i, :] = numpy.sort(preds[i, :])\n", "new": "            preds[i, :] = numpy.sort(preds[i, :])[::-1]\n"},
    {"name": "sorted-columns", "file": _F, "rule": "C17.b", "old": "        for i in range(preds.shape[0]):\n            preds[i, :] = numpy.sort(preds[i, :])\n", "new": "        for i in range(preds.shape[1]):\n            preds[:, i] = numpy.sort(preds[:, i])\n"},
    {"name": "predict-all-column-shift", "file": _F, "rule": "C17.b", "old": "            container[:, i] = pred\n", "new": "            container[:, -i] = pred\n"},
    {"name": "one-clone-shared", "file": _F, "rule": "C17.b", "old": "estimators = [clone(self.estimator) for i in range(self.n_estimators)]", "new": "estimators = [clone(self.estimator)] * self.n_estimators"},
]
TWINS = [
    {"name": "predict-all-buffer-explicit-float64", "file": _F, "old": "container = numpy.empty((X.shape[0], len(self.estimators_)))", "new": "container = numpy.zeros((X.shape[0], len(self.estimators_)), dtype=numpy.float64)"},
    {"name": "randint-single-bound", "file": _F, "old": "numpy.random.randint(0, X.shape[0], new_size)", "new": "numpy.random.randint(X.shape[0], size=new_size)"},
    {"name": "randint-keywords", "file": _F, "old": "numpy.random.randint(0, X.shape[0], new_size)", "new": "numpy.random.randint(low=0, high=X.shape[0], size=new_size)"},
]
MIN_WITNESSES = 10
