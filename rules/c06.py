"""C06 — KMeansL1L2: L1 self-consistent in Manhattan geometry, L2 is KMeans.

  C06.a  L2 is pure delegation: in fit/predict/transform the branch guarded by
         self.norm == "L2" is solely KMeans.<same method>(self, ...) forwarding
         every parameter the parent accepts; the dispatchers agree on {L1, L2}
  C06.b  one geometry on the L1 path: every distance primitive reachable from
         the L1 entry points is the Manhattan one (under an L1 guard where a
         guard exists)
  C06.c  M-step = coordinate-wise median of the rows labelled i; the labels and
         inertia returned come from an E-step on the returned centres
  C06.d  must-guard: a reduction over a mask-selected sub-array inside a loop
         over all cluster ids is dominated by an emptiness test
"""

from __future__ import annotations

import ast
from typing import Dict, List, Optional, Set, Tuple

from engine.src import ClassInfo, FunctionInfo, own_nodes, own_nodes_incl_lambda, src_of, AnalysisError
from engine.cfg import build_cfg, dominators
from engine.util import is_self_attr, kwarg, const_value, enclosing_tests, enclosing_stmt, assign_targets
from engine import extsrc
from .common import reachable_functions, resolve_call, explicit_parent_call
from engine.guards import cond_text
from engine import norm as _norm
from .sem import defs_texts, cond_want, expander, ctext, conds_at, guarded_values, norm_literal_guard, bind, stmt_of

RULES = {
    "C06.f": "the centres, labels and inertia stored by the L1 fit are elements of one and the same call of the single-run function, selected under the same facts (best run), stored untransformed",
    "C06.e": "refusals for too few samples test n < k strictly (n == k distinct points is enough); no private hook that scikit-learn's KMeans.fit/predict/transform call on self is overridden (the L2 delegation stays scikit-learn's code)",
    "C06.a": "norm='L2' branch of fit/predict/transform is exactly KMeans.<same method>(self, ...) with every shared parameter forwarded; dispatchers agree on the norm set",
    "C06.b": "distance primitives reachable from the L1 entry points use the Manhattan metric (guard/metric agreement)",
    "C06.c": "M-step is numpy.median(X[labels == i], axis=0); returned labels/inertia come from _labels_inertia on the returned centres",
    "C06.d": "median/mean over a mask-selected sub-array in a loop over all cluster ids is guarded by an emptiness test",
}

MOD = "mlinsights.mlmodel.kmeans_l1"
CLS = "KMeansL1L2"


def _norm_guards(node: ast.AST, fn: ast.AST) -> List[Tuple[str, bool]]:
    """[(literal upper-cased, polarity)] for enclosing tests `norm == 'X'` / `self.norm == 'X'`"""
    out = []
    for t, pol in enclosing_tests(node, fn):
        if isinstance(t, ast.Compare) and len(t.ops) == 1 and isinstance(t.ops[0], (ast.Eq, ast.NotEq)):
            l, r = t.left, t.comparators[0]
            if (isinstance(l, ast.Name) and l.id == "norm") or is_self_attr(l, "norm"):
                v = const_value(r)
                if isinstance(v, str):
                    out.append((v.upper(), pol if isinstance(t.ops[0], ast.Eq) else not pol))
    return out


def _effective_norm(guards: List[Tuple[str, bool]]) -> Optional[str]:
    for v, pol in guards:
        if pol:
            return v
    neg = {v for v, pol in guards if not pol}
    if neg == {"L2"}:
        return "L1"
    if neg == {"L1"}:
        return "L2"
    return None


def check_a(ck, repo):
    ci = repo.cls(MOD, CLS)
    parent = "sklearn.cluster.KMeans"
    if parent not in repo.external_bases(ci):
        ck.unknown("C06.a", None, "class KMeansL1L2(KMeans)", "KMeans is no longer a base class", file=ci.module.relpath, function=CLS)
        return
    for mname in ("fit", "predict", "transform"):
        fi = ci.methods.get(mname)
        if fi is None:
            ck.unknown("C06.a", None, f"{CLS}.{mname}", "dispatcher not found", file=ci.module.relpath, function=CLS)
            continue
        # dispatcher by path evaluation: norm bound to 'L2', 'L1' and to an unknown value
        from .sem import paths as _paths, ptext as _ptext, RAISE as _RAISE

        def run_with(norm):
            return _paths(fi, {"self.norm": norm})

        other = run_with("__another_norm__")
        ck.verdict(bool(other) and all(p.ret == _RAISE for p in other), "C06.a", fi, f"{mname}: unknown norm raises", "unknown norm is refused", f"{mname} can fall through (or answer) for an unknown norm")
        l1 = [p for p in run_with("L1") if p.ret != _RAISE]
        ck.verdict(bool(l1) and all(not any(_ptext(c.func).startswith("KMeans.") or _ptext(c.func).startswith("super().") for c in p.calls) for p in l1), "C06.a", fi, f"{mname}: 'L1' handled by the package's own code", "dispatches exactly on 'L1' and 'L2'", f"{mname}: with norm='L1' the call is refused or handed to scikit-learn's Euclidean implementation")
        l2 = run_with("L2")
        good = [p for p in l2 if p.ret != _RAISE]
        if len(l2) != 1 or len(good) != 1:
            ck.violated("C06.a", fi, f"{mname}: norm='L2'", f"{mname}: with norm='L2' there are {len(l2)} paths ({len(good)} returning): the L2 branch is not a single delegation to KMeans.{mname}: results can differ from scikit-learn's KMeans")
            continue
        p = good[0]
        dele = [c for c in p.calls if isinstance(c.func, ast.Attribute) and c.func.attr == mname]
        others = [c for c in p.calls if c not in dele]
        if len(dele) != 1 or others or p.stores:
            ck.violated("C06.a", fi, f"{mname}: norm='L2' calls {[_ptext(c)[:40] for c in p.calls]}", f"{mname}: the L2 branch is not a single delegation to KMeans.{mname} (other calls {[_ptext(c.func) for c in others]}, stores {sorted(p.stores)}): results can differ from scikit-learn's KMeans")
            continue
        call = dele[0]
        par = explicit_parent_call(repo, fi, call, mname)
        if par != parent and not (isinstance(par, str) and par.endswith("KMeans")):
            ck.violated("C06.a", fi, call, f"{mname}: the L2 branch calls {src_of(call.func)}, not KMeans.{mname}")
            continue
        got = extsrc.find_method(parent, mname)
        own_params = [q for q in fi.named_params[1:]]
        if got is None:
            ck.unknown("C06.a", fi, call, "cannot read KMeans source to compare signatures")
            continue
        pfn, _ = got
        pparams = [a.arg for a in pfn.args.posonlyargs + pfn.args.args][1:] + [a.arg for a in pfn.args.kwonlyargs]
        args = list(call.args)
        if isinstance(call.func, ast.Attribute) and not isinstance(call.func.value, ast.Call) and args and isinstance(args[0], ast.Name) and args[0].id == "self":
            args = args[1:]
        passed: Dict[str, ast.AST] = {}
        for i_, a in enumerate(args):
            if i_ < len(pparams):
                passed[pparams[i_]] = a
        for kw in call.keywords:
            if kw.arg:
                passed[kw.arg] = kw.value
        shared = [q for q in pparams if q in own_params]
        missing = [q for q in shared if q not in passed]
        wrong = [q for q in shared if q in passed and not (isinstance(passed[q], ast.Name) and passed[q].id == q)]
        if missing or wrong:
            ck.violated("C06.a", fi, call, f"{mname}: L2 delegation does not forward {missing + wrong} unchanged to KMeans.{mname}")
        else:
            ck.holds("C06.a", fi, call, f"pure delegation, forwards {shared}")
        rt = p.ret_text() if p.ret is not None else None
        if mname == "fit":
            # `return KMeans.fit(self, ..)` hands back what the parent returns: self, when every
            # return of the parsed scikit-learn method is `return self`
            parent_self = False
            if rt == _ptext(call):
                got_ = extsrc.find_method("sklearn.cluster.KMeans", "fit")
                if got_ is not None:
                    rs_ = [r_ for r_ in ast.walk(got_[0]) if isinstance(r_, ast.Return)]
                    parent_self = bool(rs_) and all(r_.value is not None and ast.unparse(r_.value) == "self" for r_ in rs_)
            ck.verdict(rt == "self" or parent_self, "C06.a", fi, f"fit returns {rt}", "fit returns the estimator" + (" (every return of the parsed KMeans.fit is `return self`)" if parent_self else ""), f"fit returns {rt} with norm='L2'")
        else:
            ck.verdict(rt == _ptext(call), "C06.a", fi, f"{mname} returns {str(rt)[:50]}", f"the result of KMeans.{mname} is returned unchanged", f"{mname}: result of KMeans.{mname} is dropped or altered (returns {str(rt)[:60]})")


DIST_FUNCS = {
    "manhattan_distances": "L1",
    "euclidean_distances": "L2",
    "paired_manhattan_distances": "L1",
    "paired_euclidean_distances": "L2",
}


def _metric_name(v) -> str:
    if not isinstance(v, str):
        return "?"
    if v in ("manhattan", "cityblock", "l1"):
        return "L1"
    if v in ("euclidean", "sqeuclidean", "l2"):
        return "L2"
    return "?"


def _metrics_of(repo, fi, call: ast.Call, short: str):
    """[(branch facts, 'L1'|'L2'|'?')] for a distance primitive"""
    if short in DIST_FUNCS:
        return [(frozenset(), DIST_FUNCS[short])]
    if short in ("pairwise_distances_argmin_min", "pairwise_distances", "pairwise_distances_argmin", "cdist"):
        m = kwarg(call, "metric")
        if m is None:
            pos = {"pairwise_distances": 2, "cdist": 2}.get(short)
            if pos is not None and len(call.args) > pos:
                m = call.args[pos]
        if m is None:
            return [(frozenset(), "L2")]
        return [(conds, _metric_name(const_value(e))) for conds, e, _ in guarded_values(repo, fi, m, stmt_of(call))]
    return None


def _guard_norm(conds) -> Optional[str]:
    g = norm_literal_guard(conds)
    if g is None:
        return None
    if g.startswith("!"):
        neg = set(g[1:].upper().split(","))
        if neg == {"L2"}:
            return "L1"
        if neg == {"L1"}:
            return "L2"
        return None
    return g.upper()


def check_b(ck, repo):
    ci = repo.cls(MOD, CLS)
    roots = [ci.methods[m] for m in ("_fit_l1", "_predict_l1", "_transform_l1") if m in ci.methods]
    if len(roots) < 3:
        ck.unknown("C06.b", None, "L1 entry points", "expected _fit_l1, _predict_l1, _transform_l1", file=ci.module.relpath, function=CLS)
        return
    funcs = reachable_functions(repo, roots)
    n = 0
    for fi in funcs:
        for c in own_nodes_incl_lambda(fi.node):
            if not isinstance(c, ast.Call):
                continue
            short = src_of(c.func).split(".")[-1]
            ms = _metrics_of(repo, fi, c, short)
            if ms is None:
                continue
            st = enclosing_stmt(c) if hasattr(c, "_parent") else c
            here = conds_at(repo, fi, c)
            for conds, m in ms:
                n += 1
                g = _guard_norm(here | conds)
                if m == "?":
                    ck.unknown("C06.b", fi, st, "metric is not a literal on some path")
                elif g is not None:
                    ck.verdict(g == m, "C06.b", fi, st, f"{short}: metric {m} where norm == {g}", f"{short} computes {m} distances where norm == '{g}': the {g} path mixes two geometries")
                else:
                    ck.verdict(m == "L1", "C06.b", fi, st, f"{short}: Manhattan distances on an L1-only path", f"{short} computes {m} (Euclidean) distances on a path reachable from the L1 entry points without any guard on the norm")
    # methods inherited from scikit-learn's KMeans work in Euclidean geometry: the L1 code may
    # call the validators among them, not the ones that compute distances or labels
    EUCLID = {"_transform", "transform", "predict", "score", "fit_predict", "fit_transform", "fit", "_labels_inertia", "_init_centroids", "_predict", "_fit"}
    HARMLESS = {"_check_test_data", "_validate_center_shape", "_validate_data", "_check_params", "_check_params_vs_input", "_check_mkl_vcomp", "_check_feature_names", "_check_n_features", "get_params", "set_params", "_more_tags", "__sklearn_tags__", "_validate_params"}
    for fi in funcs:
        if fi.cls is None or fi.cls.name != CLS:
            continue
        for c in own_nodes_incl_lambda(fi.node):
            if isinstance(c, ast.Call) and isinstance(c.func, ast.Attribute) and src_of(c.func.value) == "self" and c.func.attr not in ci.methods:
                nm = c.func.attr
                st = enclosing_stmt(c) if hasattr(c, "_parent") else c
                g = _guard_norm(conds_at(repo, fi, c))
                if g == "L2":
                    continue
                n += 1
                if nm in EUCLID:
                    ck.violated("C06.b", fi, st, f"self.{nm}(..) is scikit-learn's KMeans.{nm}: it measures Euclidean distances, on a path reachable from the L1 entry points: the labels / distances answered with norm='L1' are not Manhattan ones")
                elif nm in HARMLESS:
                    ck.holds("C06.b", fi, st, f"self.{nm}: a validator of the parent, no geometry involved", nontrivial=False)
                else:
                    ck.unknown("C06.b", fi, st, f"self.{nm}(..) is inherited from scikit-learn's KMeans and not known to this rule as a validator or as a distance computation")
    ck.extra["l1_reachable_functions"] = [f.qualname.split(":")[1] for f in funcs]
    return n


def _loop_term(x: ast.AST) -> Optional[str]:
    """text of an `__it__(range(n_clusters), ...)` loop-variable term"""
    if isinstance(x, ast.Call) and isinstance(x.func, ast.Name) and x.func.id == "__it__":
        return ast.unparse(x)
    return None


def _cluster_selection(x: ast.AST) -> Optional[str]:
    """X[labels == <loop term>]  ->  the loop term"""
    if isinstance(x, ast.Subscript) and ast.unparse(x.value) == "X" and isinstance(x.slice, ast.Compare) and len(x.slice.ops) == 1 and isinstance(x.slice.ops[0], ast.Eq):
        l, r = x.slice.left, x.slice.comparators[0]
        for a, b in ((l, r), (r, l)):
            if ast.unparse(a) == "labels" and _loop_term(b):
                return _loop_term(b)
    return None


def check_c(ck, repo):
    cd = repo.func(MOD, "_centers_dense")
    ex = expander(repo)
    # M-step
    med = [c for c in own_nodes(cd.node) if isinstance(c, ast.Call) and src_of(c.func) in ("numpy.median", "np.median")]
    if len(med) != 1:
        ck.violated("C06.c", cd, "numpy.median(...)", f"the M-step of the L1 k-means must be one coordinate-wise median; found {len(med)} median call(s)") if len(med) == 0 else ck.unknown("C06.c", cd, "numpy.median", "several medians")
    else:
        c = med[0]
        st = stmt_of(c)
        ax = kwarg(c, "axis") or (c.args[1] if len(c.args) > 1 else None)
        sel = ex.norm_expr(c.args[0], cd, st) if c.args else None
        lv = _cluster_selection(sel) if sel is not None else None
        ck.verdict(ax is not None and const_value(ax) == 0, "C06.c", cd, c, "median along axis 0 (coordinate-wise)", f"median axis is {src_of(ax) if ax is not None else None}, not 0: centres are not coordinate-wise medians")
        ck.verdict(lv is not None and "range(n_clusters)" in lv, "C06.c", cd, f"selection {ast.unparse(sel)[:60] if sel is not None else None}", "the rows of cluster i are selected by labels == i, i over range(n_clusters)", f"the median is taken over {ast.unparse(sel) if sel is not None else None}, not over X[labels == i] for the cluster ids i")
        # stored into centers[i]
        stored = False
        want = _norm.dump(ex.norm_expr(c, cd, st), rename=False)
        for s in own_nodes(cd.node):
            if isinstance(s, ast.Assign) and isinstance(s.targets[0], ast.Subscript) and src_of(s.targets[0].value) == "centers":
                idx = s.targets[0].slice
                first = idx.elts[0] if isinstance(idx, ast.Tuple) else idx
                rest_ok = not isinstance(idx, ast.Tuple) or all(isinstance(x, ast.Slice) and x.lower is None and x.upper is None and x.step is None for x in idx.elts[1:])
                if _loop_term(ex.norm_expr(first, cd, s)) == lv and lv is not None and rest_ok and _norm.dump(ex.norm_expr(s.value, cd, s), rename=False) == want:
                    stored = True
        ck.verdict(stored, "C06.c", cd, "centers[i] = median of cluster i", "median of cluster i stored as centre i", "the median is not stored into the centre of its own cluster")
    # E-step re-run on the returned centres
    ll = repo.func(MOD, "_kmeans_single_lloyd")
    rets = [r for r in own_nodes(ll.node) if isinstance(r, ast.Return) and isinstance(r.value, ast.Tuple) and len(r.value.elts) >= 3]
    triples = {tuple(src_of(e) for e in r.value.elts[:3]) for r in rets}
    if len(triples) != 1:
        ck.unknown("C06.c", ll, "return labels, inertia, centers, n_iter", f"unexpected return shape: {sorted(triples)}")
        return
    lab, ine, cen = next(iter(triples))
    # the centres returned are the output of an M-step (a copy of it), never the centres it started from
    cds = [(st_, t) for st_, t in defs_texts(repo, ll, cen)]
    okc = bool(cds) and all(t in ("None", "(None, None, None)[2]") or (t.startswith("_centers_dense(") and (t.endswith(").copy()") or t.endswith(")"))) or (t.startswith("numpy.copy(_centers_dense(") ) for _, t in cds) and any(t.startswith("_centers_dense(") for _, t in cds)
    ck.verdict(okc, "C06.c", ll, f"{cen} = {[t[:40] for _, t in cds]}", "the centres returned are (a copy of) the M-step's output of the best iteration", f"{cen} is bound to {[t[:60] for _, t in cds]}: the centres returned are not the medians computed by the M-step (e.g. the centres the iteration started from)")
    # every exit either knows that the last M-step did not move the centres, or returns the
    # labels and inertia of a final E-step on the returned centres (path evaluation; the
    # iteration loop is opaque, its variables carry a __L<line> suffix)
    import re as _re
    from .sem import paths as _paths, truth_of as _truth_of, ptext as _ptext, RAISE as _RAISE

    shift_names = [n_ for n_ in {t.id for s_ in own_nodes(ll.node) if isinstance(s_, ast.Assign) for t in s_.targets if isinstance(t, ast.Name)} if any(("abs(" in tx and "_centers_dense(" in tx and " - " in tx and not tx.startswith("_centers_dense(")) for _, tx in defs_texts(repo, ll, n_))]
    def _is_test(tx):
        try:
            return isinstance(ast.parse(tx, mode="eval").body, (ast.Compare, ast.BoolOp))
        except SyntaxError:
            return False

    shift_names = [n_ for n_ in shift_names if not any(_is_test(tx) for _, tx in defs_texts(repo, ll, n_))]
    if len(shift_names) != 1:
        ck.unknown("C06.c", ll, "total shift of the centres", f"cannot identify the variable measuring how far the last M-step moved the centres: {shift_names}")
        return
    V = shift_names[0]
    # the measure must vanish only when NO centre moved: a sum (or max) of absolute / squared differences
    form_ok = False
    for _, tx in defs_texts(repo, ll, V):
        try:
            e_ = ast.parse(tx, mode="eval").body
        except SyntaxError:
            continue
        outer = e_.func.attr if isinstance(e_, ast.Call) and isinstance(e_.func, ast.Attribute) else None
        if outer in ("sum", "max", "amax", "norm"):
            inner_src = e_.args[0] if e_.args else (e_.func.value if not isinstance(e_.func.value, ast.Name) else None)
            if inner_src is not None and any(isinstance(c_, ast.Call) and ast.unparse(c_.func).split(".")[-1] in ("abs", "absolute", "square", "fabs") and " - " in ast.unparse(c_) for c_ in ast.walk(inner_src)) or (inner_src is not None and "** 2" in ast.unparse(inner_src)) or outer == "norm":
                form_ok = True
    ck.verdict(form_ok, "C06.c", ll, f"{V} = sum/max of |old - new|", "the shift is zero only when no centre moved", f"{V} is not a sum (or max) of absolute or squared differences of the centres: shifts of opposite sign cancel, the iteration stops and the final E-step is skipped although the centres moved")
    n_final = n_skip = 0
    for p in [p for p in _paths(ll) if p.ret != _RAISE and isinstance(p.ret, ast.Tuple) and len(p.ret.elts) >= 3]:
        lt, it_, ct = [_ptext(e) for e in p.ret.elts[:3]]
        conds = tuple((_re.sub(r"__L\d+", "", t), pol) for t, pol in p.conds)
        moved = _truth_of(conds, f"{V} > 0")
        if moved is None:
            nz = _truth_of(conds, f"{V} != 0")
            moved = nz
        call = p.ret.elts[0].value if isinstance(p.ret.elts[0], ast.Subscript) and isinstance(p.ret.elts[0].value, ast.Call) else None
        is_final = call is not None and _ptext(call.func) == "_labels_inertia" and lt == _ptext(call) + "[0]" and it_ == _ptext(call) + "[1]"
        if is_final:
            n_final += 1
            carg = call.args[3] if len(call.args) > 3 else kwarg(call, "centers")
            ck.verdict(carg is not None and _ptext(carg) == ct, "C06.c", ll, f"final E-step on {_ptext(carg)[:40] if carg is not None else None}, returned centres {ct[:40]}", "the final E-step assigns labels and inertia from the returned centres", f"final E-step is run on {_ptext(carg) if carg is not None else None}, but {ct} is returned: labels_ do not match cluster_centers_")
            xarg = call.args[1] if len(call.args) > 1 else None
            ck.verdict(xarg is not None and _ptext(xarg) == "X", "C06.c", ll, f"_labels_inertia(.., {_ptext(xarg) if xarg is not None else None}, ..)", "final E-step is run on the training data", "final E-step is not run on X")
        else:
            n_skip += 1
            ck.verdict(moved is False, "C06.c", ll, f"exit without final E-step when {[t for t, pol in conds if V in t]}", "the final E-step is skipped only where the last M-step did not move the centres", "the final E-step is skipped on some path where the centres moved after the labels were computed: labels_ and inertia_ refer to the previous centres")
    if n_final == 0:
        ck.violated("C06.c", ll, f"({lab}, {ine}) = _labels_inertia(.., {cen}, ..)", "no final E-step on the returned centres: after the last M-step labels_ and inertia_ refer to the previous centres")


def _parents(n):
    p = getattr(n, "_parent", None)
    while p is not None:
        yield p
        p = getattr(p, "_parent", None)


REDUCTIONS = {"median", "mean", "nanmedian", "nanmean", "average"}


def _nonempty_facts(S: str):
    """path facts that imply the selection S has at least one row"""
    out = set()
    for n in (f"({S}).shape[0]", f"len({S})", f"({S}).size"):
        out |= {cond_text(f"{n} == 0", False), cond_text(f"{n} > 0"), cond_text(f"{n} >= 1"), cond_text(f"{n} < 1", False), cond_text(n)}
    return out


def check_d(ck, repo):
    """reductions over `A[labels == i]` (i ranging over all cluster ids) are
    executed only where the selection is known to be non-empty"""
    mi = repo.modules.get(MOD)
    ex = expander(repo)
    n = 0
    for fi in repo.functions_of(mi):
        for c in own_nodes_incl_lambda(fi.node):
            if not (isinstance(c, ast.Call) and src_of(c.func).split(".")[-1] in REDUCTIONS and c.args):
                continue
            st = stmt_of(c)
            sel = ex.norm_expr(c.args[0], fi, st)
            if not (isinstance(sel, ast.Subscript) and isinstance(sel.slice, ast.Compare) and any(_loop_term(x) and "range(" in _loop_term(x) for x in ast.walk(sel.slice))):
                continue
            n += 1
            S = ast.unparse(_norm.canon(sel, rename=False))
            M = ast.unparse(_norm.canon(sel.slice, rename=False))
            facts = _nonempty_facts(S) | {cond_text(f"({M}).any()"), cond_text(f"({M}).sum() > 0"), cond_text(f"({M}).sum() == 0", False), cond_text(f"numpy.any({M})"), cond_text(f"numpy.count_nonzero({M}) > 0")}
            conds = conds_at(repo, fi, c)
            if any(f in conds for f in facts):
                ck.holds("C06.d", fi, st, "reduction over the rows of a cluster is executed only where the selection is non-empty")
            else:
                ck.violated("C06.d", fi, st, f"{src_of(c.func)} over {S[:50]} runs for every cluster id, empty clusters included: the centre of an empty cluster becomes NaN and fit fails or returns NaN centres")
    return n


def check_d2(ck, repo):
    """the per-cluster weight vector whose zeros denote empty clusters has one
    entry per cluster id (explicit length n_clusters)"""
    cd = repo.func(MOD, "_centers_dense")
    wh = [c for c in own_nodes_incl_lambda(cd.node) if isinstance(c, ast.Call) and src_of(c.func) == "numpy.where" and c.args and isinstance(c.args[0], ast.Compare)]
    for c in wh:
        left = c.args[0].left
        if not isinstance(left, ast.Name):
            continue
        defs = [s for s in own_nodes(cd.node) if isinstance(s, ast.Assign) and any(isinstance(t, ast.Name) and t.id == left.id for t in s.targets)]
        for d in defs:
            v = d.value
            ok = False
            calls = [x for x in ast.walk(v) if isinstance(x, ast.Call)]
            for x in calls:
                fn = src_of(x.func).split(".")[-1]
                if fn in ("zeros", "empty", "ones", "full") and x.args and "n_clusters" in src_of(x.args[0]):
                    ok = True
                if fn == "bincount" and kwarg(x, "minlength") is not None and src_of(kwarg(x, "minlength")) == "n_clusters":
                    ok = True
            ck.verdict(ok, "C06.d", cd, d, f"{left.id} has one entry per cluster id (length n_clusters)", f"{left.id} is not allocated with length n_clusters: clusters with the highest ids that received no point are missing from it, are never detected as empty, and keep an all-zero centre outside the data range")


def check_e(ck, repo):
    """(1) fit succeeds on any data with at least k points: every refusal for
    "too few samples" on the L1 path tests n < k strictly; (2) the L2 delegation
    is pure only if no private hook that KMeans' own fit/predict/transform call
    on self is overridden by the subclass"""
    from .sem import conds_at as _conds_at
    from engine.guards import atoms as _atoms

    ci = repo.cls(MOD, CLS)
    roots = [m for n_, m in ci.methods.items() if n_ in ("fit", "_fit_l1")]
    funcs = reachable_functions(repo, roots)
    n_guards = 0
    for f in funcs:
        for r in own_nodes(f.node):
            if not isinstance(r, ast.Raise):
                continue
            for t in [x for x in _parents(r) if isinstance(x, ast.If)]:
                tt = src_of(t.test).replace(" ", "")
                if not isinstance(t.test, ast.Compare) or len(t.test.ops) != 1:
                    continue
                l_, r_ = src_of(t.test.left), src_of(t.test.comparators[0])
                samples = lambda x: "n_samples" in x or "_num_samples(" in x or x.endswith(".shape[0]")
                clusters = lambda x: x in ("k", "n_clusters", "self.n_clusters")
                if not ((samples(l_) and clusters(r_)) or (samples(r_) and clusters(l_))):
                    continue
                if not any(r is y for y in ast.walk(ast.Module(body=t.body, type_ignores=[]))):
                    continue
                n_guards += 1
                op = type(t.test.ops[0]).__name__
                strict = (samples(l_) and op == "Lt") or (samples(r_) and op == "Gt")
                ck.verdict(strict, "C06.e", f, t.test, "too few samples means strictly fewer points than clusters", f"`{src_of(t.test)}` refuses data with exactly as many points as clusters: fit must succeed on any finite data containing at least k distinct points")
    if n_guards == 0:
        ck.holds("C06.e", ci.methods["fit"], "no refusal on the number of samples", "nothing refuses n >= k", nontrivial=False)
    # private hooks of the parent
    parent = "sklearn.cluster.KMeans"
    hooks = set()
    for mname in ("fit", "predict", "transform", "fit_transform", "fit_predict", "score"):
        got = extsrc.find_method(parent, mname)
        if got is None:
            continue
        work = [got[0]]
        seen = set()
        depth = 0
        while work and depth < 3:
            nxt = []
            for fn in work:
                for c in ast.walk(fn):
                    if isinstance(c, ast.Call) and isinstance(c.func, ast.Attribute) and isinstance(c.func.value, ast.Name) and c.func.value.id == "self" and c.func.attr not in seen:
                        seen.add(c.func.attr)
                        g2 = extsrc.find_method(parent, c.func.attr)
                        if g2 is not None:
                            nxt.append(g2[0])
            work = nxt
            depth += 1
        hooks |= seen
    public = {"fit", "predict", "transform", "fit_transform", "fit_predict", "score", "get_params", "set_params"}
    over = sorted(h for h in hooks if h in ci.methods and h not in public)
    ck.verdict(not over, "C06.e", ci.methods["fit"], f"private hooks of KMeans overridden: {over}", "KMeans.fit/predict/transform called on self run scikit-learn's own helpers", f"{CLS} overrides {over}, which scikit-learn's KMeans methods call on self: with norm='L2' the 'delegation' runs this package's code, so results differ from KMeans")


def check_f(ck, repo):
    """centres, labels and inertia stored by the L1 fit are the outputs of one and the
    same run of the single k-means (the best one), untransformed"""
    import re as _re
    from .sem import guarded_values, xt

    ci = repo.cls(MOD, "KMeansL1L2")
    fi = ci.methods.get("_fit_l1")
    if fi is None:
        raise AnalysisError("anchor vanished: KMeansL1L2._fit_l1")
    got = {}
    for s_ in own_nodes(fi.node):
        if isinstance(s_, ast.Assign) and len(s_.targets) == 1 and isinstance(s_.targets[0], ast.Attribute) and src_of(s_.targets[0].value) == "self" and s_.targets[0].attr in ("cluster_centers_", "labels_", "inertia_"):
            alts = set()
            for c_, v_, _st in guarded_values(repo, fi, s_.value, s_):
                if isinstance(v_, ast.Constant) and v_.value is None:
                    continue
                alts.add((frozenset(c_), xt(v_)))
            got[s_.targets[0].attr] = (s_, alts)
    if set(got) != {"cluster_centers_", "labels_", "inertia_"}:
        # the stores moved into a method that receives the values: read them through its call
        got = {}
        for hname, h in ci.methods.items():
            hs = {}
            for s_ in own_nodes(h.node):
                if isinstance(s_, ast.Assign) and len(s_.targets) == 1 and isinstance(s_.targets[0], ast.Attribute) and src_of(s_.targets[0].value) == "self" and s_.targets[0].attr in ("cluster_centers_", "labels_", "inertia_") and isinstance(s_.value, ast.Name) and s_.value.id in h.named_params:
                    hs[s_.targets[0].attr] = h.named_params.index(s_.value.id) - 1
            if set(hs) != {"cluster_centers_", "labels_", "inertia_"} or h is fi:
                continue
            cs_ = [c_ for c_ in own_nodes(fi.node) if isinstance(c_, ast.Call) and src_of(c_.func) == f"self.{hname}"]
            if len(cs_) != 1:
                continue
            c_ = cs_[0]
            at_ = c_
            while not isinstance(at_, ast.stmt):
                at_ = at_._parent
            for attr_, pos_ in hs.items():
                alts = set()
                if len(c_.args) == 1 and isinstance(c_.args[0], ast.Starred):
                    for f_, v_, _st in guarded_values(repo, fi, c_.args[0].value, at_):
                        if isinstance(v_, ast.Constant) and v_.value is None:
                            continue
                        if isinstance(v_, ast.Tuple) and pos_ < len(v_.elts):
                            alts.add((frozenset(f_), xt(v_.elts[pos_])))
                        else:
                            alts.add((frozenset(f_), xt(v_) + f"[{pos_}]"))
                elif pos_ < len(c_.args) and not any(isinstance(a_, ast.Starred) for a_ in c_.args):
                    for f_, v_, _st in guarded_values(repo, fi, c_.args[pos_], at_):
                        if not (isinstance(v_, ast.Constant) and v_.value is None):
                            alts.add((frozenset(f_), xt(v_)))
                if alts:
                    got[attr_] = (at_, alts)
    if set(got) != {"cluster_centers_", "labels_", "inertia_"}:
        ck.unknown("C06.f", fi, "self.cluster_centers_ / labels_ / inertia_", f"stores found for {sorted(got)} only")
        return
    runs = {}
    odd = []
    for a_, (s_, alts) in got.items():
        for facts, t in alts:
            m = _re.match(r"^(?P<run>.+\))\[(?P<k>\d+)\](\.copy\(\))?$", t)
            if m is None:
                odd.append((a_, t))
            else:
                runs.setdefault(a_, set()).add((facts, m.group("run"), int(m.group("k"))))
    if odd:
        # centres re-ordered by a permutation P (C[P]): new cluster j is old cluster P[j], so an old
        # label l becomes argsort(P)[l]; mapping labels with P itself is right only for involutions
        cen = [t for a_, t in odd if a_ == "cluster_centers_"]
        lab = [t for a_, t in odd if a_ == "labels_"]
        for tc in cen:
            mc = _re.match(r"^.+\[(?P<p>[^\[\]]+(\[[^\]]*\])?[^\[\]]*)\]$", tc)
            for tl in lab:
                base_defs = []
                try:
                    y_ = ast.parse(tl, mode="eval").body
                    while isinstance(y_, ast.Call) and isinstance(y_.func, ast.Attribute) and y_.func.attr in ("astype", "copy"):
                        y_ = y_.func.value
                    if isinstance(y_, ast.Subscript) and isinstance(y_.value, ast.Name):
                        from .sem import defs_texts

                        base_defs = [tx for _s, tx in defs_texts(repo, fi, y_.value.id)]
                except SyntaxError:
                    pass
                if mc and (tl.startswith(mc.group("p") + "[") or mc.group("p") in base_defs):
                    ck.violated("C06.f", fi, got["labels_"][0], f"the centres are re-ordered by P = {mc.group('p')[:60]} (new centre j = old centre P[j]) and the labels are mapped through P itself ({tl[:60]}): an old label l must become argsort(P)[l]; with three or more clusters P is not its own inverse in general, so training points carry the label of another centre than the nearest one")
                    return
        ck.unknown("C06.f", fi, got[odd[0][0]][0], f"self.{odd[0][0]} = {odd[0][1][:90]}: not an output of the single-run function taken as it is (a re-ordering or another transformation of the best run's results is not decided by this rule)")
        return
    sig = {a_: {(f_, r_) for f_, r_, _k in v} for a_, v in runs.items()}
    same = sig["cluster_centers_"] == sig["labels_"] == sig["inertia_"]
    ks = {a_: sorted({k_ for _f, _r, k_ in v}) for a_, v in runs.items()}
    distinct = all(len(v) == 1 for v in ks.values()) and len({v[0] for v in ks.values()}) == 3
    ck.verdict(same and distinct, "C06.f", fi, got["cluster_centers_"][0], f"centres, labels and inertia are elements {ks} of the same run under the same facts", f"self.cluster_centers_, self.labels_ and self.inertia_ are not taken from one and the same run: " + "; ".join(f"{a_}: element {ks[a_]} when {sorted(t for t, p in next(iter(sig[a_]))[0] if 'inertia' in t)[:2] or 'always (the last run)'}" for a_ in sorted(sig)) + ": labels and inertia can describe other centres than the ones stored")


def check_constraints(ck, repo):
    """C06.a (validation table): scikit-learn's fit validates the parameters against the class-level
    `_parameter_constraints`.  The subclass may add entries for its own parameters only: an entry for a
    parameter of KMeans replaces the parent's and makes norm='L2' refuse (or accept) values that
    KMeans accepts (or refuses)."""
    ci = repo.cls(MOD, "KMeansL1L2")
    got = extsrc.find_method("sklearn.cluster.KMeans", "__init__")
    if got is None:
        ck.unknown("C06.a", None, "_parameter_constraints", "cannot read the installed scikit-learn source", file=ci.module.relpath, function="KMeansL1L2", line=ci.node.lineno)
        return
    parent_params = {a.arg for a in got[0].args.args + got[0].args.kwonlyargs} - {"self"}
    tabs = [s_ for s_ in ci.node.body if isinstance(s_, ast.Assign) and any(isinstance(t, ast.Name) and t.id == "_parameter_constraints" for t in s_.targets)]
    late = [s_ for s_ in ast.walk(ci.module.tree) if isinstance(s_, (ast.Assign, ast.AugAssign, ast.Expr)) and "_parameter_constraints" in src_of(s_) and s_ not in tabs and "KMeansL1L2" in src_of(s_)]
    for s_ in tabs:
        v = s_.value
        if not isinstance(v, ast.Dict):
            ck.unknown("C06.a", None, s_, "the validation table is not a dict display: its entries are not read", file=ci.module.relpath, function="KMeansL1L2", line=s_.lineno)
            continue
        own = [k.value for k in v.keys if isinstance(k, ast.Constant)]
        inherits = any(k is None and "KMeans" in src_of(val) and "_parameter_constraints" in src_of(val) for k, val in zip(v.keys, v.values))
        over = sorted(set(own) & parent_params)
        ck.verdict(inherits and not over, "C06.a", None, s_, f"the validation table is KMeans' plus entries for {sorted(own)}", (f"the validation table replaces KMeans' entry for {over}: with norm='L2' values of {over} that KMeans accepts are refused at fit (or the reverse), so the L2 case is not scikit-learn's KMeans" if over else "the validation table does not start from KMeans._parameter_constraints: parameters of KMeans are validated by other rules than KMeans' own"), file=ci.module.relpath, function="KMeansL1L2", line=s_.lineno)
    for s_ in late:
        ck.unknown("C06.a", None, s_, "the validation table is modified outside the class body", file=ci.module.relpath, function="KMeansL1L2", line=s_.lineno)


def run(ck):
    repo = ck.repo
    for k, v in RULES.items():
        ck.rule(k, v)
    check_e(ck, repo)
    check_d2(ck, repo)
    check_a(ck, repo)
    check_b(ck, repo)
    check_c(ck, repo)
    check_d(ck, repo)
    check_constraints(ck, repo)
    check_f(ck, repo)
    from .sem import share_clauses

    share_clauses(ck, "c01", {
        "C01.a": ("C06.g", "every constructor parameter shared with KMeans reaches KMeans.__init__ and is stored under its name: with norm='L2' the estimator runs scikit-learn's algorithm with the caller's parameters"),
    }, keep=lambda o: o.function.startswith("KMeansL1L2."))
    ck.require_count("C06.a", 5, "three dispatchers x (set, refuse, delegation)")
    ck.require_count("C06.b", 2, "pairwise_distances_argmin_min x2, manhattan_distances x2 (+ euclidean under L2 guards)")
    ck.require_count("C06.c", 3, "median axis/selection/store, final E-step centres/X/guard")
    ck.require_count("C06.e", 2, "two sample-count guards, private hooks")
    ck.require_count("C06.d", 1, "_centers_dense median loop")


_F = "mlinsights/mlmodel/kmeans_l1.py"
_G = "mlinsights/mlmodel/_kmeans_022.py"
WITNESSES = [
    {"name": "centres-of-the-last-run", "file": _F, "rule": "C06.f", "old": "        self.cluster_centers_ = best_centers\n", "new": "        self.cluster_centers_ = centers\n"},
    {"name": "init-refuses-n-equal-k", "file": _F, "rule": "C06.e", "old": "    elif n_samples < k:\n", "new": "    elif n_samples <= k:\n"},
    {"name": "shift-signed-sum", "file": _F, "rule": "C06.c", "old": "center_shift_total = numpy.sum(numpy.abs(centers_old - centers).ravel())", "new": "center_shift_total = numpy.abs(numpy.sum(centers_old - centers))"},
    {"name": "private-transform-hook-overridden", "file": _F, "rule": "C06.e", "old": "    def _transform_l1(self, X):", "new": "    def _transform(self, X):\n        return self._transform_l1(X)\n\n    def _transform_l1(self, X):"},
    {"name": "empty-cluster-unguarded", "file": _F, "rule": "C06.d", "old": "            if sub.shape[0] == 0:\n                # empty cluster: keeps the center it was relocated to\n                continue\n", "new": ""},
    {"name": "weights-bincount-no-minlength", "file": _F, "rule": "C06.d", "old": "    weight_in_cluster = numpy.zeros((n_clusters,), dtype=dtype)\n", "new": "    weight_in_cluster = numpy.bincount(labels, weights=sample_weight).astype(dtype)\n"},
    {"name": "l2-predict-not-delegated", "file": _F, "rule": "C06.a", "old": '        if self.norm == "L2":\n            return KMeans.predict(self, X)\n', "new": '        if self.norm == "L2":\n            return self._predict_l1(X, sample_weight=sample_weight)\n'},
    {"name": "l2-fit-drops-weights", "file": _F, "rule": "C06.a", "old": "KMeans.fit(self, X=X, y=y, sample_weight=sample_weight)", "new": "KMeans.fit(self, X=X, y=y)"},
    {"name": "transform-dispatch-other-literal", "file": _F, "rule": "C06.a", "old": '        if self.norm == "L1":\n            return self._transform_l1(X)\n', "new": '        if self.norm == "l1":\n            return self._transform_l1(X)\n'},
    {"name": "l1-predict-euclidean", "file": _F, "rule": "C06.b", "old": 'X=X, Y=self.cluster_centers_, metric="manhattan"', "new": 'X=X, Y=self.cluster_centers_, metric="euclidean"'},
    {"name": "l1-transform-euclidean", "file": _F, "rule": "C06.b", "old": "        return manhattan_distances(X, self.cluster_centers_)\n", "new": "        return euclidean_distances(X, self.cluster_centers_)\n"},
    {"name": "estep-l1-uses-euclidean", "file": _G, "rule": "C06.b", "old": '            X=X, Y=centers, metric="manhattan"\n', "new": '            X=X, Y=centers, metric="euclidean"\n'},
    {"name": "kinit-l1-euclidean", "file": _F, "rule": "C06.b", "old": "        dist_fct = lambda x, y: manhattan_distances(x, y)\n", "new": "        dist_fct = lambda x, y: euclidean_distances(x, y, squared=True)\n"},
    {"name": "mstep-mean", "file": _F, "rule": "C06.c", "old": "            med = numpy.median(sub, axis=0)\n", "new": "            med = numpy.mean(sub, axis=0)\n"},
    {"name": "mstep-wrong-axis", "file": _F, "rule": "C06.c", "old": "            med = numpy.median(sub, axis=0)\n", "new": "            med = numpy.median(sub, axis=1)\n"},
    {"name": "best-centers-before-mstep", "file": _F, "rule": "C06.c", "old": "            best_centers = centers.copy()\n", "new": "            best_centers = centers_old\n"},
    {"name": "final-estep-old-centers", "file": _F, "rule": "C06.c", "old": "            norm, X, sample_weight, best_centers, distances=distances\n", "new": "            norm, X, sample_weight, centers_old, distances=distances\n"},
    {"name": "final-estep-removed", "file": _F, "rule": "C06.c", "old": "        best_labels, best_inertia = _labels_inertia(\n            norm, X, sample_weight, best_centers, distances=distances\n        )\n", "new": "        pass\n"},
]
# witnesses of the rules added after the ninth round of independent changes
WITNESSES += [
    {"name": "algorithm-constraint-replaced", "file": _F, "rule": "C06.a", "old": '        "norm": [StrOptions({"L1", "L2"})],\n', "new": '        "norm": [StrOptions({"L1", "L2"})],\n        "algorithm": [StrOptions({"lloyd"})],\n'},
]


TWINS = [
    {"name": "empty-guard-len", "file": _F, "old": "            if sub.shape[0] == 0:\n", "new": "            if len(sub) == 0:\n"},
    {"name": "l2-transform-keyword", "file": _F, "old": "            return KMeans.transform(self, X)\n", "new": "            return KMeans.transform(self, X=X)\n"},
    {"name": "mstep-inline-selection", "file": _F, "old": "            med = numpy.median(sub, axis=0)\n            centers[i, :] = med\n", "new": "            med = numpy.median(sub, axis=0)\n            centers[i] = med\n"},
]
MIN_WITNESSES = 10
