"""Helpers shared by rule modules: estimator census, hyper-parameter names,
simple resolved call graph."""

from __future__ import annotations

import ast
from typing import Dict, Iterable, List, Optional, Set, Tuple

from engine.src import Repo, ClassInfo, FunctionInfo, own_nodes, own_nodes_incl_lambda, dotted
from engine import extsrc
from engine.util import is_self_attr, call_name

SKL_PREFIX = ("sklearn.",)


def is_sklearn_estimator(repo: Repo, ci: ClassInfo) -> bool:
    return any(e.startswith(SKL_PREFIX) for e in repo.external_bases(ci))


def is_skbase(repo: Repo, ci: ClassInfo) -> bool:
    return any(isinstance(c, ClassInfo) and c.qualname == "mlinsights.sklapi.sklearn_base.SkBase" for c in repo.mro(ci))


def estimator_classes(repo: Repo) -> List[ClassInfo]:
    out = []
    for ci in repo.all_classes():
        if ci.module.name.startswith("mlinsights.ext_test_case"):
            continue
        if is_sklearn_estimator(repo, ci) or is_skbase(repo, ci):
            out.append(ci)
    return sorted(out, key=lambda c: c.qualname)


def hyper_params(repo: Repo, ci: ClassInfo) -> Set[str]:
    """Constructor parameter names of the class and of every ancestor
    (repository ancestors: their __init__ signatures; external ancestors: the
    parsed signature of their __init__)."""
    out: Set[str] = set()
    for c in repo.mro(ci):
        if isinstance(c, ClassInfo):
            init = c.methods.get("__init__")
            if init:
                out |= set(init.named_params[1:])
        else:
            if c.startswith(SKL_PREFIX):
                ps = extsrc.init_params(c)
                if ps:
                    out |= set(ps)
    return out


def own_hyper_params(repo: Repo, ci: ClassInfo) -> List[str]:
    """What sklearn's introspective get_params reports: the parameters of the
    first __init__ found in the MRO."""
    owner, init = repo.find_method(ci, "__init__")
    if init is not None:
        return init.named_params[1:]
    if isinstance(owner, str):
        return extsrc.init_params(owner) or []
    return []


# --------------------------------------------------------------------------
# call resolution (E-CG, light): self.m(...), Class.m(self, ...), module
# functions, nested functions, function-valued names passed around.
# --------------------------------------------------------------------------


def resolve_call(repo: Repo, fi: FunctionInfo, call: ast.Call) -> Optional[FunctionInfo]:
    f = call.func
    mi = fi.module
    if isinstance(f, ast.Name):
        # nested function of an enclosing function
        p = fi
        while p is not None:
            qn = p.qualname + ".<locals>." + f.id
            if qn in repo.all_functions:
                return repo.all_functions[qn]
            p = p.parent
        tgt = repo.resolve_name(mi, f.id)
        if tgt:
            g = repo.get_function(tgt)
            if g:
                return g
            c = repo.get_class(tgt)
            if c:
                _, init = repo.find_method(c, "__init__")
                return init
        return None
    if isinstance(f, ast.Attribute):
        # self.m(...)
        if isinstance(f.value, ast.Name) and f.value.id in ("self", "cls") and fi.cls is not None:
            _, m = repo.find_method(fi.cls, f.attr)
            return m
        # super().m(...)
        if isinstance(f.value, ast.Call) and isinstance(f.value.func, ast.Name) and f.value.func.id == "super" and fi.cls is not None:
            mro = repo.mro(fi.cls)
            for c in mro[1:]:
                if isinstance(c, ClassInfo):
                    if f.attr in c.methods:
                        return c.methods[f.attr]
                else:
                    if c not in ("object", "?"):
                        return None
            return None
        # self.attr.m(...) where self.attr = RepoClass(...) somewhere in the class
        if is_self_attr(f.value) and fi.cls is not None:
            tcls = attr_class(repo, fi.cls, f.value.attr)
            if tcls is not None:
                _, m = repo.find_method(tcls, f.attr)
                return m
        # Class.m(self, ...) / module.func(...)
        d = repo.resolve_expr(mi, f)
        if d:
            g = repo.get_function(d)
            if g:
                return g
            mod, _, name = d.rpartition(".")
            c = repo.get_class(mod)
            if c:
                _, m = repo.find_method(c, name)
                return m
        # self.__class__.m / DecisionTreeLogisticRegression._x
        return None
    return None


_attr_cls_cache = {}


def attr_class(repo: Repo, ci: ClassInfo, attr: str) -> Optional[ClassInfo]:
    """repository class of the object stored in self.<attr>, when every
    constructor-style assignment `self.attr = Name(...)` in the class (and its
    repository ancestors) names the same repository class."""
    key = (id(repo), ci.qualname, attr)
    if key in _attr_cls_cache:
        return _attr_cls_cache[key]
    found = set()
    for c in repo.mro(ci):
        if not isinstance(c, ClassInfo):
            continue
        for m in c.methods.values():
            for n in own_nodes(m.node):
                if isinstance(n, ast.Assign) and any(is_self_attr(t, attr) for t in n.targets) and isinstance(n.value, ast.Call):
                    d = repo.resolve_expr(m.module, n.value.func)
                    tc = repo.get_class(d) if d else None
                    if tc is not None:
                        found.add(tc.qualname)
                    # node = Cls(...); self.attr = node is handled by the Name case below
                if isinstance(n, ast.Assign) and any(is_self_attr(t, attr) for t in n.targets) and isinstance(n.value, ast.Name):
                    for n2 in own_nodes(m.node):
                        if isinstance(n2, ast.Assign) and any(isinstance(t, ast.Name) and t.id == n.value.id for t in n2.targets) and isinstance(n2.value, ast.Call):
                            d = repo.resolve_expr(m.module, n2.value.func)
                            tc = repo.get_class(d) if d else None
                            if tc is not None:
                                found.add(tc.qualname)
    res = repo.get_class(next(iter(found))) if len(found) == 1 else None
    if len(_attr_cls_cache) > 5000:
        _attr_cls_cache.clear()
    _attr_cls_cache[key] = res
    return res


def external_call_target(repo: Repo, fi: FunctionInfo, call: ast.Call) -> Optional[str]:
    d = repo.resolve_expr(fi.module, call.func)
    return d


def reachable_functions(repo: Repo, roots: Iterable[FunctionInfo], include_fn_refs: bool = True) -> List[FunctionInfo]:
    """Repository functions reachable from `roots` through resolved calls and
    (optionally) through bare references to repository functions (callbacks,
    delayed(f), function-valued locals)."""
    seen: Dict[str, FunctionInfo] = {}
    work = list(roots)
    while work:
        fi = work.pop()
        if fi is None or fi.qualname in seen:
            continue
        seen[fi.qualname] = fi
        for n in own_nodes_incl_lambda(fi.node):
            if isinstance(n, ast.Call):
                g = resolve_call(repo, fi, n)
                if g is not None:
                    work.append(g)
            elif include_fn_refs and isinstance(n, ast.Name) and isinstance(n.ctx, ast.Load):
                p = fi
                found = None
                while p is not None and found is None:
                    qn = p.qualname + ".<locals>." + n.id
                    found = repo.all_functions.get(qn)
                    p = p.parent
                if found is None:
                    tgt = repo.resolve_name(fi.module, n.id)
                    if tgt:
                        found = repo.get_function(tgt)
                if found is not None:
                    work.append(found)
            elif include_fn_refs and isinstance(n, ast.Attribute) and isinstance(n.ctx, ast.Load):
                # self.method passed as a value, Class.method references
                if isinstance(n.value, ast.Name) and n.value.id == "self" and fi.cls is not None:
                    par = getattr(n, "_parent", None)
                    if not (isinstance(par, ast.Call) and par.func is n):
                        _, m = repo.find_method(fi.cls, n.attr)
                        if m is not None:
                            work.append(m)
        # nested defs are reachable only when referenced (handled above)
    return list(seen.values())


def is_super_call(call: ast.Call, meth: str) -> bool:
    f = call.func
    return (
        isinstance(f, ast.Attribute)
        and f.attr == meth
        and isinstance(f.value, ast.Call)
        and isinstance(f.value.func, ast.Name)
        and f.value.func.id == "super"
    )


def explicit_parent_call(repo: Repo, fi: FunctionInfo, call: ast.Call, meth: str) -> Optional[object]:
    """If `call` is `Parent.meth(self, ...)`, `super().meth(...)`, or
    `sup.meth(...)` with `sup = super(...)`, return the parent (ClassInfo or
    dotted external name)."""
    f = call.func
    if not (isinstance(f, ast.Attribute) and f.attr == meth):
        return None
    if fi.cls is None:
        return None
    if is_super_call(call, meth) or (isinstance(f.value, ast.Name) and _is_super_alias(fi, f.value.id)):
        for c in repo.mro(fi.cls)[1:]:
            if isinstance(c, ClassInfo):
                if meth in c.methods:
                    return c
            elif c not in ("object", "?"):
                return c
        return None
    d = repo.resolve_expr(fi.module, f.value)
    if d:
        c = repo.get_class(d)
        if c is not None:
            return c
        if call.args and isinstance(call.args[0], ast.Name) and call.args[0].id == "self":
            return d
    return None


def _is_super_alias(fi: FunctionInfo, name: str) -> bool:
    for n in own_nodes(fi.node):
        if isinstance(n, ast.Assign) and len(n.targets) == 1 and isinstance(n.targets[0], ast.Name) and n.targets[0].id == name:
            v = n.value
            if isinstance(v, ast.Call) and isinstance(v.func, ast.Name) and v.func.id == "super":
                return True
    return False
