"""Generic T4 rules (gather/scatter pairing, co-indexing) reused by C04, C08,
C09, C10, C17."""

from __future__ import annotations

import ast
from typing import Iterable, List, Optional, Set

from engine.src import FunctionInfo, own_nodes, own_nodes_incl_lambda, src_of
from engine.pairing import Pairing, fmt_sigs
from engine.effects import Effects
from engine.util import enclosing_stmt
from .common import resolve_call

_eff = {}


def int_names(repo, fi: FunctionInfo) -> Set[str]:
    e = _eff.get(id(repo))
    if e is None:
        _eff.clear()
        e = _eff[id(repo)] = Effects(repo, resolve_call)
    return e._int_names(fi)


_pair_cache = {}


def pairing(repo, fi: FunctionInfo) -> Pairing:
    k = (id(repo), fi.qualname)
    p = _pair_cache.get(k)
    if p is None:
        if len(_pair_cache) > 2000:
            _pair_cache.clear()
        p = _pair_cache[k] = Pairing(fi, int_names(repo, fi))
    return p


ROW_ALIGNED_METHODS = {"fit", "fit_transform", "partial_fit", "score", "decision_path", "create", "fit_predict"}


def check_scatter(ck, rule: str, repo, fi: FunctionInfo) -> int:
    """t = g(..A[m]..); OUT[m'] = t  =>  m' and m are the same value."""
    P = pairing(repo, fi)
    n = 0
    for s in own_nodes(fi.node):
        if not isinstance(s, ast.Assign) or len(s.targets) != 1:
            continue
        t = s.targets[0]
        if not isinstance(t, ast.Subscript):
            continue
        idx = P.first_index(t.slice)
        if P.is_int_like(idx):
            continue
        v = s.value
        if not isinstance(v, (ast.Call, ast.Name)):
            continue
        vs = P.value_gather_sigs(v, s)
        if not vs:
            continue
        store_sig = P.sig(idx, s)
        if store_sig is None:
            continue
        n += 1
        # a scatter inside a loop must not be skippable by a `break` placed before it:
        # the remaining buckets/sides would silently keep their default values
        par = getattr(s, "_parent", None)
        loop = None
        while par is not None and not isinstance(par, (ast.FunctionDef, ast.AsyncFunctionDef, ast.Lambda)):
            if isinstance(par, (ast.For, ast.While)):
                loop = par
                break
            par = getattr(par, "_parent", None)
        if loop is not None:
            brk = [b for b in ast.walk(loop) if isinstance(b, ast.Break) and b.lineno < s.lineno]
            if brk:
                ck.violated(rule, fi, brk[0], f"`break` before the scatter {src_of(s)[:50]!r} in the same loop: once one bucket/side is empty or missing, the remaining ones are never processed, so a row's output depends on which other rows are in the batch")
                continue
        bad = [(sigs, a) for sigs, a in vs if sigs != {store_sig}]
        if not bad:
            ck.holds(rule, fi, s, f"scatter index {src_of(idx)} is the very mask the value was gathered with")
        else:
            sigs, a = bad[0]
            ck.violated(
                rule,
                fi,
                s,
                f"value gathered with {fmt_sigs(sigs)} (argument {src_of(a)[:50]}) is scattered through {fmt_sigs({store_sig})}: rows are written to positions they were not read from",
            )
    return n


def check_retpair(ck, rule: str, repo, fi: FunctionInfo) -> int:
    """return m', g(..A[m]..)  =>  m' and m are the same value."""
    P = pairing(repo, fi)
    n = 0
    for s in own_nodes(fi.node):
        if not isinstance(s, ast.Return) or not isinstance(s.value, ast.Tuple) or len(s.value.elts) < 2:
            continue
        first = s.value.elts[0]
        if P.is_int_like(first) or isinstance(first, (ast.Call, ast.Attribute, ast.Tuple, ast.List)):
            continue
        for other in s.value.elts[1:]:
            vs = P.value_gather_sigs(other, s) if isinstance(other, (ast.Call, ast.Name)) else []
            if not vs:
                continue
            n += 1
            ms = P.sig(first, s)
            bad = [(sigs, a) for sigs, a in vs if sigs != {ms}]
            if not bad:
                ck.holds(rule, fi, s, f"returned mask {src_of(first)} is the mask used to select the rows predicted")
            else:
                sigs, a = bad[0]
                ck.violated(rule, fi, s, f"returns mask {fmt_sigs({ms})} together with predictions for rows {fmt_sigs(sigs)}: the caller scatters them to the wrong rows")
    return n


def check_tuple_scatter(ck, rule: str, repo, fi: FunctionInfo) -> int:
    """for m, p in results: OUT[m] = p  (index = first target, value = second)."""
    n = 0
    for loop in own_nodes(fi.node):
        if not isinstance(loop, ast.For) or not isinstance(loop.target, ast.Tuple) or len(loop.target.elts) != 2:
            continue
        a, b = loop.target.elts
        if not (isinstance(a, ast.Name) and isinstance(b, ast.Name)):
            continue
        # only loops over a collected list of (mask, values) pairs: the
        # iterable is a plain name, the first target is not an integer index
        if not isinstance(loop.iter, ast.Name) or a.id in int_names(repo, fi):
            continue
        for s in ast.walk(loop):
            if isinstance(s, ast.Assign) and len(s.targets) == 1 and isinstance(s.targets[0], ast.Subscript):
                t = s.targets[0]
                idx = t.slice
                names_idx = {x.id for x in ast.walk(idx) if isinstance(x, ast.Name)}
                names_val = {x.id for x in ast.walk(s.value) if isinstance(x, ast.Name)}
                if not ({a.id, b.id} & (names_idx | names_val)):
                    continue
                if not (names_idx & {a.id, b.id}) or not (names_val & {a.id, b.id}):
                    continue
                n += 1
                if names_idx & {a.id, b.id} == {a.id} and names_val & {a.id, b.id} == {b.id}:
                    ck.holds(rule, fi, s, f"each pair (mask, values) is written as OUT[{a.id}] = {b.id}")
                else:
                    ck.violated(rule, fi, s, f"pairs come as ({a.id}, {b.id}) = (mask, values) but are written as {src_of(s)[:60]}")
    return n


def check_coindex(ck, rule: str, repo, fi: FunctionInfo, methods: Iterable[str] = ROW_ALIGNED_METHODS, min_args: int = 2) -> int:
    """h(A[m1], B[m2], ..) with h row-aligned  =>  every gathered argument carries
    the same signature set."""
    P = pairing(repo, fi)
    n = 0
    methods = set(methods)
    for c in own_nodes_incl_lambda(fi.node):
        if not isinstance(c, ast.Call):
            continue
        f = c.func
        name = f.attr if isinstance(f, ast.Attribute) else (f.id if isinstance(f, ast.Name) else None)
        if name not in methods:
            continue
        gs = P.call_gather_sigs(c)
        if len(gs) < min_args:
            continue
        n += 1
        ref_name, ref, _ = gs[0]
        bad = [(nm, s) for nm, s, _ in gs[1:] if s != ref]
        if not bad:
            ck.holds(rule, fi, enclosing_stmt(c), f"{len(gs)} row-selected arguments of .{name}() share one index ({fmt_sigs(ref)[:80]})")
        else:
            nm, s = bad[0]
            ck.violated(
                rule,
                fi,
                enclosing_stmt(c),
                f".{name}(): argument {ref_name} is selected with {fmt_sigs(ref)} but {nm} with {fmt_sigs(s)}: features, targets and weights of a row are no longer kept together",
            )
    return n
