"""C19 — CategoriesToIntegers (structural part).

  C19.a  no stale store index: for a subscript store inside a loop, a name in
         the index that is assigned inside the loop body is assigned on EVERY
         path from the loop head to the store (package-wide rule; paths ending
         in continue/raise excluded; loop-carried accumulators are fine)
  C19.b  layout agreement: the cell written is position[col] + rank, both from
         _build_schema, whose offsets advance by exactly the number of names it
         appends; ranks come from enumerate(sorted(distinct)) at fit; missing
         values `continue` before the lookup; unseen without skip_errors raises;
         an unseen value with skip_errors moves on to the next cell (no break);
         numeric columns are the complement of the fitted columns, concatenated
         unchanged with index=dfcat.index; the single=True path writes a copy
"""

from __future__ import annotations

import ast
from typing import Dict, List, Set

from engine.src import FunctionInfo, own_nodes, own_nodes_incl_lambda, src_of, AnalysisError
from engine.cfg import build_cfg, forward, Node
from engine.dataflow import defs_of_node
from engine.util import names_in, is_self_attr, assign_targets

RULES = {
    "C19.a": "per-iteration definite assignment of every loop-assigned name used in a subscript store's index (no stale index from a previous iteration)",
    "C19.b": "cell layout: position[col] + rank with offsets advancing by the names appended; sorted ranks; missing -> continue; unseen -> raise or skip that cell only; numeric columns pass through with the original index; single=True works on a copy",
}

MOD = "mlinsights.mlmodel.categories_to_integers"


def stale_index_sites(fi: FunctionInfo):
    """[(store stmt, name, loop)] where `name` (assigned in the loop body) may
    hold the value of a previous iteration when the store executes."""
    out = []
    fn = fi.node
    loops = [l for l in own_nodes(fn) if isinstance(l, (ast.For, ast.While))]
    if not loops:
        return out, 0
    cfg = build_cfg(fn)
    node_of: Dict[int, List[Node]] = {}
    for n in cfg.nodes:
        if n.ast is not None:
            node_of.setdefault(id(n.ast), []).append(n)
    n_checked = 0
    for loop in loops:
        head = [n for n in node_of.get(id(loop if isinstance(loop, ast.For) else loop.test), []) if n.kind in ("for", "test")]
        if not head:
            continue
        head = head[0]
        body_stmts = [s for s in ast.walk(loop) if isinstance(s, ast.stmt) and s is not loop]
        # names assigned somewhere in the body (not the loop's own target)
        assigned: Set[str] = set()
        for s in body_stmts:
            if isinstance(s, (ast.Assign, ast.AugAssign, ast.AnnAssign)):
                for t in assign_targets(s):
                    if isinstance(t, ast.Name):
                        assigned.add(t.id)
            if isinstance(s, ast.For):
                for t in assign_targets(s):
                    if isinstance(t, ast.Name):
                        assigned.add(t.id)
        own_targets = names_in(loop.target) if isinstance(loop, ast.For) else set()
        stores = []
        for s in body_stmts:
            if isinstance(s, (ast.Assign, ast.AugAssign)):
                for t in assign_targets(s):
                    if isinstance(t, ast.Subscript):
                        idx_names = names_in(t.slice) & assigned - own_targets
                        if idx_names:
                            stores.append((s, t, idx_names))
        if not stores:
            continue
        body_ids = {id(s) for s in body_stmts} | {id(x.test) for x in ast.walk(loop) if isinstance(x, (ast.If, ast.While))}
        # must-assigned-since-loop-head analysis restricted to the loop body
        def transfer(n: Node, st, label):
            if n is head:
                return frozenset()  # a new iteration starts: nothing assigned yet
            if label == "exc":
                return st
            d = defs_of_node(n)
            return st | frozenset(d) if d else st

        IN = forward(cfg, frozenset(), transfer, lambda a, b: a & b)
        for s, t, idx_names in stores:
            # nested loops: a name assigned by an inner loop's own target is fresh per inner iteration
            for nm in sorted(idx_names):
                n_checked += 1
                for cn in node_of.get(id(s), []):
                    if cn.id not in IN:
                        continue
                    if nm in IN[cn.id]:
                        continue
                    # accumulator pattern: the name is also defined before the loop and only updated
                    # after/at the store (e.g. pos += n); a name that is never assigned on ANY path
                    # from the head to the store is loop-carried by design
                    some = _assigned_on_some_path(cfg, head, cn, nm)
                    if some:
                        out.append((s, nm, loop))
                    break
    return out, n_checked


def _assigned_on_some_path(cfg, head: Node, store: Node, name: str) -> bool:
    """is there a path head -> ... -> store (within one iteration) that assigns `name`?"""
    seen = set()
    stack = [(m, False) for lab, m in head.succ if lab in ("iter", "true")]
    while stack:
        n, got = stack.pop()
        if (n.id, got) in seen:
            continue
        seen.add((n.id, got))
        if n is store:
            if got:
                return True
            continue
        if n is head:
            continue
        g = got or (name in defs_of_node(n))
        for lab, m in n.succ:
            if lab == "exc":
                continue
            stack.append((m, g))
    return False


def check_a(ck, repo):
    total = 0
    found = 0
    for fi in sorted(repo.all_functions.values(), key=lambda f: f.qualname):
        if fi.module.name.startswith("mlinsights.ext_test_case"):
            continue
        try:
            sites, n = stale_index_sites(fi)
        except AnalysisError:
            continue
        total += n
        for s, nm, loop in sites:
            found += 1
            ck.violated("C19.a", fi, s, f"index name '{nm}' is assigned inside the loop on some paths only: on the other paths this store uses the value left by a previous iteration (or fails with UnboundLocalError on the first one)")
    tr = repo.cls(MOD, "CategoriesToIntegers").methods["transform"]
    ck.touch(tr)
    ck.holds("C19.a", None, f"{total} (store, index name) pairs in loops across the package", f"{total - found} are definitely assigned in every iteration that reaches the store", file="mlinsights", function="*", line=0)
    # the anchored store itself
    sites, n = stale_index_sites(tr)
    if n == 0:
        ck.unknown("C19.a", tr, "res[i, p] = 1.0", "the indicator store was not found in CategoriesToIntegers.transform")
    elif not sites:
        ck.holds("C19.a", tr, "res[i, p] = 1.0", "p is assigned on every path of the iteration that reaches the store")
    ck.extra["index_pairs_checked"] = total


def check_b(ck, repo):
    ci = repo.cls(MOD, "CategoriesToIntegers")
    tr, bs, fit = ci.methods["transform"], ci.methods["_build_schema"], ci.methods["fit"]
    # ---- _build_schema
    loop = [l for l in own_nodes(bs.node) if isinstance(l, ast.For)]
    if len(loop) != 1:
        ck.unknown("C19.b", bs, "for c, v in self._categories.items()", "schema loop not found")
    else:
        t = [src_of(s) for s in loop[0].body if not isinstance(s, ast.If)]
        want = [
            "sch = [(_[1], f'{c}={_[1]}') for _ in sorted(((n, d) for d, n in v.items()))]",
            "position[c] = last",
            "new_vector[c] = {d[0]: i for i, d in enumerate(sch)}",
            "last += len(sch)",
            "schema.extend((_[1] for _ in sch))",
        ]
        ck.verdict(t == want, "C19.b", bs, " ; ".join(t)[:200], "offset of a column = number of names appended before it; rank = position of the value among that column's names; names are column=value in rank order", "the schema no longer keeps position[c], the per-value ranks and the list of names in step (offsets must advance by exactly the number of names appended)")
        rm = [s for s in loop[0].body if isinstance(s, ast.If)]
        ok = len(rm) == 1 and src_of(rm[0].test) == "self.remove" and [src_of(x) for x in rm[0].body] == ["sch = [d for d in sch if d[1] not in self.remove]"] and rm[0].lineno < [s for s in loop[0].body if src_of(s) == "position[c] = last"][0].lineno
        ck.verdict(ok, "C19.b", bs, rm[0].test if rm else "if self.remove", "removed names are dropped before offsets and ranks are computed", "removal of names happens after offsets/ranks were computed or by another criterion")
        init = [src_of(s) for s in own_nodes(bs.node) if isinstance(s, ast.Assign) and s.lineno < loop[0].lineno]
        ck.verdict("last = 0" in init, "C19.b", bs, "last = 0", "offsets start at 0", "offsets do not start at 0")
        r = [src_of(x.value) for x in own_nodes(bs.node) if isinstance(x, ast.Return)]
        ck.verdict(r == ["(schema, position, new_vector)"], "C19.b", bs, f"return {r}", "(names, offsets, ranks)", "return order of the schema changed")
    # ---- fit: sorted distinct non-missing values
    t = [src_of(s) for s in own_nodes(fit.node) if isinstance(s, ast.Assign)]
    ck.verdict("distinct = set(X[c].dropna())" in t and "self._categories[c] = dict(((c, i) for i, c in enumerate(list(sorted(distinct)))))" in t, "C19.b", fit, "rank = enumerate(sorted(set(column without missing values)))", "ranks are positions among the sorted training categories", "ranks are not enumerate(sorted(distinct non-missing values))")
    ck.verdict("self._schema = self._build_schema()" in t and "self._fit_columns = columns" in t, "C19.b", fit, "self._schema = self._build_schema()", "schema rebuilt at every fit", "fit does not rebuild the schema / fitted columns")
    # ---- transform (indicator branch)
    unp = [src_of(s) for s in own_nodes(tr.node) if isinstance(s, ast.Assign) and isinstance(s.targets[0], ast.Tuple) and src_of(s.value) == "self._schema"]
    ck.verdict(len(unp) == 2 and all(u == "sch, pos, new_vector = self._schema" for u in unp), "C19.b", tr, f"{unp}", "schema unpacked in the order _build_schema returns it", "transform unpacks the schema in another order than _build_schema returns")
    pdef = [s for s in own_nodes(tr.node) if isinstance(s, ast.Assign) and src_of(s.targets[0]) == "p"]
    ck.verdict(len(pdef) == 1 and src_of(pdef[0].value) == "pos[k] + vec[k][v]", "C19.b", tr, pdef[0] if pdef else "p = pos[k] + vec[k][v]", "cell = offset of the column + rank of the value", "the indicator's column is not pos[column] + rank[column][value]")
    st = [s for s in own_nodes(tr.node) if isinstance(s, ast.Assign) and src_of(s.targets[0]) == "res[i, p]"]
    ck.verdict(len(st) == 1 and src_of(st[0].value) == "1.0", "C19.b", tr, st[0] if st else "res[i, p] = 1.0", "exactly one store of 1.0 per cell", "indicator store changed")
    miss = [s for s in own_nodes(tr.node) if isinstance(s, ast.If) and src_of(s.test) == "v is None or (isinstance(v, float) and numpy.isnan(v))" and isinstance(s.body[-1], ast.Continue)]
    ck.verdict(len(miss) == 1 and pdef and miss[0].lineno < pdef[0].lineno, "C19.b", tr, miss[0].test if miss else "if v is None or isnan(v): continue", "missing values produce no indicator (skipped before the lookup)", "missing values are not skipped before the category lookup")
    unseen = [s for s in own_nodes(tr.node) if isinstance(s, ast.If) and src_of(s.test) == "v not in vec[k]"]
    if len(unseen) != 1:
        ck.unknown("C19.b", tr, "if v not in vec[k]", "unseen-category branch not found")
    else:
        u = unseen[0]
        inner = [x for x in u.body if isinstance(x, ast.If)]
        ok = len(inner) == 1 and src_of(inner[0].test) == "b" and any(isinstance(x, ast.Raise) for x in inner[0].body) and not inner[0].orelse
        bdef = [src_of(s.value) for s in own_nodes(tr.node) if isinstance(s, ast.Assign) and src_of(s.targets[0]) == "b"]
        ck.verdict(ok and bdef and all(x == "not self.skip_errors" for x in bdef), "C19.b", tr, "if v not in vec[k]: if not skip_errors: raise", "an unseen category raises unless skip_errors", "an unseen category does not raise when skip_errors is False")
        esc = [x for x in ast.walk(u) if isinstance(x, (ast.Break, ast.Return))]
        ck.verdict(not esc, "C19.b", tr, esc[0] if esc else "unseen + skip_errors: go on with the next cell", "skipping an unseen value affects that cell only", "an unseen category with skip_errors leaves the row/column loop: the remaining categorical cells of the row get no indicator")
        ck.verdict(pdef and st and any(pdef[0] is x for x in ast.walk(ast.Module(body=u.orelse, type_ignores=[]))) and any(st[0] is x for x in ast.walk(ast.Module(body=u.orelse, type_ignores=[]))), "C19.b", tr, "else: p = ...; res[i, p] = 1.0", "the indicator is computed and stored only for a known category", "the indicator store is not confined to the known-category branch")
    # numeric columns and index
    t = [src_of(s) for s in own_nodes(tr.node) if isinstance(s, ast.Assign)]
    ck.verdict("dfcat = X[self._fit_columns]" in t and "dfnum = X[[c for c in X.columns if c not in self._fit_columns]]" in t, "C19.b", tr, "dfcat / dfnum split", "numeric columns are exactly the complement of the fitted columns", "numeric/categorical split changed")
    ck.verdict("newdf = pandas.DataFrame(res, columns=sch, index=dfcat.index)" in t and "allnum = pandas.concat([dfnum, newdf], axis=1)" in t and "allnum = pandas.DataFrame(res, columns=sch, index=dfcat.index)" in t, "C19.b", tr, "DataFrame(res, columns=sch, index=dfcat.index); concat([dfnum, newdf], axis=1)", "rows keep their order and index; numeric columns pass through unchanged", "the indicator frame does not reuse the input index or numeric columns are not concatenated unchanged")
    loops = [l for l in own_nodes(tr.node) if isinstance(l, ast.For) and src_of(l.iter) == "enumerate(dfcat.to_dict('records'))"]
    ck.verdict(len(loops) == 1 and src_of(loops[0].target) == "(i, row)", "C19.b", tr, loops[0] if loops else "for i, row in enumerate(dfcat.to_dict('records'))", "row i of the output is row i of the input", "rows are not enumerated in input order")
    # single=True works on a copy
    ck.verdict("X = X.copy()" in t, "C19.b", tr, "X = X.copy()", "single=True encodes a copy of the frame", "single=True writes into the caller's frame")
    ap = [s for s in own_nodes(tr.node) if isinstance(s, ast.Assign) and src_of(s.targets[0]) == "X[c]"]
    ck.verdict(len(ap) == 1 and src_of(ap[0].value) == "X[c].apply(lambda v, cv=c: transform(v, new_vector[cv]))", "C19.b", tr, ap[0] if ap else "X[c] = X[c].apply(...)", "each fitted column is mapped through its own rank table", "single=True does not map column c through new_vector[c]")


def run(ck):
    repo = ck.repo
    for k, v in RULES.items():
        ck.rule(k, v)
    check_a(ck, repo)
    check_b(ck, repo)
    ck.require_count("C19.a", 1, "package census + the anchored store")
    ck.require_count("C19.b", 10, "schema, fit, transform")


_F = "mlinsights/mlmodel/categories_to_integers.py"
WITNESSES = [
    {"name": "stale-index", "file": _F, "rule": "C19.a", "old": "                        p = pos[k] + vec[k][v]\n                        res[i, p] = 1.0\n", "new": "                        p = pos[k] + vec[k][v]\n                    res[i, p] = 1.0\n"},
    {"name": "offset-counts-removed", "file": _F, "rule": "C19.b", "old": "            last += len(sch)\n", "new": "            last += len(v)\n"},
    {"name": "unseen-breaks-row", "file": _F, "rule": "C19.b", "old": "                            raise ValueError(\n                                \"Unable to find category value %r: %r \"\n                                \"type(v)=%r among\\n%s\" % (k, v, type(v), \"\\n\".join(lv))\n                            )\n", "new": "                            raise ValueError(\n                                \"Unable to find category value %r: %r \"\n                                \"type(v)=%r among\\n%s\" % (k, v, type(v), \"\\n\".join(lv))\n                            )\n                        break\n"},
    {"name": "rank-by-string", "file": _F, "rule": "C19.b", "old": "enumerate(list(sorted(distinct)))", "new": "enumerate(list(sorted(distinct, key=str)))"},
    {"name": "index-reset", "file": _F, "rule": "C19.b", "old": "                newdf = pandas.DataFrame(res, columns=sch, index=dfcat.index)\n", "new": "                newdf = pandas.DataFrame(res, columns=sch)\n"},
    {"name": "single-no-copy", "file": _F, "rule": "C19.b", "old": "            X = X.copy()\n", "new": ""},
    {"name": "missing-after-lookup", "file": _F, "rule": "C19.b", "old": "                    if v is None or (isinstance(v, float) and numpy.isnan(v)):\n                        # missing values\n                        continue\n", "new": ""},
    {"name": "cell-without-offset", "file": _F, "rule": "C19.b", "old": "p = pos[k] + vec[k][v]", "new": "p = vec[k][v]"},
    {"name": "skip-errors-inverted", "file": _F, "rule": "C19.b", "old": "            b = not self.skip_errors\n\n            for i, row", "new": "            b = self.skip_errors\n\n            for i, row"},
]
TWINS = []
MIN_WITNESSES = 8
