"""C19 — CategoriesToIntegers (structural part).

  C19.a  no stale store index: for a subscript store inside a loop, a name in
         the index that is assigned inside the loop body is assigned on EVERY
         path from the loop head to the store (package-wide rule; paths ending
         in continue/raise excluded; loop-carried accumulators are fine)
  C19.b  layout agreement: the cell written is position[col] + rank, both from
         _build_schema, whose offsets advance by exactly the number of names it
         appends; ranks come from enumerate(sorted(distinct)) at fit; missing
         values `continue` before the lookup; unseen without skip_errors raises;
         an unseen value with skip_errors moves on to the next cell (no break);
         numeric columns are the complement of the fitted columns, concatenated
         unchanged with index=dfcat.index; the single=True path writes a copy
"""

from __future__ import annotations

import ast
import re
from typing import Dict, List, Set

from engine.src import FunctionInfo, own_nodes, own_nodes_incl_lambda, src_of, AnalysisError
from engine.cfg import build_cfg, forward, Node
from engine.dataflow import defs_of_node
from engine.util import names_in, is_self_attr, assign_targets
from .sem import expander, ctext, paths, split_ifexp, truth_of, complement_norm, RAISE, BREAK, CONTINUE

RULES = {
    "C19.a": "per-iteration definite assignment of every loop-assigned name used in a subscript store's index (no stale index from a previous iteration)",
    "C19.b": "cell layout: position[col] + rank with offsets advancing by the names appended; sorted ranks; missing -> continue; unseen -> raise or skip that cell only; numeric columns pass through with the original index; single=True works on a copy",
}

MOD = "mlinsights.mlmodel.categories_to_integers"


def stale_index_sites(fi: FunctionInfo):
    """[(store stmt, name, loop)] where `name` (assigned in the loop body) may
    hold the value of a previous iteration when the store executes."""
    out = []
    fn = fi.node
    loops = [l for l in own_nodes(fn) if isinstance(l, (ast.For, ast.While))]
    if not loops:
        return out, 0
    cfg = build_cfg(fn)
    node_of: Dict[int, List[Node]] = {}
    for n in cfg.nodes:
        if n.ast is not None:
            node_of.setdefault(id(n.ast), []).append(n)
    n_checked = 0
    for loop in loops:
        head = [n for n in node_of.get(id(loop if isinstance(loop, ast.For) else loop.test), []) if n.kind in ("for", "test")]
        if not head:
            continue
        head = head[0]
        body_stmts = [s for s in ast.walk(loop) if isinstance(s, ast.stmt) and s is not loop]
        # names assigned somewhere in the body (not the loop's own target)
        assigned: Set[str] = set()
        for s in body_stmts:
            if isinstance(s, (ast.Assign, ast.AugAssign, ast.AnnAssign)):
                for t in assign_targets(s):
                    if isinstance(t, ast.Name):
                        assigned.add(t.id)
            if isinstance(s, ast.For):
                for t in assign_targets(s):
                    if isinstance(t, ast.Name):
                        assigned.add(t.id)
        own_targets = names_in(loop.target) if isinstance(loop, ast.For) else set()
        stores = []
        for s in body_stmts:
            if isinstance(s, (ast.Assign, ast.AugAssign)):
                for t in assign_targets(s):
                    if isinstance(t, ast.Subscript):
                        idx_names = names_in(t.slice) & assigned - own_targets
                        if idx_names:
                            stores.append((s, t, idx_names))
        if not stores:
            continue
        body_ids = {id(s) for s in body_stmts} | {id(x.test) for x in ast.walk(loop) if isinstance(x, (ast.If, ast.While))}
        # must-assigned-since-loop-head analysis restricted to the loop body
        def transfer(n: Node, st, label):
            if n is head:
                return frozenset()  # a new iteration starts: nothing assigned yet
            if label == "exc":
                return st
            d = defs_of_node(n)
            return st | frozenset(d) if d else st

        IN = forward(cfg, frozenset(), transfer, lambda a, b: a & b)
        for s, t, idx_names in stores:
            # nested loops: a name assigned by an inner loop's own target is fresh per inner iteration
            for nm in sorted(idx_names):
                n_checked += 1
                for cn in node_of.get(id(s), []):
                    if cn.id not in IN:
                        continue
                    if nm in IN[cn.id]:
                        continue
                    # accumulator pattern: the name is also defined before the loop and only updated
                    # after/at the store (e.g. pos += n); a name that is never assigned on ANY path
                    # from the head to the store is loop-carried by design
                    some = _assigned_on_some_path(cfg, head, cn, nm)
                    if some:
                        out.append((s, nm, loop))
                    break
    return out, n_checked


def _assigned_on_some_path(cfg, head: Node, store: Node, name: str) -> bool:
    """is there a path head -> ... -> store (within one iteration) that assigns `name`?"""
    seen = set()
    stack = [(m, False) for lab, m in head.succ if lab in ("iter", "true")]
    while stack:
        n, got = stack.pop()
        if (n.id, got) in seen:
            continue
        seen.add((n.id, got))
        if n is store:
            if got:
                return True
            continue
        if n is head:
            continue
        g = got or (name in defs_of_node(n))
        for lab, m in n.succ:
            if lab == "exc":
                continue
            stack.append((m, g))
    return False


def check_a(ck, repo):
    total = 0
    found = 0
    for fi in sorted(repo.all_functions.values(), key=lambda f: f.qualname):
        if fi.module.name.startswith("mlinsights.ext_test_case"):
            continue
        try:
            sites, n = stale_index_sites(fi)
        except AnalysisError:
            continue
        total += n
        for s, nm, loop in sites:
            found += 1
            ck.violated("C19.a", fi, s, f"index name '{nm}' is assigned inside the loop on some paths only: on the other paths this store uses the value left by a previous iteration (or fails with UnboundLocalError on the first one)")
    tr = repo.cls(MOD, "CategoriesToIntegers").methods["transform"]
    ck.touch(tr)
    ck.holds("C19.a", None, f"{total} (store, index name) pairs in loops across the package", f"{total - found} are definitely assigned in every iteration that reaches the store", file="mlinsights", function="*", line=0)
    # the anchored store itself
    sites, n = stale_index_sites(tr)
    if n == 0:
        ck.unknown("C19.a", tr, "res[i, p] = 1.0", "the indicator store was not found in CategoriesToIntegers.transform")
    elif not sites:
        ck.holds("C19.a", tr, "res[i, p] = 1.0", "p is assigned on every path of the iteration that reaches the store")
    ck.extra["index_pairs_checked"] = total


def _t(x) -> str:
    return ast.unparse(x) if isinstance(x, ast.AST) else str(x)


def _run_block(fi, stmts, env):
    from engine.patheval import PathEval

    return PathEval(fi.node, dict(env), post=complement_norm).run(stmts)


def check_b(ck, repo):
    ci = repo.cls(MOD, "CategoriesToIntegers")
    tr, bs, fit = ci.methods["transform"], ci.methods["_build_schema"], ci.methods["fit"]
    ex = expander(repo)
    # ---- _build_schema: one round of its loop
    from .sem import fields_read_through_locals

    fields_read_through_locals(bs)
    loops = [l for l in own_nodes(bs.node) if isinstance(l, ast.For)]
    rets = [p for p in paths(bs) if p.ret != RAISE]
    order = None
    if len(rets) == 1 and isinstance(rets[0].ret, ast.Tuple) and len(rets[0].ret.elts) == 3:
        # a name rebound inside the loop is returned under its loop-carried name
        order = [re.sub(r"__L\d+$", "", _t(e)) for e in rets[0].ret.elts]
    if len(loops) != 1 or order is None or not (isinstance(loops[0].target, ast.Tuple) and len(loops[0].target.elts) == 2):
        ck.unknown("C19.b", bs, "for c, v in self._categories.items()", "schema loop / returned triple not found")
        names_v = pos_v = rank_v = None
    else:
        l = loops[0]
        c_, v_ = [src_of(e) for e in l.target.elts]
        names_v, pos_v, rank_v = order
        ck.verdict(src_of(l.iter) == "self._categories.items()", "C19.b", bs, f"for {c_}, {v_} in {src_of(l.iter)}", "one round per fitted column, in fit order", "the schema is not built from self._categories in order")
        # the offset variable: the one stored into the offsets table
        bp = [p for p in _run_block(bs, l.body, {}) if p.ret is None]
        ok_all = bool(bp)
        seen_remove = set()
        not_understood: list = []
        for p in bp:
            st = {k: v for k, v in p.named_stores.items()}
            off = st.get(f"{pos_v}[{c_}]")
            rk = st.get(f"{rank_v}[{c_}]")
            ok = isinstance(off, ast.Name) and rk is not None
            if off is not None and rk is not None and not isinstance(off, ast.Name):
                # another way of laying the columns out (e.g. offset = len(schema) before it grows):
                # not the counter form this rule reads
                not_understood.append(_t(off)[:60])
                continue
            S = None
            if ok:
                L = off.id
                after = p.env.get(L)
                # offsets advance by the number of names appended
                ok = isinstance(after, ast.BinOp) and isinstance(after.op, ast.Add) and _t(after.left) == L and isinstance(after.right, ast.Call) and _t(after.right.func) == "len" and len(after.right.args) == 1
                if ok:
                    S = _t(after.right.args[0])
                    ext = [c for c in p.calls if _t(c.func) == f"{names_v}.extend" and len(c.args) == 1]
                    added = [_t(c.args[0]) for c in ext]
                    grown = p.env.get(names_v)
                    if not ext and isinstance(grown, ast.BinOp) and isinstance(grown.op, ast.Add) and _t(grown.left) == names_v:
                        # `names += [..]` appends in place as extend does
                        added = [_t(grown.right)]
                    ok = len(added) == 1 and ctext(added[0]) in (ctext(f"(x[1] for x in {S})"), ctext(f"[x[1] for x in {S}]"))
                    ok = ok and _t(rk) == ctext(f"{{d[0]: i for i, d in enumerate({S})}}")
            ok_all = ok_all and ok
            if S is not None:
                core = ctext(f"[(_[1], f'{{{c_}}}={{_[1]}}') for _ in sorted((n, d) for d, n in {v_}.items())]")
                filt = {ctext(f"[d for d in {core} if d[1] not in self.remove]"), ctext(f"[(a, b) for a, b in {core} if b not in self.remove]")}
                rm = truth_of(p.conds, "self.remove")
                seen_remove.add(rm)
                if rm is True:
                    ok_all = ok_all and S in filt
                elif rm is False:
                    ok_all = ok_all and S == core
                else:
                    ok_all = False
        if not_understood:
            ck.unknown("C19.b", bs, f"{pos_v}[{c_}] = {not_understood[0]}", "the offsets are not kept in a counter advanced by the number of names appended: this way of building the schema is not understood (no verdict)")
            names_v = None
        else:
          ck.verdict(ok_all and seen_remove == {True, False}, "C19.b", bs, "offset[c] = names so far; ranks and names from the same (filtered) list; offset += its length", "offset of a column = number of names appended before it; rank = position of the value among that column's names (removed names dropped first); names are column=value in rank order", "the schema no longer keeps the offsets, the per-value ranks and the list of names in step (offsets must advance by exactly the number of names appended, after the removal of names)")
        init = [p for p in _run_block(bs, [s_ for s_ in bs.node.body if s_.lineno < l.lineno], {})]
        offv = None
        for p in bp:
            o = p.named_stores.get(f"{pos_v}[{c_}]")
            offv = o.id if isinstance(o, ast.Name) else None
        if not not_understood:
            ck.verdict(bool(init) and offv is not None and _t(init[0].env.get(offv, "")) == "0", "C19.b", bs, f"{offv} = 0", "offsets start at 0", "offsets do not start at 0")
    # ---- fit: which columns are categorical is decided by the column's dtype, not by its values
    Xf0 = fit.named_params[1]
    for comp in [c_ for c_ in ast.walk(fit.node) if isinstance(c_, (ast.ListComp, ast.GeneratorExp)) and c_.generators and c_.generators[0].ifs
                 and any(src_of(g_.iter).replace(" ", "") in (f"{Xf0}.columns", f"zip({Xf0}.columns,{Xf0}.dtypes)", f"{Xf0}.dtypes.items()", f"{Xf0}", f"list({Xf0}.columns)") for g_ in c_.generators)]:
        looked = []
        for t_ in comp.generators[0].ifs:
            for c_ in ast.walk(t_):
                if isinstance(c_, ast.Call):
                    for a_ in c_.args:
                        if isinstance(a_, ast.Subscript) and src_of(a_.value) in (Xf0, f"{Xf0}.loc", f"{Xf0}.iloc"):
                            looked.append(c_)
        ck.verdict(not looked, "C19.b", fit, comp, "the categorical columns are chosen by dtype", f"the categorical columns are chosen by `{src_of(looked[0])[:60]}`, which is given the column itself: such predicates look at the VALUES of an object column (all strings?), so a column holding a missing value in the training frame is not categorical any more: none of its rows gets an indicator (or a rank) and its unseen categories are never reported" if looked else "")
    # ---- fit: ranks = enumerate(sorted(distinct non-missing values)); schema rebuilt
    from .sem import attribute_held_in_local, drop_caches

    if attribute_held_in_local(fit.node, "_categories"):
        drop_caches(fit)
    floops = [l for l in own_nodes(fit.node) if isinstance(l, ast.For) and isinstance(l.target, ast.Name)]
    okr = False
    Xf = fit.named_params[1]
    for l in floops:
        cv = l.target.id
        for p in _run_block(fit, l.body, {}):
            if p.ret is None:
                v = p.named_stores.get(f"self._categories[{cv}]")
                D_ = f"set({Xf}[{cv}].dropna())"
                forms_ = [f"{{value: rank for rank, value in enumerate(sorted({D_}))}}"]
                # the same pairs by zip: the sorted values against 0..n-1, n their number
                forms_ += [f"dict(zip(sorted({D_}), range({n_})))" for n_ in (f"len({D_})", f"len(sorted({D_}))")]
                if v is not None and ctext(_t(v)) in [ctext(f_) for f_ in forms_]:
                    okr = True
                elif v is not None:
                    ck.extra.setdefault("rank_forms_seen", []).append(_t(v))
    seen_forms = ck.extra.get("rank_forms_seen", [])
    if not okr and (not seen_forms or all(re.fullmatch(r"[A-Za-z_]\w*", t_) for t_ in seen_forms)):
        # no store self._categories[c] = <expression> was read: the table is filled through an alias or
        # built up by a loop into a local, another construction than the one this rule evaluates
        ck.unknown("C19.b", fit, "rank = enumerate(sorted(set(column without missing values)))", f"the ranks are not stored as one expression under self._categories[column] (seen: {seen_forms or 'no such store'}): how they are numbered is not decided")
    else:
        ck.verdict(okr, "C19.b", fit, "rank = enumerate(sorted(set(column without missing values)))", "ranks are positions among the sorted training categories", "ranks are not enumerate(sorted(distinct non-missing values))")
    fp = [p for p in split_ifexp(paths(fit)) if p.ret != RAISE]
    oks = bool(fp)
    for p in fp:
        keys = list(p.named_stores)
        oks = oks and _t(p.named_stores.get("self._schema", "")) == "self._build_schema()" and "self._fit_columns" in keys and "self._categories" in keys and keys.index("self._categories") < keys.index("self._schema")
    ck.verdict(oks, "C19.b", fit, "self._schema = self._build_schema()", "categories, fitted columns and the schema are rebuilt at every fit", "fit does not rebuild the schema / fitted columns")
    # ---- transform
    Xt = tr.named_params[1]
    SCH = "self._schema"
    for single in (False, True):
        tp = [p for p in split_ifexp(paths(tr, {"self.single": single})) if p.ret != RAISE]
        if not tp:
            ck.unknown("C19.b", tr, f"transform[single={single}]", "no path")
            continue
        if single:
            ok = True
            for p in tp:
                ok = ok and p.ret_text() == f"{Xt}.copy()"
                st = [(k, v) for k, v in p.named_stores.items() if k.startswith(f"{Xt}[")]
                ok = ok and len(st) == 1
                if ok:
                    k, v = st[0]
                    col = k[len(Xt) + 1 : -1]
                    ok = isinstance(v, ast.Call) and isinstance(v.func, ast.Attribute) and v.func.attr == "apply" and _t(v.func.value) == f"{Xt}.copy()[{col}]" and len(v.args) == 1 and isinstance(v.args[0], ast.Lambda)
                    if ok:
                        lam = v.args[0]
                        names = [a.arg for a in lam.args.args]
                        dflt = {a.arg: _t(d) for a, d in zip(lam.args.args[len(lam.args.args) - len(lam.args.defaults):], lam.args.defaults)}
                        body = lam.body
                        ok = isinstance(body, ast.Call) and len(body.args) == 2 and not body.keywords and _t(body.args[0]) == names[0] and len(names) == 2 and names[1] in dflt
                        if ok:
                            # the rank table the value is looked up in, with the lambda's default written out:
                            # `lambda v, cv=c: f(v, T[cv])` and `lambda v, vec=T[c]: f(v, vec)` both read T[c]
                            eff = _t(body.args[1])
                            if eff == names[1]:
                                eff = dflt[names[1]]
                            else:
                                eff = eff.replace(f"[{names[1]}]", f"[{dflt[names[1]]}]")
                            ok = eff == f"{SCH}[2][{col}]"
            ck.verdict(ok, "C19.b", tr, "single=True: a copy of X, column c mapped through its own rank table", "single=True encodes a copy of the frame, each fitted column through its own rank table", "single=True writes into the caller's frame, or does not map column c through the ranks of column c")
            continue
        # indicator layout
        rows = [l for l in own_nodes(tr.node) if isinstance(l, ast.For) and any(isinstance(x, ast.For) for x in l.body)]
        if len(rows) != 1:
            ck.unknown("C19.b", tr, "row / cell loops", "loop nest not found")
            continue
        lo = rows[0]
        li = [x for x in lo.body if isinstance(x, ast.For)][0]
        pre = [p for p in _run_block(tr, [s_ for s_ in _branch_of(tr, lo) if s_.lineno < lo.lineno], {"self.single": ast.Constant(False)}) if p.ret is None]
        if not pre:
            ck.unknown("C19.b", tr, "set-up of the indicator branch", "no path")
            continue
        env = dict(pre[0].env)
        DFCAT = f"{Xt}[self._fit_columns]"
        it_o = _t(PathSub(env, lo.iter))
        okrow = it_o == f"enumerate({DFCAT}.to_dict('records'))" and isinstance(lo.target, ast.Tuple) and len(lo.target.elts) == 2
        i_, row_ = [src_of(e) for e in lo.target.elts] if okrow else ("i", "row")
        okcell = src_of(li.iter) == f"{row_}.items()" and isinstance(li.target, ast.Tuple) and len(li.target.elts) == 2
        k_, v_ = [src_of(e) for e in li.target.elts] if okcell else ("k", "v")
        ck.verdict(okrow and okcell, "C19.b", tr, f"for {i_}, {row_} in enumerate(records); for {k_}, {v_} in {row_}.items()", "row i of the output is row i of the input; every categorical cell is visited", "rows are not enumerated in input order over the fitted columns")
        res_names = [k for k, v in env.items() if _t(v).replace(" ", "").startswith(f"numpy.zeros(({Xt}.shape[0],len({SCH}[0])))") or _t(v).replace(" ", "").startswith(f"numpy.full(({Xt}.shape[0],len({SCH}[0])),numpy.nan")]
        filled = any(_t(c) .replace(" ", "")== f"numpy.zeros(({Xt}.shape[0],len({SCH}[0]))).fill(numpy.nan)" for c in pre[0].calls) or any(_t(env[k]).replace(" ", "").startswith("numpy.full(") for k in res_names)
        ck.verdict(len(res_names) == 1 and filled, "C19.b", tr, f"indicator matrix {res_names}", "one column per schema name, every cell missing (NaN) until an indicator is set", "the indicator matrix is not (rows x schema names) filled with NaN")
        R = res_names[0] if res_names else "res"
        cells = _run_block(tr, li.body, env)
        miss_t = ctext(f"{v_} is None or (isinstance({v_}, float) and numpy.isnan({v_}))")
        known_t = ctext(f"{v_} in {SCH}[2][{k_}]")
        kinds = set()
        bad = []
        for p in cells:
            m = truth_of(p.conds, miss_t)
            if m is None:
                a, b = truth_of(p.conds, f"{v_} is None"), truth_of(p.conds, ctext(f"isinstance({v_}, float) and numpy.isnan({v_})"))
                if a is False and (b is False or truth_of(p.conds, f"isinstance({v_}, float)") is False or truth_of(p.conds, f"numpy.isnan({v_})") is False):
                    m = False
            kn = truth_of(p.conds, known_t)
            sk = truth_of(p.conds, "self.skip_errors")
            st = {k: _t(v) for k, v in p.named_stores.items() if k.startswith(R + "[")}
            if m is True:
                kinds.add("missing")
                if not (p.ret in (CONTINUE, None) and not st):
                    bad.append(("missing", p.ret, st))
            elif m is False and kn is True:
                kinds.add("known")
                if not (st == {f"{R}[{i_}, {SCH}[1][{k_}] + {SCH}[2][{k_}][{v_}]]": "1.0"} and p.ret in (None, CONTINUE)):
                    bad.append(("known", p.ret, st))
            elif m is False and kn is False and sk is False:
                kinds.add("unseen-raise")
                if p.ret != RAISE:
                    bad.append(("unseen, skip_errors False", p.ret, st))
            elif m is False and kn is False and sk is True:
                kinds.add("unseen-skip")
                if not (p.ret in (None, CONTINUE) and not st):
                    bad.append(("unseen, skip_errors True", p.ret, st))
            elif p.ret == RAISE and m is False and kn is False:
                # a raise reached before skip_errors is looked at: only allowed when it is False
                bad.append(("unseen raise not conditioned on skip_errors", p.ret, sorted(p.conds)))
            else:
                bad.append(("undecided", p.ret, sorted(p.conds)))
        # the indicators may be written after the loops (coordinates collected, one vector store): no store
        # into the result inside the cell loop at all, and one outside it
        no_store_in_cells = all(not any(k.startswith(R + "[") for k in p.named_stores) for p in cells)
        late_stores = [s_ for s_ in own_nodes(tr.node) if isinstance(s_, ast.Assign) and isinstance(s_.targets[0], ast.Subscript) and src_of(s_.targets[0].value) == R and isinstance(s_.targets[0].slice, ast.Tuple) and all(isinstance(e_, ast.Name) for e_ in s_.targets[0].slice.elts)]
        only_known_bad = bad and all(b_[0] == "known" for b_ in bad)
        if only_known_bad and no_store_in_cells and late_stores and kinds == {"missing", "known", "unseen-raise", "unseen-skip"}:
            ck.unknown("C19.b", tr, late_stores[0], f"the indicators are written by one store after the loops ({src_of(late_stores[0])[:60]}) from coordinates collected in lists: which cell each known value sets is not followed through the lists")
        else:
          ck.verdict(not bad and kinds == {"missing", "known", "unseen-raise", "unseen-skip"}, "C19.b", tr, f"cell cases {sorted(kinds)}", "missing -> no indicator; known -> 1.0 at offset[column] + rank[column][value]; unseen -> error unless skip_errors, then that cell only is skipped", f"cell handling changed: {bad[:2]} (cases {sorted(kinds)}): the indicator is not at offset + rank, missing values are looked up, or an unseen category leaves the row / is not refused")
        # output frame
        NEW = f"pandas.DataFrame({_t(env[R]) if R in env else R}, columns={SCH}[0], index={DFCAT}.index)"
        NUM = f"{Xt}[[c for c in {Xt}.columns if c not in self._fit_columns]]"
        got = {}
        for p in tp:
            has_num = truth_of(p.conds, ctext(f"{NUM}.shape[1] > 0"))
            if has_num is None:
                z = truth_of(p.conds, ctext(f"{NUM}.shape[1] == 0"))
                has_num = None if z is None else (not z)
            got[has_num] = p.ret_text().replace(" ", "")
        NEWn = ctext(NEW).replace(" ", "")

        def _kwsorted(t_):
            """the same call text with its keyword arguments in alphabetical order (their order does not matter)"""
            try:
                e_ = ast.parse(t_, mode="eval").body
            except SyntaxError:
                return t_
            for c_ in ast.walk(e_):
                if isinstance(c_, ast.Call):
                    c_.keywords = sorted(c_.keywords, key=lambda k_: (k_.arg is None, k_.arg or ""))
            return ast.unparse(e_).replace(" ", "")

        NEWn = _kwsorted(NEWn)
        got = {k_: _kwsorted(v_) for k_, v_ in got.items()}
        ck.verdict(got.get(True) == _kwsorted(f"pandas.concat([{ctext(NUM)},{NEWn}],axis=1)") and got.get(False) == NEWn, "C19.b", tr, "DataFrame(res, columns=names, index=categorical.index); concat([numeric, indicators], axis=1)", "rows keep their order and index; numeric columns (the complement of the fitted columns) pass through unchanged", f"the indicator frame does not reuse the input index or numeric columns are not concatenated unchanged: {got}")


def _branch_of(fi, loop):
    """the statement list that contains `loop`"""
    p = getattr(loop, "_parent", None)
    for f in ("body", "orelse"):
        b = getattr(p, f, None)
        if isinstance(b, list) and any(x is loop for x in b):
            return b
    return fi.node.body


def PathSub(env, e):
    from engine.patheval import _Sub
    from engine.util import clone_ast

    x = _Sub(env).visit(clone_ast(e))
    return complement_norm(x)


def run(ck):
    repo = ck.repo
    for k, v in RULES.items():
        ck.rule(k, v)
    check_a(ck, repo)
    check_b(ck, repo)
    ck.require_count("C19.a", 1, "package census + the anchored store")
    ck.require_count("C19.b", 10, "schema, fit, transform")


_F = "mlinsights/mlmodel/categories_to_integers.py"
WITNESSES = [
    {"name": "stale-index", "file": _F, "rule": "C19.a", "old": "                        p = pos[k] + vec[k][v]\n                        res[i, p] = 1.0\n", "new": "                        p = pos[k] + vec[k][v]\n                    res[i, p] = 1.0\n"},
    {"name": "offset-counts-removed", "file": _F, "rule": "C19.b", "old": "            last += len(sch)\n", "new": "            last += len(v)\n"},
    {"name": "unseen-breaks-row", "file": _F, "rule": "C19.b", "old": "                            raise ValueError(\n                                \"Unable to find category value %r: %r \"\n                                \"type(v)=%r among\\n%s\" % (k, v, type(v), \"\\n\".join(lv))\n                            )\n", "new": "                            raise ValueError(\n                                \"Unable to find category value %r: %r \"\n                                \"type(v)=%r among\\n%s\" % (k, v, type(v), \"\\n\".join(lv))\n                            )\n                        break\n"},
    {"name": "rank-by-string", "file": _F, "rule": "C19.b", "old": "enumerate(list(sorted(distinct)))", "new": "enumerate(list(sorted(distinct, key=str)))"},
    {"name": "index-reset", "file": _F, "rule": "C19.b", "old": "                newdf = pandas.DataFrame(res, columns=sch, index=dfcat.index)\n", "new": "                newdf = pandas.DataFrame(res, columns=sch)\n"},
    {"name": "single-no-copy", "file": _F, "rule": "C19.b", "old": "            X = X.copy()\n", "new": ""},
    {"name": "missing-after-lookup", "file": _F, "rule": "C19.b", "old": "                    if v is None or (isinstance(v, float) and numpy.isnan(v)):\n                        # missing values\n                        continue\n", "new": ""},
    {"name": "cell-without-offset", "file": _F, "rule": "C19.b", "old": "p = pos[k] + vec[k][v]", "new": "p = vec[k][v]"},
    {"name": "skip-errors-inverted", "file": _F, "rule": "C19.b", "old": "            b = not self.skip_errors\n\n            for i, row", "new": "            b = self.skip_errors\n\n            for i, row"},
]
# witnesses of the rules added after the ninth round of independent changes
WITNESSES += [
    {"name": "categorical-columns-by-values", "file": _F, "rule": "C19.b", "old": "columns = [c for c, d in zip(X.columns, X.dtypes) if d in (object,)]", "new": "columns = [c for c in X.columns if pandas.api.types.is_string_dtype(X[c])]"},
]


TWINS = []
MIN_WITNESSES = 8
