"""C12 — tree utilities (structural part).

  C12.a  every leaf-enumeration site uses one of the two confirmed leaf
         predicates over the full node range; predict_leaves maps the argmax
         column back through the same leaves_index it selected columns with
  C12.b  tree_node_range orientation: going to the LEFT child tightens the UPPER
         bound with min, going right tightens the LOWER bound with max
         (scikit-learn routes x <= threshold to the left)
  C12.c  digitize2tree: refuses right=False; descending bins recurse on the
         reversed bins and remap values by len(bins) - v; in every branch of
         add_root/add_nodes exactly one tree_add_node and one values.append
         precede any recursive call; leaves pair with a value, splits with
         UNUSED and a threshold bins[...]

NOT decided: equality with numpy.digitize for every bins length, equality of
boxes with routed points (inductive) — see DESIGN.md.
"""

from __future__ import annotations

import ast
from engine.util import clone_ast
from typing import List, Optional

from engine.src import FunctionInfo, own_nodes, own_nodes_incl_lambda, src_of, AnalysisError
from engine.util import const_value, enclosing_tests
from engine.guards import cond_text
from .sem import expander, ctext, want, stmt_of, paths, block_paths, RAISE, BREAK, CONTINUE

RULES = {
    "C12.a": "leaf enumeration sites share one of two confirmed leaf predicates over all nodes; predict_leaves maps argmax back through the same index list",
    "C12.b": "tree_node_range: left child -> upper bound (min), right child -> lower bound (max)",
    "C12.c": "digitize2tree: right=False refused; descending remap; one tree_add_node + one values.append per branch before recursion; leaf/value and split/UNUSED/threshold pairing",
}

TS = "mlinsights.mltree.tree_structure"
TD = "mlinsights.mltree.tree_digitize"

import re

_P1 = re.compile(r"^(?P<t>.+?)\.children_left\[(?P<i>\w+)\] == (TREE_LEAF|-1)$")
_P2 = re.compile(r"^(?P<t>.+?)\.children_left\[(?P<i>\w+)\] <= (?P=i) and (?P=t)\.children_right\[(?P=i)\] <= (?P=i)$")


_P1N = re.compile(r"^(?P<t>.+?)\.children_left\[(?P<i>\w+)\] != (TREE_LEAF|-1)$")


def _leaf_pred_text(t: str):
    # `children_left[i] != TREE_LEAF` is the same predicate read from the other side (the
    # statements it guards handle the internal nodes)
    m = _P1.match(t) or _P2.match(t) or _P1N.match(t)
    return (m.group("t"), m.group("i")) if m else None


class _Elem(ast.NodeTransformer):
    """element i of a prefix copy is element i of the array: A[:n].tolist()[i], list(A[:n])[i],
    A.tolist()[i] -> A[i]; len(A[:n].tolist()) -> n"""

    @staticmethod
    def _strip(v):
        changed = True
        upper = None
        while changed:
            changed = False
            if isinstance(v, ast.Call) and isinstance(v.func, ast.Attribute) and v.func.attr in ("tolist", "copy") and not v.args:
                v, changed = v.func.value, True
            elif isinstance(v, ast.Call) and isinstance(v.func, ast.Name) and v.func.id in ("list", "tuple") and len(v.args) == 1:
                v, changed = v.args[0], True
            elif isinstance(v, ast.Subscript) and isinstance(v.slice, ast.Slice) and v.slice.step is None and (v.slice.lower is None or (isinstance(v.slice.lower, ast.Constant) and v.slice.lower.value == 0)):
                upper = v.slice.upper if v.slice.upper is not None else upper
                v, changed = v.value, True
        return v, upper

    def visit_Subscript(self, n):
        self.generic_visit(n)
        if not isinstance(n.slice, (ast.Slice, ast.Tuple)):
            v, _ = self._strip(n.value)
            n.value = v
        return n

    def visit_Call(self, n):
        self.generic_visit(n)
        if isinstance(n.func, ast.Name) and n.func.id == "len" and len(n.args) == 1:
            v, upper = self._strip(n.args[0])
            if upper is not None:
                return upper
            n.args = [v]
        return n


def _norm_enumeration(repo, fi, target, it, tests, at):
    """(node variable, tree text, iteration text, test text) of an enumeration of
    node ids; `for i, c in enumerate(S)` is read as `for i in range(len(S))`
    with c = S[i]; local aliases of the tree's arrays are expanded"""
    ex = expander(repo)
    sub = {}
    iv = None
    it_x = ex.norm_expr(it, fi, at)
    if isinstance(it_x, ast.Call) and ast.unparse(it_x.func) == "enumerate" and isinstance(target, ast.Tuple) and len(target.elts) == 2 and all(isinstance(e, ast.Name) for e in target.elts):
        iv = target.elts[0].id
        S = it_x.args[0]
        sub[target.elts[1].id] = ast.Subscript(value=S, slice=ast.Name(id=iv, ctx=ast.Load()), ctx=ast.Load())
        it_t = f"range(len({ast.unparse(S)}))"
    elif isinstance(target, ast.Name):
        iv = target.id
        it_t = ast.unparse(it_x)
    else:
        return None

    class R(ast.NodeTransformer):
        def visit_Name(s_, n):
            if n.id in sub:
                return sub[n.id]
            return n

    from engine.util import clone_ast

    tt = []
    for t in tests:
        x = R().visit(clone_ast(t))
        # expand the free names of the test (aliases such as children_left = model.tree_.children_left)
        names = {n.id for n in ast.walk(x) if isinstance(n, ast.Name)} - {iv}
        for nm in names:
            v = ex.norm_expr(ast.Name(id=nm, ctx=ast.Load()), fi, at)
            if not (isinstance(v, ast.Name) and v.id == nm):
                sub2 = {nm: v}

                class R2(ast.NodeTransformer):
                    def visit_Name(s_, n):
                        return sub2.get(n.id, n)

                x = R2().visit(x)
        x = _Elem().visit(x)
        tt.append(ast.unparse(x))
    try:
        it_t = ast.unparse(_Elem().visit(ast.parse(it_t, mode="eval").body))
    except SyntaxError:
        pass
    return iv, it_t, tt


def _site_ok(ck, fi, node, iv, it_t, tests, elt_ok=True):
    t = " and ".join(tests) if len(tests) > 1 else (tests[0] if tests else "")
    p = _leaf_pred_text(t)
    if p is None and "__it__(" in t:
        ck.unknown("C12.a", fi, node, f"leaf test {t[:120]!r}: the node it tests is reached through a local whose expansion this rule does not read back as the loop's node id")
        return False
    if p is None:
        ck.violated("C12.a", fi, node, f"leaf test {t!r} is not one of the two confirmed leaf predicates (children_left[i] == TREE_LEAF, or both children <= i): internal nodes are listed as leaves or leaves are missed")
        return False
    tree, i2 = p
    ok = i2 == iv and it_t in (f"range(len({tree}.children_left))", f"range(0, len({tree}.children_left))", f"range({tree}.node_count)", f"range(0, {tree}.node_count)") and elt_ok
    ck.verdict(ok, "C12.a", fi, node, "all node ids are examined with a confirmed leaf predicate", f"the enumeration runs over {it_t!r} (variable {iv}), not over every node id of {tree}")
    return ok


def _enumeration_sites(ck, repo, fi):
    """leaf-enumeration sites of a function; returns the list of (node, ok)"""
    out = []
    for c in own_nodes_incl_lambda(fi.node):
        if isinstance(c, (ast.ListComp, ast.GeneratorExp, ast.SetComp)) and len(c.generators) == 1 and c.generators[0].ifs:
            g = c.generators[0]
            r = _norm_enumeration(repo, fi, g.target, g.iter, g.ifs, stmt_of(c))
            if r is None:
                continue
            iv, it_t, tests = r
            raws = " ".join(src_of(t) for t in g.ifs)
            if not ("children_left" in raws or "children_right" in raws or "TREE_LEAF" in raws):
                continue
            out.append((c, _site_ok(ck, fi, c, iv, it_t, tests, src_of(c.elt) == iv)))
        if isinstance(c, ast.For):
            for s in c.body:
                if isinstance(s, ast.If):
                    raw = src_of(s.test)
                    if not ("children_left" in raw or "children_right" in raw or "TREE_LEAF" in raw):
                        continue
                    r = _norm_enumeration(repo, fi, c.target, c.iter, [s.test], c)
                    if r is None:
                        continue
                    iv, it_t, tests = r
                    out.append((s, _site_ok(ck, fi, s.test, iv, it_t, tests)))
    return out


def check_a(ck, repo):
    n = 0
    for fi in sorted(repo.all_functions.values(), key=lambda f: f.qualname):
        if not fi.module.name.startswith(("mlinsights.mltree", "mlinsights.mlmodel")):
            continue
        n += len(_enumeration_sites(ck, repo, fi))
    # tree_leave_index: returns exactly the node ids selected by a confirmed leaf predicate
    tl = repo.func(TS, "tree_leave_index")
    ok_sites = 0
    what = None
    for c in own_nodes_incl_lambda(tl.node):
        if isinstance(c, (ast.ListComp, ast.For)):
            what = c
    rets = [r for r in own_nodes(tl.node) if isinstance(r, ast.Return)]
    collected = False
    tests_seen = []
    for c in own_nodes_incl_lambda(tl.node):
        if isinstance(c, ast.ListComp) and len(c.generators) == 1:
            g = c.generators[0]
            r = _norm_enumeration(repo, tl, g.target, g.iter, g.ifs, stmt_of(c))
            if r and g.ifs:
                tests_seen += r[2]
                if _leaf_pred_text(" and ".join(r[2])) and src_of(c.elt) == r[0]:
                    collected = any(r_.value is c or (isinstance(r_.value, ast.Name) and any(isinstance(a, ast.Assign) and src_of(a.targets[0]) == r_.value.id and a.value is c for a in own_nodes(tl.node))) for r_ in rets)
        if isinstance(c, ast.For):
            for s_ in c.body:
                if isinstance(s_, ast.If) and not s_.orelse:
                    r = _norm_enumeration(repo, tl, c.target, c.iter, [s_.test], c)
                    if r:
                        tests_seen += r[2]
                    if r and _leaf_pred_text(r[2][0]):
                        apps = [x for x in s_.body if isinstance(x, ast.Expr) and isinstance(x.value, ast.Call) and isinstance(x.value.func, ast.Attribute) and x.value.func.attr == "append" and [src_of(a) for a in x.value.args] == [r[0]]]
                        if len(apps) == 1 and len(s_.body) == 1:
                            acc = src_of(apps[0].value.func.value)
                            collected = all(isinstance(r_.value, ast.Name) and r_.value.id == acc for r_ in rets) and bool(rets)
    ck.verdict(collected, "C12.a", tl, f"tree_leave_index: test {tests_seen}", "tree_leave_index returns the node ids selected by a confirmed leaf predicate", f"tree_leave_index selects nodes with `{tests_seen}` / does not return exactly the ids satisfying a leaf predicate (children_left[i] == TREE_LEAF, or both children <= i): a split node can be listed as a leaf")
    # tree_node_parents: both children recorded for internal nodes
    tp = repo.func(TS, "tree_node_parents")
    loops = [l for l in own_nodes(tp.node) if isinstance(l, ast.For) and isinstance(l.target, ast.Name)]
    okp = False
    if len(loops) == 1:
        iv = loops[0].target.id
        st = {}
        # locals bound before the loop to the tree's arrays are read as those arrays
        from engine.patheval import PathEval as _PE0
        from .sem import complement_norm as _cn0

        env0 = {}
        try:
            pq = [q for q in _PE0(tp.node, {}, post=_cn0).run([s_ for s_ in tp.node.body if s_.lineno < loops[0].lineno]) if q.ret is None]
            if pq:
                env0 = {k: ast.Attribute(value=ast.Name(id="tree", ctx=ast.Load()), attr=v.attr, ctx=ast.Load()) for k, v in pq[-1].env.items() if isinstance(v, ast.Attribute) and v.attr in ("children_left", "children_right", "node_count")}
        except Exception:
            env0 = {}
        # the loop visits either every node (and skips the leaves) or the internal nodes only
        it_t = ast.unparse(_cn0(_SubAliases(env0).visit(clone_ast(loops[0].iter)))).replace(" ", "")
        internal_only = it_t in ("numpy.flatnonzero(tree.children_left!=TREE_LEAF).tolist()", "numpy.flatnonzero(tree.children_left!=TREE_LEAF)", "numpy.where(tree.children_left!=TREE_LEAF)[0]", "numpy.nonzero(tree.children_left!=TREE_LEAF)[0]", "numpy.where(tree.children_left!=TREE_LEAF)[0].tolist()", "numpy.nonzero(tree.children_left!=TREE_LEAF)[0].tolist()")
        all_nodes = it_t in ("range(tree.node_count)", "range(0,tree.node_count)", "range(len(tree.children_left))", "range(0,len(tree.children_left))")
        for p in block_paths(tp, loops[0].body, env0):
            if p.ret in (CONTINUE, BREAK):
                continue
            st = {k: ast.unparse(v) for k, v in p.stores.items()}
            leaf_skipped = any((t.endswith(".children_left[%s] == TREE_LEAF" % iv) or (t.startswith("TREE_LEAF == ") and t.endswith(".children_left[%s]" % iv))) and not pol for t, pol in p.conds) or any((t.endswith(".children_left[%s] != TREE_LEAF" % iv) or (t.startswith("TREE_LEAF != ") and t.endswith(".children_left[%s]" % iv))) and pol for t, pol in p.conds)
            is_leaf_path = any((t.endswith(".children_left[%s] != TREE_LEAF" % iv) and not pol) or (t.endswith(".children_left[%s] == TREE_LEAF" % iv) and pol) or (t.startswith("TREE_LEAF == ") and t.endswith(".children_left[%s]" % iv) and pol) or (t.startswith("TREE_LEAF != ") and t.endswith(".children_left[%s]" % iv) and not pol) for t, pol in p.conds)
            if is_leaf_path and not p.stores:
                continue  # a leaf: nothing to record
            okp = ((all_nodes and leaf_skipped) or (internal_only and not p.conds)) and len(st) == 2 and any(k.endswith(f".children_left[{iv}]]") and v == iv for k, v in st.items()) and any(k.endswith(f".children_right[{iv}]]") and v == f"-{iv}" for k, v in st.items())
    ck.verdict(okp, "C12.a", tp, "parents[left] = i; parents[right] = -i", "both children of every internal node point to their parent (right child marked by the sign)", "tree_node_parents does not record both children of an internal node")
    # predict_leaves
    pl = repo.func(TS, "predict_leaves")
    Xp = pl.named_params[1]
    okl = True
    n_paths = 0
    for p in paths(pl):
        if p.ret in (None, RAISE):
            continue
        n_paths += 1
        r = p.ret
        ok1 = False
        LI = pos = None
        if isinstance(r, ast.Call) and ast.unparse(r.func) in ("numpy.array", "numpy.asarray") and r.args and isinstance(r.args[0], (ast.ListComp, ast.GeneratorExp)) and len(r.args[0].generators) == 1 and not r.args[0].generators[0].ifs:
            comp = r.args[0]
            g = comp.generators[0]
            if isinstance(comp.elt, ast.Subscript) and isinstance(g.target, ast.Name) and ast.unparse(comp.elt.slice) == g.target.id:
                LI = ast.unparse(comp.elt.value)
                pos = _unwrap(g.iter)
        elif isinstance(r, ast.Subscript) and isinstance(r.value, ast.Call) and ast.unparse(r.value.func) in ("numpy.array", "numpy.asarray") and len(r.value.args) == 1 and not isinstance(r.slice, (ast.Tuple, ast.Slice)):
            # the same lookup for the whole array at once: array(LI)[positions]
            LI = ast.unparse(r.value.args[0])
            pos = _unwrap(r.slice)
        if LI is not None:
            if True:
                if isinstance(pos, ast.Call) and ast.unparse(pos.func) == "numpy.argmax" and pos.args:
                    ax = pos.args[1] if len(pos.args) > 1 else next((k.value for k in pos.keywords if k.arg == "axis"), None)
                    ok1 = ax is not None and ast.unparse(ax) == "1" and ast.unparse(pos.args[0]) == f"model.decision_path({Xp})[:, {LI}]"
        okl = okl and ok1
    ck.verdict(okl and n_paths >= 1, "C12.a", pl, "columns selected by leaves_index, argmax mapped back through leaves_index", "one index list selects the columns and translates the argmax back", "predict_leaves no longer selects the decision-path columns and translates the argmax back with the same leaves_index")
    # the utilities are functions of the tree: nothing is stored on (or written into) their arguments
    from .sem import effects

    eff = effects(repo)
    mi = repo.modules.get(TS)
    for f in sorted(repo.functions_of(mi), key=lambda f: f.node.lineno):
        sm = eff.summaries.get(f.qualname)
        w = dict(sm.writes) if sm else {}
        ck.verdict(not w, "C12.a", f, f"{f.name}: arguments only read", "the result is recomputed from the tree given at every call (nothing cached on the model)", f"{f.name} writes its argument(s) {sorted(w)} ({list(w.values())[0] if w else ''}): a value kept on the model survives a refit, so the result no longer describes the fitted tree")
    return n


class _SubAliases(ast.NodeTransformer):
    def __init__(self, env):
        self.env = env

    def visit_Name(self, n):
        if isinstance(n.ctx, ast.Load) and n.id in self.env:
            return clone_ast(self.env[n.id])
        return n


def _unwrap(x: ast.AST) -> ast.AST:
    while True:
        if isinstance(x, ast.Call) and isinstance(x.func, ast.Attribute) and x.func.attr in ("ravel", "flatten", "tolist") and not x.args:
            x = x.func.value
        elif isinstance(x, ast.Call) and ast.unparse(x.func) in ("numpy.asarray", "numpy.array", "list", "numpy.ravel") and x.args:
            x = x.args[0]
        else:
            return x


def check_b(ck, repo):
    fi = repo.func(TS, "tree_node_range")
    loops = [l for l in own_nodes(fi.node) if isinstance(l, ast.For) and isinstance(l.iter, ast.Call) and src_of(l.iter.func) in ("enumerate", "zip") and isinstance(l.target, ast.Tuple) and len(l.target.elts) == 2]
    if len(loops) != 1:
        ck.unknown("C12.b", fi, "for ind, p in enumerate(path)", "walk along the root-to-node path not found")
        return
    l = loops[0]
    ex = expander(repo)
    node_p = fi.named_params[1]
    zipped = src_of(l.iter.func) == "zip"
    if zipped:
        # for p, child in zip(path[:-1], path[1:]): every node but the last with its successor
        a0, a1 = (l.iter.args + [None, None])[:2]
        okz = isinstance(a0, ast.Subscript) and isinstance(a1, ast.Subscript) and src_of(a0.value) == src_of(a1.value) and src_of(a0.slice) == ":-1" and src_of(a1.slice) == "1:"
        if not okz:
            ck.unknown("C12.b", fi, l.iter, "walk along the root-to-node path not understood (expected zip(path[:-1], path[1:]))")
            return
        pv, child_t = [src_of(e) for e in l.target.elts]
        ind = None
        pth = src_of(a0.value)
        path_expr = a0.value
    else:
        ind, pv = [src_of(e) for e in l.target.elts]
        pth = src_of(l.iter.args[0])
        path_expr = l.iter.args[0]
        child_t = f"{pth}[{ind} + 1]"
    ptx = ex.text(path_expr, fi, l)
    ck.verdict(ptx in (want(repo, f"tree_find_path_to_root(tree, {node_p}, parents)", fi, l), want(repo, f"tree_find_path_to_root(tree, {node_p}, parents=parents)", fi, l)), "C12.b", fi, f"path = {ptx[:60]}", "constraints come from the root-to-node path", "path is not the root-to-node path")
    # the box holds thresholds (float64 in scikit-learn trees): its array must not narrow them
    rets_ = [p for p in paths(fi) if p.ret not in (None, RAISE)]
    okdt = bool(rets_)
    for p in rets_:
        a = p.ret
        if isinstance(a, ast.Call) and ast.unparse(a.func) in ("numpy.full", "numpy.empty", "numpy.zeros"):
            dt = next((ast.unparse(k.value) for k in a.keywords if k.arg == "dtype"), None)
            if dt is None and ast.unparse(a.func) == "numpy.full" and len(a.args) > 2:
                dt = ast.unparse(a.args[2])
            okdt = okdt and dt in (None, "float", "numpy.float64", "'float64'", "numpy.double")
        else:
            okdt = False
    ck.verdict(okdt, "C12.b", fi, "box array holds float64 thresholds", "thresholds are stored as they are in the tree", "the box is stored in a narrower type than the tree's float64 thresholds: a point between a threshold and its rounded value lies in another leaf's box than the one it is routed to")
    # locals bound before the loop (aliases of the tree's arrays) are read as what they stand for
    from engine.patheval import PathEval as _PE
    from .sem import complement_norm as _cn

    pre_env = {}
    try:
        pre_paths = [q for q in _PE(fi.node, {}, post=_cn).run([s_ for s_ in fi.node.body if s_.lineno < l.lineno]) if q.ret is None]
        if len(pre_paths) >= 1:
            pre_env = {k: ast.Attribute(value=ast.Name(id="tree", ctx=ast.Load()), attr=v.attr, ctx=ast.Load()) for k, v in pre_paths[-1].env.items() if isinstance(v, ast.Attribute) and v.attr in ("feature", "threshold", "children_left", "children_right") and ast.unparse(v.value) in ("tree", "_get_tree(tree)")}
    except Exception:
        pre_env = {}
    ps = block_paths(fi, l.body, pre_env)
    stop = [p for p in ps if p.ret == BREAK]
    if zipped:
        ck.verdict(not stop, "C12.b", fi, f"for {pv}, {child_t} in zip({pth}[:-1], {pth}[1:])", "the node itself (last of the path) contributes no constraint", "the walk over (node, next node) pairs is cut short")
    else:
        ck.verdict(len(stop) == 1 and stop[0].conds == ((f"{node_p} == {pv}", True),) or len(stop) == 1 and stop[0].conds == ((f"{pv} == {node_p}", True),), "C12.b", fi, f"if {pv} == {node_p}: break", "the node itself contributes no constraint", "the walk does not stop at the node itself")
    going = [p for p in ps if p.ret is None]
    left_fact = None
    seen = {}
    for p in going:
        side = None
        for t, pol in p.conds:
            nxt = {child_t, child_t.replace(f"{ind} + 1", f"1 + {ind}")} if ind else {child_t}
            if any(t in (f"tree.children_left[{pv}] == {c_}", f"{c_} == tree.children_left[{pv}]") for c_ in nxt):
                side = "left" if pol else "right"
            if any(t in (f"tree.children_right[{pv}] == {c_}", f"{c_} == tree.children_right[{pv}]") for c_ in nxt):
                side = "right" if pol else "left"
        if side is None or len(p.stores) != 1:
            seen["?"] = (sorted(p.conds), {k: ast.unparse(v) for k, v in p.stores.items()})
            continue
        (k, v), = p.stores.items()
        seen[side] = (k, ast.unparse(v))
    F, T = f"tree.feature[{pv}]", f"tree.threshold[{pv}]"

    def forms(col, fn):
        U = f"res[{F}, {col}]"
        return {ctext(f"{T} if numpy.isnan({U}) else {fn}({U}, {T})"), ctext(f"{T} if numpy.isnan({U}) else {fn}({T}, {U})"), ctext(f"numpy.fmin({U}, {T})") if fn == "min" else ctext(f"numpy.fmax({U}, {T})"), ctext(f"numpy.fmin({T}, {U})") if fn == "min" else ctext(f"numpy.fmax({T}, {U})")}

    lf = seen.get("left")
    rg = seen.get("right")
    ck.verdict("?" not in seen and lf is not None and rg is not None, "C12.b", fi, f"left/right decided by children_left[{pv}] == next node on the path", "the side is decided by comparing the left child with the next node on the path", f"the left/right flag is not `children_left[p] == next node on the path`: {seen.get('?')}")
    ck.verdict(lf is not None and lf[0] == ctext(f"res[{F}, 1]") and ctext(lf[1]) in forms(1, "min"), "C12.b", fi, f"left: {lf}", "left child: x <= th, so the upper bound (column 1) becomes min(upper, th)", "going left must tighten the UPPER bound with min: the box no longer contains exactly the points routed to the leaf")
    ck.verdict(rg is not None and rg[0] == ctext(f"res[{F}, 0]") and ctext(rg[1]) in forms(0, "max"), "C12.b", fi, f"right: {rg}", "right child: x > th, so the lower bound (column 0) becomes max(lower, th)", "going right must tighten the LOWER bound with max")


def _kind(repo, fi, nested_names, c: ast.Call, values_name: str) -> Optional[str]:
    f = src_of(c.func)
    if f == "tree_add_node":
        return "node"
    if f == f"{values_name}.append":
        return "value"
    if (f[:-5] if f.endswith("__def") else f) in nested_names:
        return "rec"
    return None


def check_c(ck, repo):
    fi = repo.func(TD, "digitize2tree")
    bins_p, right_p = fi.named_params[0], fi.named_params[1]
    # right=False refused before anything is built
    ps = paths(fi, {right_p: False})
    ck.verdict(bool(ps) and all(p.ret == RAISE and not p.calls[:0] and not any(isinstance(c, ast.Call) and src_of(c.func) in ("Tree", "tree_add_node") for c in p.calls) for p in ps), "C12.c", fi, f"{right_p}=False -> {[p.raised for p in ps]}", "right=False is refused before anything is built", "digitize2tree no longer refuses right=False (a tree can only encode x <= threshold)")
    ps = [p for p in paths(fi, {right_p: True})]
    asc_t = ctext(f"len({bins_p}) <= 1 or {bins_p}[0] < {bins_p}[1]")
    d_fact = cond_text(f"{bins_p}[0] < {bins_p}[1]", False)
    desc = [p for p in ps if d_fact in p.conds]
    asc = [p for p in ps if p not in desc]
    okd = len(desc) == 1
    if okd:
        p = desc[0]
        rec = f"digitize2tree({bins_p}[::-1], right=True)"
        rt = p.ret_text() if p.ret not in (None, RAISE) else None
        okd = rt in (rec, f"digitize2tree({bins_p}[::-1], True)")
        st = {k: ast.unparse(v) for k, v in p.stores.items()}
        okd = okd and len(st) == 1
        if okd:
            (k, v), = st.items()
            m = re.match(r"^(.*)\.tree_\.value\[(.+), 0, 0\]$", k)
            okd = m is not None and m.group(1) == rt and (m.group(2) == ":" or "__L" in m.group(2)) and ctext(v) == ctext(f"len({bins_p}) - {k}")
    ck.verdict(okd, "C12.c", fi, "descending bins", "descending bins: tree of the reversed bins with every value v remapped to len(bins) - v", "descending case is not `tree(reversed bins)` with every value v replaced by len(bins) - v")
    # nested builders
    nested = [f for f in repo.all_functions.values() if f.parent is fi]
    names = {f.name for f in nested}
    vals = None
    for s_ in own_nodes(fi.node):
        if isinstance(s_, ast.Assign) and isinstance(s_.value, ast.List) and not s_.value.elts and isinstance(s_.targets[0], ast.Name):
            nm = s_.targets[0].id
            if any(isinstance(c, ast.Call) and src_of(c.func) == f"{nm}.append" and c.args and src_of(c.args[0]) == "UNUSED" for g in nested for c in ast.walk(g.node)):
                vals = nm
    if vals is None:
        raise AnalysisError("anchor vanished: the list of node values in digitize2tree")
    n_branches = 0
    seen_kinds = set()
    for g in sorted(nested, key=lambda f: f.node.lineno):
        for p in paths(g):
            ev = [(k, c) for c in p.calls for k in [_kind(repo, g, names, c, vals)] if k]
            if not ev:
                continue
            n_branches += 1
            label = f"{g.name} path {' and '.join(t if pol else f'not ({t})' for t, pol in p.conds)[:70] or '(unconditional)'}"
            kinds = [k for k, _ in ev]
            nn, nv = kinds.count("node"), kinds.count("value")
            if nn == 0 and nv == 0:
                # pure delegation to another builder: its result is returned
                ck.verdict(kinds == ["rec"] and isinstance(p.ret, ast.Call), "C12.c", g, label, "the path delegates to another builder and returns its node", f"{label}: calls builders {kinds} without creating a node")
                continue
            first_rec = kinds.index("rec") if "rec" in kinds else len(kinds)
            before = all(i_ < first_rec for i_, k in enumerate(kinds) if k in ("node", "value"))
            ck.verdict(nn == 1 and nv == 1 and before, "C12.c", g, label, "one tree_add_node and one values.append before any recursive call (node ids and values stay aligned)", f"{label}: {nn} tree_add_node / {nv} values.append" + ("" if before else " after a recursive call") + ": values[k] no longer belongs to node k")
            if nn != 1 or nv != 1:
                continue
            node = next(c for k, c in ev if k == "node")
            val = next(c for k, c in ev if k == "value")
            a = [ast.unparse(x) for x in node.args]
            v = ast.unparse(val.args[0]) if val.args else None
            is_leaf = a[3] if len(a) > 3 else None
            th = a[5] if len(a) > 5 else None
            seen_kinds.add("leaf" if is_leaf == "True" else "split")
            if g.name == "add_root" or (len(a) > 1 and a[1] in ("-1",)):
                seen_kinds.add("root")
            if is_leaf == "True":
                ck.verdict(v not in ("UNUSED", "numpy.nan") and th == "0", "C12.c", g, f"{label}: leaf", f"leaf carries the bin number {v}", f"{label}: a leaf is stored with value {v} / threshold {th}")
                if g.name != "add_root" and len(g.named_params) >= 4:
                    # a leaf closes a range with no edge left to test: [i, i) on the left of the split j,
                    # or [i, j) with j == i + 1 on the right of the split i (bins[i] was tested by the parent)
                    gp_ = g.named_params
                    i_p, j_p, left_p = gp_[1], gp_[2], gp_[3]
                    cs = set(p.conds)
                    on_left = (ctext(left_p), True) in cs
                    on_right = (ctext(left_p), False) in cs
                    empty_l = (ctext(f"{i_p} == {j_p}"), True) in cs
                    last_r = (ctext(f"{i_p} + 1 == {j_p}"), True) in cs or (ctext(f"{j_p} == {i_p} + 1"), True) in cs
                    okleaf = (on_left and empty_l and v in (i_p, j_p)) or (on_right and last_r and v == j_p)
                    ck.verdict(okleaf, "C12.c", g, f"{label}: leaf closes an exhausted range", f"leaf {v} where no edge of the range remains to be tested", f"{label}: a leaf with value {v} is created although an edge of bins[{i_p}:{j_p}] has not been tested on this path (a leaf is right only for the empty range on the left of its parent's edge, value {i_p}, or for the single-edge range on the right of it, value {j_p}): inputs on the other side of the untested edge get the wrong bin")
            else:
                ck.verdict(is_leaf == "False" and v in ("UNUSED", "numpy.nan") and th is not None and th.startswith(f"{bins_p}["), "C12.c", g, f"{label}: split", f"split node has no value and threshold {th}", f"{label}: a split node has value {v} / threshold {th}; expected UNUSED and bins[...]")
            if g.name == "add_root" or a[1] in ("-1",):
                ck.verdict(a[:3] == ["tree", "-1", "False"], "C12.c", g, f"{label}: root", "the root has no parent", f"{label}: root attached with {a[:3]}")
            else:
                gp = g.named_params
                ck.verdict(a[0] == "tree" and a[1] == gp[0] and a[2] in gp, "C12.c", g, f"{label}: tree_add_node(tree, {a[1]}, {a[2]}, ...)", "node attached to its parent on the side it was built for", f"{label}: node is attached with ({', '.join(a[:3])})")
            recs = [c for k, c in ev if k == "rec"]
            if recs:
                ra = [[ast.unparse(x) for x in c.args] for c in recs]
                nt = ast.unparse(node)
                i_p, j_p = (g.named_params[1], g.named_params[2]) if len(g.named_params) >= 3 else ("i", "j")
                mid = ctext(f"({i_p} + {j_p}) // 2")
                ok = len(ra) == 2 and all(len(x) == 4 for x in ra) and ra[0][0] == nt and ra[1][0] == nt and ra[0][1] == i_p and ra[1][2] == j_p and ra[0][2] == ra[1][1] and ra[0][3] == "True" and ra[1][3] == "False" and ctext(ra[0][2]) in (mid, i_p)
                if ok and ctext(ra[0][2]) == i_p:
                    ok = (ctext(f"{i_p} + 1 == {j_p}"), True) in p.conds or (ctext(f"{j_p} == {i_p} + 1"), True) in p.conds
                ck.verdict(ok, "C12.c", g, f"{label}: children {[(x[1], x[2], x[3]) for x in ra]}", "children are attached to the node just created; left covers [i, m), right [m, j), m the middle edge", f"{label}: recursive calls {[(x[0][:20], x[1], x[2], x[3]) for x in ra]}: ranges changed, or children are not attached to the node just created")
                if is_leaf == "False" and th is not None and len(ra) == 2:
                    ck.verdict(ctext(th) == ctext(f"{bins_p}[{ra[0][2]}]"), "C12.c", g, f"{label}: threshold {th}", "the threshold is the edge that separates the two children", f"{label}: threshold {th} is not bins[{ra[0][2]}], the edge between the two child ranges")
    inlined_root = "add_root" not in names and "root" not in seen_kinds
    if inlined_root:
        # the root may be created by digitize2tree itself rather than by a nested builder
        for p in asc:
            if p.ret == RAISE:
                continue
            tn = [c for c in p.calls if src_of(c.func) == "tree_add_node"]
            va = [c for c in p.calls if src_of(c.func) == f"{vals}.append"]
            if len(tn) == 1 and len(va) == 1:
                a = [ast.unparse(x) for x in tn[0].args]
                M_ = ctext(f"len({bins_p}) // 2")
                if (a[0] == "tree" or a[0].startswith("Tree(")) and a[1:4] == ["-1", "False", "False"] and len(a) > 5 and ctext(a[5]) == ctext(f"{bins_p}[{M_}]") and ast.unparse(va[0].args[0]) in ("UNUSED", "numpy.nan"):
                    seen_kinds.add("root")
                    n_branches += 1
                    ck.holds("C12.c", fi, "root created at the top level", "the root has no parent, no value and splits on the middle edge")
                else:
                    ck.violated("C12.c", fi, tn[0], f"the root is created with ({', '.join(a[:6])}) and value {ast.unparse(va[0].args[0])}; expected no parent, a split on {bins_p}[len({bins_p}) // 2] and no value")
                    seen_kinds.add("root")
        if "root" not in seen_kinds:
            ck.unknown("C12.c", fi, "root node", "no builder named add_root and no single tree_add_node / values.append pair at the top level: the creation of the root is not in a form this rule reads")
            seen_kinds.add("root")
            n_branches = max(n_branches, 3)
    ck.verdict(n_branches >= 3 and seen_kinds >= {"root", "leaf", "split"}, "C12.c", fi, f"{n_branches} node-creating paths in the builders ({sorted(seen_kinds)})", "root, leaf and split cases are all present", f"only {sorted(seen_kinds)} among root / leaf / split node-creating paths were found ({n_branches} paths)")
    # top level
    oka = len(asc) >= 1
    for p in asc:
        if p.ret == RAISE:
            continue
        def _nm(c_):
            t_ = src_of(c_.func)
            return t_[:-5] if t_.endswith("__def") else t_

        top = [c for c in p.calls if _nm(c) in names]
        ta = [(_nm(c), [ast.unparse(x) for x in c.args]) for c in top]
        M = ctext(f"len({bins_p}) // 2")
        want_ = [("add_root", [M]), ("add_nodes", ["0", "0", M, "True"]), ("add_nodes", ["0", M, f"len({bins_p})", "False"])]
        if inlined_root:
            want_ = want_[1:]
            rootcalls = {ast.unparse(c) for c in p.calls if src_of(c.func) == "tree_add_node"}
            ta = [(n_, ["0" if i_ == 0 and x in rootcalls else x for i_, x in enumerate(xs)]) for n_, xs in ta]
        st = {k: ast.unparse(v) for k, v in p.stores.items()}
        inst = [v for k, v in st.items() if k.endswith(".tree_.value[:, 0, 0]")]
        oka = oka and ta == want_ and inst == [f"numpy.array({vals}, dtype=numpy.float64)"]
    ck.verdict(oka, "C12.c", fi, "root at len(bins) // 2; values copied into tree_.value", "root split in the middle, both halves built, values installed in node order", "top-level construction changed")
    # pyx wrapper passes arguments through in order
    from engine import cysrc

    try:
        m = cysrc.parse(repo, "mlinsights/mltree/_tree_digitize.pyx")
        w = m.functions.get("tree_add_node")
        if w is None:
            raise AnalysisError("anchor vanished: tree_add_node in _tree_digitize.pyx")
        params = [a.arg for a in w.args.args]
        r = [x for x in ast.walk(w) if isinstance(x, ast.Return)]
        # typed C copies of the arguments (`cdef intp_t c_parent = parent`) stand for the arguments
        alias = {}
        for st_ in w.body:
            if isinstance(st_, ast.Assign) and len(st_.targets) == 1 and isinstance(st_.targets[0], ast.Name) and isinstance(st_.value, ast.Name) and st_.value.id in params and st_.targets[0].id not in alias and st_.targets[0].id not in params:
                alias[st_.targets[0].id] = st_.value.id
        if alias and len(r) == 1 and isinstance(r[0].value, ast.Call):
            class _Un(ast.NodeTransformer):
                def visit_Name(self, n_):
                    return ast.copy_location(ast.Name(id=alias.get(n_.id, n_.id), ctx=n_.ctx), n_)
            r[0].value = _Un().visit(r[0].value)
        direct = len(r) == 1 and isinstance(r[0].value, ast.Call) and src_of(r[0].value.func) == f"{params[0]}._add_node"
        if direct:
            # the cdef helper is written out in the wrapper (or was looked through): one layer to check
            inner = w
            ok = True
        else:
            ok = len(r) == 1 and isinstance(r[0].value, ast.Call) and [src_of(a) for a in r[0].value.args] == params
            inner = m.functions.get(src_of(r[0].value.func)) if ok else None
        # thresholds travel in double precision: Cython's `float` is the C single-precision type
        narrow = [(fn_.name, a_.arg, ast.unparse(a_.annotation)) for fn_ in m.functions.values() for a_ in fn_.args.args if a_.annotation is not None and ast.unparse(a_.annotation) in ("float", "float32_t", "cnp.float32_t", "np.float32_t")]
        ck.verdict(not narrow, "C12.c", None, f"C types of the floating arguments: {narrow or 'float64_t / double / untyped'}", "thresholds, impurities and weights reach Tree._add_node in double precision", f"{narrow[0][0] if narrow else ''}: argument '{narrow[0][1] if narrow else ''}' is declared `{narrow[0][2] if narrow else ''}`, C single precision: a bin edge that is not a float32 number is rounded before it is stored as threshold, so an x equal to the edge (or between the edge and its rounding) is sent to the wrong side and digitize2tree(..).predict differs from numpy.digitize", file="mlinsights/mltree/_tree_digitize.pyx", function=narrow[0][0] if narrow else "tree_add_node", line=w.lineno)
        ck.verdict(ok and inner is not None, "C12.c", None, "tree_add_node -> cdef helper(same arguments)", "wrapper forwards its arguments in order", "the Python wrapper reorders or drops arguments of the cdef helper", file="mlinsights/mltree/_tree_digitize.pyx", function="tree_add_node", line=w.lineno)
        if inner is not None:
            ip = [a.arg for a in inner.args.args]
            r = [x for x in ast.walk(inner) if isinstance(x, ast.Return)]
            ok = len(r) == 1 and isinstance(r[0].value, ast.Call) and src_of(r[0].value.func) == f"{ip[0]}._add_node" and [src_of(a) for a in r[0].value.args] == ip[1:]
            ck.verdict(ok, "C12.c", None, "cdef helper -> tree._add_node(parent, is_left, is_leaf, ...)", "arguments reach Tree._add_node in its own order", "arguments of Tree._add_node are reordered", file="mlinsights/mltree/_tree_digitize.pyx", function=inner.name, line=inner.lineno)
    except ImportError as e:
        ck.unknown("C12.c", None, "Cython parser", str(e), file="-", function="-", line=0)


def run(ck):
    repo = ck.repo
    for k, v in RULES.items():
        ck.rule(k, v)
    n = check_a(ck, repo)
    check_b(ck, repo)
    check_c(ck, repo)
    ck.extra["leaf_enumeration_sites"] = n
    ck.require_count("C12.a", 5, "six leaf-enumeration sites + collection, parents, predict_leaves")
    ck.require_count("C12.b", 4, "lr, two branches, fn, th, stop, path")
    ck.require_count("C12.c", 15, "guards, descending, 6 branches x (counts, pairing, attach), recursion, top level, pyx wrappers")


_S = "mlinsights/mltree/tree_structure.py"
_D = "mlinsights/mltree/tree_digitize.py"
WITNESSES = [
    {"name": "leaves-index-right-child", "file": _S, "rule": "C12.a", "old": "    for i in range(tree.node_count):\n        if tree.children_left[i] == TREE_LEAF:\n            res.append(i)\n", "new": "    for i in range(tree.node_count):\n        if tree.children_left[i] <= TREE_LEAF + 1:\n            res.append(i)\n"},
    {"name": "leaves-skip-root", "file": _S, "rule": "C12.a", "old": "    for i in range(tree.node_count):\n        if tree.children_left[i] == TREE_LEAF:\n            res.append(i)\n", "new": "    for i in range(1, tree.node_count):\n        if tree.children_left[i] == TREE_LEAF:\n            res.append(i)\n"},
    {"name": "leaves-by-threshold-sentinel", "file": _S, "rule": "C12.a", "old": "        if tree.children_left[i] == TREE_LEAF:\n            res.append(i)\n", "new": "        if tree.threshold[i] == -2:\n            res.append(i)\n"},
    {"name": "predict-leaves-no-translate", "file": _S, "rule": "C12.a", "old": "    res = numpy.array([leaves_index[r] for r in res])\n", "new": "    res = numpy.array([r for r in res])\n"},
    {"name": "piecewise-leaf-predicate", "file": "mlinsights/mlmodel/piecewise_estimator.py", "rule": "C12.a", "old": "                if tree.children_left[i] <= i and tree.children_right[i] <= i\n", "new": "                if tree.children_left[i] <= i\n"},
    {"name": "range-box-float32", "file": _S, "rule": "C12.b", "old": "    res = numpy.full((mx + 1, 2), numpy.nan)\n", "new": "    res = numpy.full((mx + 1, 2), numpy.nan, dtype=numpy.float32)\n"},
    {"name": "predict-leaves-cached-on-model", "file": _S, "rule": "C12.a", "old": "    leaves = model.decision_path(X)\n    leaves = leaves[:, leaves_index]\n", "new": "    model._leaves_index_ = leaves_index\n    leaves = model.decision_path(X)\n    leaves = leaves[:, leaves_index]\n"},
    {"name": "range-left-lower", "file": _S, "rule": "C12.b", "old": "        if lr:\n            res[fn, 1] = min(res[fn, 1], th) if not numpy.isnan(res[fn, 1]) else th\n        else:\n            res[fn, 0] = max(res[fn, 0], th) if not numpy.isnan(res[fn, 0]) else th\n", "new": "        if lr:\n            res[fn, 0] = max(res[fn, 0], th) if not numpy.isnan(res[fn, 0]) else th\n        else:\n            res[fn, 1] = min(res[fn, 1], th) if not numpy.isnan(res[fn, 1]) else th\n"},
    {"name": "range-upper-max", "file": _S, "rule": "C12.b", "old": "res[fn, 1] = min(res[fn, 1], th)", "new": "res[fn, 1] = max(res[fn, 1], th)"},
    {"name": "range-right-child-flag", "file": _S, "rule": "C12.b", "old": "lr = tree.children_left[p] == path[ind + 1]", "new": "lr = tree.children_right[p] == path[ind + 1]"},
    {"name": "digitize-accepts-right-false", "file": _D, "rule": "C12.c", "old": "    if not right:\n        raise RuntimeError", "new": "    if right is None:\n        raise RuntimeError"},
    {"name": "digitize-desc-remap", "file": _D, "rule": "C12.c", "old": "cl.tree_.value[i, 0, 0] = n - cl.tree_.value[i, 0, 0]", "new": "cl.tree_.value[i, 0, 0] = n - 1 - cl.tree_.value[i, 0, 0]"},
    {"name": "digitize-value-after-recursion", "file": _D, "rule": "C12.c", "old": "                # split\n                values.append(UNUSED)\n                th = bins[i]\n                n = tree_add_node(tree, parent, is_left, False, 0, th, 0, 1, 1.0, 0)\n                n_nodes.append(n)\n                add_nodes(n, i, i, True)\n                add_nodes(n, i, j, False)\n", "new": "                # split\n                th = bins[i]\n                n = tree_add_node(tree, parent, is_left, False, 0, th, 0, 1, 1.0, 0)\n                n_nodes.append(n)\n                add_nodes(n, i, i, True)\n                values.append(UNUSED)\n                add_nodes(n, i, j, False)\n"},
    {"name": "digitize-right-leaf-value", "file": _D, "rule": "C12.c", "old": "                # leaf\n                values.append(j)\n", "new": "                # leaf\n                values.append(UNUSED)\n"},
    {"name": "digitize-split-range", "file": _D, "rule": "C12.c", "old": "                add_nodes(n, i, index, True)\n                add_nodes(n, index, j, False)\n                return n\n        else:", "new": "                add_nodes(n, i, index, True)\n                add_nodes(n, index + 1, j, False)\n                return n\n        else:"},
]
TWINS = []
MIN_WITNESSES = 10
