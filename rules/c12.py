"""C12 — tree utilities (structural part).

  C12.a  every leaf-enumeration site uses one of the two confirmed leaf
         predicates over the full node range; predict_leaves maps the argmax
         column back through the same leaves_index it selected columns with
  C12.b  tree_node_range orientation: going to the LEFT child tightens the UPPER
         bound with min, going right tightens the LOWER bound with max
         (scikit-learn routes x <= threshold to the left)
  C12.c  digitize2tree: refuses right=False; descending bins recurse on the
         reversed bins and remap values by len(bins) - v; in every branch of
         add_root/add_nodes exactly one tree_add_node and one values.append
         precede any recursive call; leaves pair with a value, splits with
         UNUSED and a threshold bins[...]

NOT decided: equality with numpy.digitize for every bins length, equality of
boxes with routed points (inductive) — see DESIGN.md.
"""

from __future__ import annotations

import ast
from typing import List, Optional

from engine.src import FunctionInfo, own_nodes, own_nodes_incl_lambda, src_of, AnalysisError
from engine.util import const_value, enclosing_tests

RULES = {
    "C12.a": "leaf enumeration sites share one of two confirmed leaf predicates over all nodes; predict_leaves maps argmax back through the same index list",
    "C12.b": "tree_node_range: left child -> upper bound (min), right child -> lower bound (max)",
    "C12.c": "digitize2tree: right=False refused; descending remap; one tree_add_node + one values.append per branch before recursion; leaf/value and split/UNUSED/threshold pairing",
}

TS = "mlinsights.mltree.tree_structure"
TD = "mlinsights.mltree.tree_digitize"

import re

_P1 = re.compile(r"^(?P<t>[\w\.]+)\.children_left\[(?P<i>\w+)\] == TREE_LEAF$")
_P2 = re.compile(r"^(?P<t>[\w\.]+)\.children_left\[(?P<i>\w+)\] <= (?P=i) and (?P=t)\.children_right\[(?P=i)\] <= (?P=i)$")


def _leaf_pred(test: ast.AST):
    t = src_of(test)
    m = _P1.match(t) or _P2.match(t)
    return (m.group("t"), m.group("i")) if m else None


def check_a(ck, repo):
    n = 0
    for fi in sorted(repo.all_functions.values(), key=lambda f: f.qualname):
        if not fi.module.name.startswith(("mlinsights.mltree", "mlinsights.mlmodel")):
            continue
        # comprehension form
        for c in own_nodes_incl_lambda(fi.node):
            if isinstance(c, ast.ListComp) and len(c.generators) == 1 and c.generators[0].ifs and "children_left" in src_of(c.generators[0].ifs[0]):
                g = c.generators[0]
                n += 1
                p = _leaf_pred(g.ifs[0])
                it = src_of(g.iter)
                if p is None:
                    ck.violated("C12.a", fi, c, f"leaf test {src_of(g.ifs[0])!r} is not one of the two confirmed leaf predicates: internal nodes are listed as leaves or leaves are missed")
                    continue
                tree, iv = p
                ok_iter = it in (f"range(len({tree}.children_left))", f"range({tree}.node_count)") and src_of(g.target) == iv and src_of(c.elt) == iv
                ck.verdict(ok_iter, "C12.a", fi, c, "all node ids are examined with a confirmed leaf predicate", f"the enumeration runs over {it!r}, not over every node id of {tree}")
            # loop form: for i in range(...): if <pred>: ...
            if isinstance(c, ast.For) and isinstance(c.target, ast.Name):
                for s in c.body:
                    if isinstance(s, ast.If) and "children_left" in src_of(s.test) and "TREE_LEAF" in src_of(s.test) or (isinstance(s, ast.If) and "children_left" in src_of(s.test) and "children_right" in src_of(s.test)):
                        n += 1
                        p = _leaf_pred(s.test)
                        if p is None:
                            ck.violated("C12.a", fi, s.test, f"leaf test {src_of(s.test)!r} is not one of the two confirmed leaf predicates")
                            continue
                        tree, iv = p
                        it = src_of(c.iter)
                        ck.verdict(it in (f"range({tree}.node_count)", f"range(len({tree}.children_left))") and iv == c.target.id, "C12.a", fi, s.test, "loop over all node ids with a confirmed leaf predicate", f"loop runs over {it!r}, not over every node id")
    # tree_leave_index: its test must be a confirmed leaf predicate (anchored site)
    tl = repo.func(TS, "tree_leave_index")
    tests = [x for x in own_nodes(tl.node) if isinstance(x, ast.If)]
    okp = len(tests) == 1 and _leaf_pred(tests[0].test) is not None
    ck.verdict(okp, "C12.a", tl, tests[0].test if tests else "if <leaf predicate>", "tree_leave_index selects nodes with a confirmed leaf predicate", f"tree_leave_index selects nodes with `{src_of(tests[0].test) if tests else None}`, which is not a leaf predicate (children_left[i] == TREE_LEAF, or both children <= i): a split node can be listed as a leaf")
    app = [src_of(s) for s in own_nodes(tl.node) if isinstance(s, ast.Expr)]
    ck.verdict("res.append(i)" in app, "C12.a", tl, "res.append(i)", "leaf ids collected", "tree_leave_index does not collect the leaf id")
    # tree_node_parents: both children recorded for internal nodes
    tp = repo.func(TS, "tree_node_parents")
    t = [src_of(s) for s in own_nodes(tp.node) if isinstance(s, ast.Assign)]
    ck.verdict("parents[tree.children_left[i]] = i" in t and "parents[tree.children_right[i]] = -i" in t, "C12.a", tp, "parents[left] = i; parents[right] = -i", "both children point to their parent", "tree_node_parents does not record both children of an internal node")
    # predict_leaves
    pl = repo.func(TS, "predict_leaves")
    st = [src_of(s) for s in sorted((x for x in own_nodes(pl.node) if isinstance(x, (ast.Assign, ast.Return))), key=lambda x: x.lineno)]
    want = ["leaves = model.decision_path(X)", "leaves = leaves[:, leaves_index]", "mat = numpy.argmax(leaves, 1)", "res = numpy.asarray(mat).ravel()", "res = numpy.array([leaves_index[r] for r in res])", "return res"]
    have = [s for s in st if s in want]
    ck.verdict(have == want, "C12.a", pl, "columns selected by leaves_index, argmax mapped back through leaves_index", "one index list selects the columns and translates the argmax back", f"predict_leaves no longer selects and translates with the same leaves_index (found {have})")
    return n


def check_b(ck, repo):
    fi = repo.func(TS, "tree_node_range")
    lr = [s for s in own_nodes(fi.node) if isinstance(s, ast.Assign) and src_of(s.targets[0]) == "lr"]
    ok = len(lr) == 1 and src_of(lr[0].value) in ("tree.children_left[p] == path[ind + 1]", "path[ind + 1] == tree.children_left[p]")
    ck.verdict(ok, "C12.b", fi, lr[0] if lr else "lr = tree.children_left[p] == path[ind + 1]", "lr is true iff the path continues into the left child", "the left/right flag is not `children_left[p] == next node on the path`")
    iff = [s for s in own_nodes(fi.node) if isinstance(s, ast.If) and src_of(s.test) == "lr"]
    if len(iff) != 1:
        ck.unknown("C12.b", fi, "if lr:", "orientation branch not found")
        return
    b, e = iff[0].body, iff[0].orelse
    okb = len(b) == 1 and src_of(b[0]) == "res[fn, 1] = min(res[fn, 1], th) if not numpy.isnan(res[fn, 1]) else th"
    oke = len(e) == 1 and src_of(e[0]) == "res[fn, 0] = max(res[fn, 0], th) if not numpy.isnan(res[fn, 0]) else th"
    ck.verdict(okb, "C12.b", fi, b[0] if b else "left branch", "left child: x <= th, so the upper bound (column 1) becomes min(upper, th)", "going left must tighten the UPPER bound with min: the box no longer contains exactly the points routed to the leaf")
    ck.verdict(oke, "C12.b", fi, e[0] if e else "right branch", "right child: x > th, so the lower bound (column 0) becomes max(lower, th)", "going right must tighten the LOWER bound with max")
    for nm, want in (("fn", "tree.feature[p]"), ("th", "tree.threshold[p]")):
        d = [s for s in own_nodes(fi.node) if isinstance(s, ast.Assign) and src_of(s.targets[0]) == nm]
        ck.verdict(len(d) == 1 and src_of(d[0].value) == want, "C12.b", fi, d[0] if d else f"{nm} = {want}", f"{nm} read from the split node p", f"{nm} is not {want}")
    stop = [s for s in own_nodes(fi.node) if isinstance(s, ast.If) and src_of(s.test) == "p == i" and any(isinstance(x, ast.Break) for x in s.body)]
    ck.verdict(len(stop) == 1, "C12.b", fi, "if p == i: break", "the node itself contributes no constraint", "the walk does not stop at the node itself")
    path = [s for s in own_nodes(fi.node) if isinstance(s, ast.Assign) and src_of(s.targets[0]) == "path"]
    ck.verdict(len(path) == 1 and src_of(path[0].value) == "tree_find_path_to_root(tree, i, parents)", "C12.b", fi, path[0] if path else "path = ...", "constraints come from the root-to-node path", "path is not the root-to-node path")


def check_c(ck, repo):
    fi = repo.func(TD, "digitize2tree")
    # right=False refused first
    first = [s for s in fi.node.body if not (isinstance(s, ast.Expr) and isinstance(s.value, ast.Constant))][0]
    ck.verdict(isinstance(first, ast.If) and src_of(first.test) == "not right" and isinstance(first.body[0], ast.Raise), "C12.c", fi, first.test if isinstance(first, ast.If) else first, "right=False is refused before anything is built", "digitize2tree no longer refuses right=False (a tree can only encode x <= threshold)")
    asc = [s for s in fi.node.body if isinstance(s, ast.Assign) and src_of(s.targets[0]) == "ascending"]
    ck.verdict(len(asc) == 1 and src_of(asc[0].value) == "len(bins) <= 1 or bins[0] < bins[1]", "C12.c", fi, asc[0] if asc else "ascending = ...", "direction decided from the first two edges", "direction test changed")
    desc = [s for s in fi.node.body if isinstance(s, ast.If) and src_of(s.test) == "not ascending"]
    if len(desc) != 1:
        ck.unknown("C12.c", fi, "if not ascending:", "descending branch not found")
    else:
        t = [src_of(s) for s in desc[0].body]
        ok = t[:3] == ["bins2 = bins[::-1]", "cl = digitize2tree(bins2, right=right)", "n = len(bins)"] and t[-1] == "return cl"
        loop = [s for s in desc[0].body if isinstance(s, ast.For)]
        okl = len(loop) == 1 and src_of(loop[0].iter) == "range(cl.tree_.value.shape[0])" and [src_of(x) for x in loop[0].body] == ["cl.tree_.value[i, 0, 0] = n - cl.tree_.value[i, 0, 0]"]
        ck.verdict(ok and okl, "C12.c", fi, desc[0].test, "descending bins: tree of the reversed bins with values remapped to len(bins) - v", "descending case is not `tree(reversed bins)` with every value v replaced by len(bins) - v")
    # branches of add_root / add_nodes
    for name in ("add_root", "add_nodes"):
        g = repo.nested(fi, name)
        branches = _terminal_blocks(g.node)
        for blk in branches:
            calls = [(s.lineno, "node") for s in blk if _has_call(s, "tree_add_node")] + [(s.lineno, "value") for s in blk if _has_call(s, "values.append")]
            rec = [s.lineno for s in blk if _has_call(s, "add_nodes")]
            label = f"{name} branch at line {blk[0].lineno}"
            if not calls and not rec:
                continue
            n_node = sum(1 for _, k in calls if k == "node")
            n_val = sum(1 for _, k in calls if k == "value")
            before = all(l < min(rec) for l, _ in calls) if rec else True
            ck.verdict(n_node == 1 and n_val == 1 and before, "C12.c", g, blk[0], f"{label}: one tree_add_node and one values.append before any recursive call (node ids and values stay aligned)", f"{label}: {n_node} tree_add_node / {n_val} values.append" + ("" if before else " after a recursive call") + ": values[k] no longer belongs to node k")
            # leaf/value and split/UNUSED pairing
            node_call = [c for s in blk for c in ast.walk(s) if isinstance(c, ast.Call) and src_of(c.func) == "tree_add_node"]
            val_call = [c for s in blk for c in ast.walk(s) if isinstance(c, ast.Call) and src_of(c.func) == "values.append"]
            if len(node_call) == 1 and len(val_call) == 1:
                a = node_call[0].args
                is_leaf = src_of(a[3]) if len(a) > 3 else None
                v = src_of(val_call[0].args[0])
                th = src_of(a[5]) if len(a) > 5 else None
                if is_leaf == "True":
                    ck.verdict(v != "UNUSED" and th == "0", "C12.c", g, node_call[0], f"{label}: leaf carries the bin number {v}", f"{label}: a leaf is stored with value {v}")
                elif is_leaf in ("False", "is_leaf"):
                    thdef = None
                    if th in ("th", "threshold"):
                        d = [s for s in blk if isinstance(s, ast.Assign) and src_of(s.targets[0]) == th]
                        thdef = src_of(d[0].value) if d else None
                    ck.verdict(v == "UNUSED" and thdef is not None and thdef.startswith("bins["), "C12.c", g, node_call[0], f"{label}: split node has no value and threshold {thdef}", f"{label}: a split node has value {v} / threshold {thdef}; expected UNUSED and bins[...]")
                ck.verdict(src_of(a[0]) == "tree" and src_of(a[1]) == "parent" and src_of(a[2]) == "is_left", "C12.c", g, f"{label}: tree_add_node(tree, parent, is_left, ...)", "node attached to its parent on the side it was built for", f"{label}: node is attached with ({', '.join(src_of(x) for x in a[:3])})")
        # recursive calls pass the new node as parent
        for c in [x for x in own_nodes_incl_lambda(g.node) if isinstance(x, ast.Call) and src_of(x.func) == "add_nodes"]:
            a = [src_of(x) for x in c.args]
            ck.verdict(a[0] == "n" and a[3] in ("True", "False"), "C12.c", g, c, "children are attached to the node just created", f"recursive call {a} does not attach to the node just created")
    # split recursion covers [i, index) left and [index, j) right
    an = repo.nested(fi, "add_nodes")
    recs = [[src_of(x) for x in c.args] for c in own_nodes_incl_lambda(an.node) if isinstance(c, ast.Call) and src_of(c.func) == "add_nodes"]
    want = sorted([["n", "i", "i", "True"], ["n", "i", "j", "False"], ["n", "i", "index", "True"], ["n", "index", "j", "False"], ["n", "i", "index", "True"], ["n", "index", "j", "False"]])
    ck.verdict(sorted(recs) == want, "C12.c", an, f"recursive calls {sorted(recs)}", "left child covers [i, index), right child [index, j)", f"recursive ranges changed: {sorted(recs)}")
    mids = [src_of(s.value) for s in own_nodes(an.node) if isinstance(s, ast.Assign) and src_of(s.targets[0]) == "index"]
    ck.verdict(mids == ["(i + j) // 2"] * len(mids) and len(mids) == 2, "C12.c", an, f"index = {mids}", "split at the middle edge", "split index is not (i + j) // 2")
    # top level
    body = [src_of(s) for s in fi.node.body]
    ok = all(x in body for x in ["index = len(bins) // 2", "add_root(index)", "add_nodes(0, 0, index, True)", "add_nodes(0, index, len(bins), False)", "cl.tree_.value[:, 0, 0] = numpy.array(values, dtype=numpy.float64)"])
    ck.verdict(ok, "C12.c", fi, "root at len(bins) // 2; values copied into tree_.value", "root split in the middle, both halves built, values installed in node order", "top-level construction changed")
    # pyx wrapper passes arguments through in order
    from engine import cysrc

    try:
        m = cysrc.parse(repo, "mlinsights/mltree/_tree_digitize.pyx")
        w = m.functions.get("tree_add_node")
        inner = m.functions.get("_tree_add_node")
        if w is None or inner is None:
            raise AnalysisError("anchor vanished: tree_add_node in _tree_digitize.pyx")
        params = [a.arg for a in w.args.args]
        r = [x for x in ast.walk(w) if isinstance(x, ast.Return)]
        ok = len(r) == 1 and isinstance(r[0].value, ast.Call) and [src_of(a) for a in r[0].value.args] == params
        ck.verdict(ok, "C12.c", None, "tree_add_node -> _tree_add_node(same arguments)", "wrapper forwards its arguments in order", "the Python wrapper reorders or drops arguments of _tree_add_node", file="mlinsights/mltree/_tree_digitize.pyx", function="tree_add_node", line=w.lineno)
        ip = [a.arg for a in inner.args.args]
        r = [x for x in ast.walk(inner) if isinstance(x, ast.Return)]
        ok = len(r) == 1 and isinstance(r[0].value, ast.Call) and src_of(r[0].value.func) == "tree._add_node" and [src_of(a) for a in r[0].value.args] == ip[1:]
        ck.verdict(ok, "C12.c", None, "_tree_add_node -> tree._add_node(parent, is_left, is_leaf, ...)", "arguments reach Tree._add_node in its own order", "arguments of Tree._add_node are reordered", file="mlinsights/mltree/_tree_digitize.pyx", function="_tree_add_node", line=inner.lineno)
    except ImportError as e:
        ck.unknown("C12.c", None, "Cython parser", str(e), file="-", function="-", line=0)


def _has_call(stmt, name):
    return any(isinstance(c, ast.Call) and src_of(c.func) == name for c in ast.walk(stmt)) and not isinstance(stmt, (ast.If, ast.For, ast.While))


def _terminal_blocks(fn: ast.AST) -> List[List[ast.stmt]]:
    """statement lists that contain no nested If (the leaves of the branch tree)"""
    out = []

    def rec(body):
        simple = [s for s in body if not isinstance(s, ast.If)]
        if simple and any(not (isinstance(s, ast.Expr) and isinstance(s.value, ast.Constant)) for s in simple):
            out.append(simple)
        for s in body:
            if isinstance(s, ast.If):
                rec(s.body)
                if s.orelse:
                    rec(s.orelse)

    rec(fn.body)
    return out


def run(ck):
    repo = ck.repo
    for k, v in RULES.items():
        ck.rule(k, v)
    n = check_a(ck, repo)
    check_b(ck, repo)
    check_c(ck, repo)
    ck.extra["leaf_enumeration_sites"] = n
    ck.require_count("C12.a", 5, "six leaf-enumeration sites + collection, parents, predict_leaves")
    ck.require_count("C12.b", 4, "lr, two branches, fn, th, stop, path")
    ck.require_count("C12.c", 15, "guards, descending, 6 branches x (counts, pairing, attach), recursion, top level, pyx wrappers")


_S = "mlinsights/mltree/tree_structure.py"
_D = "mlinsights/mltree/tree_digitize.py"
WITNESSES = [
    {"name": "leaves-index-right-child", "file": _S, "rule": "C12.a", "old": "    for i in range(tree.node_count):\n        if tree.children_left[i] == TREE_LEAF:\n            res.append(i)\n", "new": "    for i in range(tree.node_count):\n        if tree.children_left[i] <= TREE_LEAF + 1:\n            res.append(i)\n"},
    {"name": "leaves-skip-root", "file": _S, "rule": "C12.a", "old": "    for i in range(tree.node_count):\n        if tree.children_left[i] == TREE_LEAF:\n            res.append(i)\n", "new": "    for i in range(1, tree.node_count):\n        if tree.children_left[i] == TREE_LEAF:\n            res.append(i)\n"},
    {"name": "leaves-by-threshold-sentinel", "file": _S, "rule": "C12.a", "old": "        if tree.children_left[i] == TREE_LEAF:\n            res.append(i)\n", "new": "        if tree.threshold[i] == -2:\n            res.append(i)\n"},
    {"name": "predict-leaves-no-translate", "file": _S, "rule": "C12.a", "old": "    res = numpy.array([leaves_index[r] for r in res])\n", "new": "    res = numpy.array([r for r in res])\n"},
    {"name": "piecewise-leaf-predicate", "file": "mlinsights/mlmodel/piecewise_estimator.py", "rule": "C12.a", "old": "                if tree.children_left[i] <= i and tree.children_right[i] <= i\n", "new": "                if tree.children_left[i] <= i\n"},
    {"name": "range-left-lower", "file": _S, "rule": "C12.b", "old": "        if lr:\n            res[fn, 1] = min(res[fn, 1], th) if not numpy.isnan(res[fn, 1]) else th\n        else:\n            res[fn, 0] = max(res[fn, 0], th) if not numpy.isnan(res[fn, 0]) else th\n", "new": "        if lr:\n            res[fn, 0] = max(res[fn, 0], th) if not numpy.isnan(res[fn, 0]) else th\n        else:\n            res[fn, 1] = min(res[fn, 1], th) if not numpy.isnan(res[fn, 1]) else th\n"},
    {"name": "range-upper-max", "file": _S, "rule": "C12.b", "old": "res[fn, 1] = min(res[fn, 1], th)", "new": "res[fn, 1] = max(res[fn, 1], th)"},
    {"name": "range-right-child-flag", "file": _S, "rule": "C12.b", "old": "lr = tree.children_left[p] == path[ind + 1]", "new": "lr = tree.children_right[p] == path[ind + 1]"},
    {"name": "digitize-accepts-right-false", "file": _D, "rule": "C12.c", "old": "    if not right:\n        raise RuntimeError", "new": "    if right is None:\n        raise RuntimeError"},
    {"name": "digitize-desc-remap", "file": _D, "rule": "C12.c", "old": "cl.tree_.value[i, 0, 0] = n - cl.tree_.value[i, 0, 0]", "new": "cl.tree_.value[i, 0, 0] = n - 1 - cl.tree_.value[i, 0, 0]"},
    {"name": "digitize-value-after-recursion", "file": _D, "rule": "C12.c", "old": "                # split\n                values.append(UNUSED)\n                th = bins[i]\n                n = tree_add_node(tree, parent, is_left, False, 0, th, 0, 1, 1.0, 0)\n                n_nodes.append(n)\n                add_nodes(n, i, i, True)\n                add_nodes(n, i, j, False)\n", "new": "                # split\n                th = bins[i]\n                n = tree_add_node(tree, parent, is_left, False, 0, th, 0, 1, 1.0, 0)\n                n_nodes.append(n)\n                add_nodes(n, i, i, True)\n                values.append(UNUSED)\n                add_nodes(n, i, j, False)\n"},
    {"name": "digitize-right-leaf-value", "file": _D, "rule": "C12.c", "old": "                # leaf\n                values.append(j)\n", "new": "                # leaf\n                values.append(UNUSED)\n"},
    {"name": "digitize-split-range", "file": _D, "rule": "C12.c", "old": "                add_nodes(n, i, index, True)\n                add_nodes(n, index, j, False)\n                return n\n        else:", "new": "                add_nodes(n, i, index, True)\n                add_nodes(n, index + 1, j, False)\n                return n\n        else:"},
]
TWINS = []
MIN_WITNESSES = 10
