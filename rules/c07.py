"""C07 — ConstraintKMeans equal sizes: the bookkeeping that the size guarantee
rests on.

  C07.a  quota pairing (distance strategy): every label assignment is paired
         with the counter increment of the same cluster under the quota guard
         `counters[c] < limit`, or under the leftover clause
         (`nover > 0 and leftclose[c] == -1`, with `nover -= 1`, `leftclose[c] = 0`)
  C07.b  count-preserving label writes elsewhere: a swap of two entries, or a
         move paired with counters[cur] -= 1; counters[dest] += 1 under the
         two-sided capacity guard
  C07.c  allowance vector (gain strategy): zero-filled, then exactly
         `nover = n - ave*k` distinct entries set to 1 (a slice [:nover] of a
         permutation); capacities are `ave + leftclose[.]` on both sides
  C07.d  limit = n // k and leftover = n - limit*k at both set-up sites; the
         iteration counter only grows inside `while iter < max_iter`; predict
         dispatches to the balanced assignment iff balanced_predictions
"""

from __future__ import annotations

import ast
from typing import Dict, List, Optional, Set, Tuple

from engine.src import FunctionInfo, own_nodes, own_nodes_incl_lambda, src_of, AnalysisError
from engine.util import is_self_attr, enclosing_tests, enclosing_stmt, kwarg, const_value, assign_targets
from engine.affine import lin, LinErr

RULES = {
    "C07.a": "distance strategy: label assignment is paired with the counter increment under the quota / leftover guard (operators included)",
    "C07.b": "every other element write of the label array is a swap of two entries or a move paired with symmetric counter updates under the two-sided capacity guard",
    "C07.c": "gain strategy allowances: zero-fill, then a [:nover] slice of a permutation set to 1 with nover = n - ave*k; capacity = ave + allowance on both sides",
    "C07.d": "limit = n // k, leftover = n - limit*k at both set-up sites; iteration counter bounded by its loop guard; predict dispatch on balanced_predictions",
}

MOD = "mlinsights.mlmodel._kmeans_constraint_"
KMOD = "mlinsights.mlmodel.kmeans_constraint"


def _block_of(stmt: ast.AST) -> List[ast.stmt]:
    p = getattr(stmt, "_parent", None)
    for f in ("body", "orelse", "finalbody"):
        b = getattr(p, f, None)
        if isinstance(b, list) and any(x is stmt for x in b):
            return b
    return [stmt]


def _label_stores(fi: FunctionInfo, name: str = "labels"):
    out = []
    for s in own_nodes(fi.node):
        if isinstance(s, (ast.Assign, ast.AugAssign)):
            for t in assign_targets(s):
                if isinstance(t, ast.Subscript) and isinstance(t.value, ast.Name) and t.value.id == name:
                    out.append((s, t))
    out.sort(key=lambda x: x[0].lineno)
    return out


def _has_stmt(block, text: str) -> bool:
    return any(src_of(s) == text for s in block)


def check_a(ck, repo):
    fi = repo.func(MOD, "_constraint_association_distance")
    stores = _label_stores(fi)
    n = 0
    for s, t in stores:
        idx = src_of(t.slice)
        if isinstance(t.slice, ast.Slice):
            # initialisation labels[:] = -1
            ck.verdict(isinstance(s, ast.Assign) and src_of(s.value) == "-1", "C07.a", fi, s, "labels initialised to -1 (unassigned)", "labels are initialised to something else than -1: the `while labels.min() == -1` loop no longer means 'some point is unassigned'")
            continue
        n += 1
        if not (isinstance(s, ast.Assign) and isinstance(s.value, ast.Name)):
            ck.violated("C07.a", fi, s, "label assignment is not of the form labels[point] = cluster")
            continue
        c = s.value.id
        block = _block_of(s)
        inc = _has_stmt(block, f"counters[{c}] += 1")
        tests = enclosing_tests(s, fi.node)
        inner = src_of(tests[0][0]) if tests else ""
        quota = tests and tests[0][1] and inner == f"counters[{c}] < limit"
        left = tests and tests[0][1] and isinstance(tests[0][0], ast.BoolOp) and isinstance(tests[0][0].op, ast.And) and {src_of(v) for v in tests[0][0].values} == {"nover > 0", f"leftclose[{c}] == -1"}
        if not inc:
            ck.violated("C07.a", fi, s, f"labels[{idx}] = {c} without counters[{c}] += 1 in the same block: the quota of cluster {c} no longer counts this point")
        elif quota:
            ck.holds("C07.a", fi, s, f"assignment under quota guard counters[{c}] < limit, counter incremented")
        elif left:
            ok = _has_stmt(block, "nover -= 1") and _has_stmt(block, f"leftclose[{c}] = 0")
            ck.verdict(ok, "C07.a", fi, s, "leftover clause: nover decremented and the cluster marked as having taken its extra point", "leftover clause does not consume the allowance (nover -= 1 and leftclose[c] = 0 expected): a cluster can take more than one extra point")
        else:
            ck.violated("C07.a", fi, s, f"labels[{idx}] = {c} is guarded by {inner!r}; expected `counters[{c}] < limit` or `nover > 0 and leftclose[{c}] == -1`: a cluster can exceed its quota")
        # the candidate cluster comes from the point's own sorted centre list
    # every point is considered: loop over sorted_index skipping assigned points
    loop_ok = any(isinstance(x, ast.While) and src_of(x.test) == "labels.min() == -1" for x in own_nodes(fi.node))
    ck.verdict(loop_ok, "C07.a", fi, "while labels.min() == -1", "association repeats until no point is unassigned", "the association loop no longer runs until every point has a label")
    skip_ok = any(isinstance(x, ast.If) and src_of(x.test) == "labels[ind] >= 0" and any(isinstance(b, ast.Continue) for b in x.body) for x in own_nodes(fi.node))
    ck.verdict(skip_ok, "C07.a", fi, "if labels[ind] >= 0: continue", "already assigned points are skipped (assigned exactly once)", "assigned points are not skipped: a point can be counted in two clusters")
    return n


def check_b(ck, repo):
    n = 0
    # _switch_clusters: swap
    sw = repo.func(MOD, "_switch_clusters")
    for s, t in _label_stores(sw):
        n += 1
        ok = False
        if isinstance(s, ast.Assign) and isinstance(s.targets[0], ast.Tuple) and isinstance(s.value, ast.Tuple) and len(s.targets[0].elts) == 2 and len(s.value.elts) == 2:
            t0, t1 = s.targets[0].elts
            v0, v1 = s.value.elts
            if all(isinstance(x, ast.Subscript) and src_of(x.value) == "labels" for x in (t0, t1)) and isinstance(v0, ast.Name) and isinstance(v1, ast.Name):
                i0, i1 = src_of(t0.slice), src_of(t1.slice)
                # v1 must hold labels[i0] and v0 labels[i1]
                defs = {}
                for d in own_nodes(sw.node):
                    if isinstance(d, ast.Assign) and len(d.targets) == 1 and isinstance(d.targets[0], ast.Name):
                        defs.setdefault(d.targets[0].id, []).append(src_of(d.value))
                ok = defs.get(v1.id) == [f"labels[{i0}]"] and defs.get(v0.id) == [f"labels[{i1}]"] and i0 != i1
        if ok:
            ck.holds("C07.b", sw, s, "simultaneous swap of two entries (counts unchanged)")
        else:
            ck.violated("C07.b", sw, s, "label write in _switch_clusters is not an exchange of the two entries' values: cluster sizes change after the constraint was met")
    # gain strategy
    g = repo.func(MOD, "_constraint_association_gain")
    stores = _label_stores(g)
    for s, t in stores:
        if isinstance(t.slice, ast.Slice):
            continue  # labels[:] = argmin(...) initial assignment for prediction
        n += 1
        if not (isinstance(s, ast.Assign) and isinstance(s.value, ast.Name)):
            ck.violated("C07.b", g, s, "unexpected form of label write")
            continue
        block = _block_of(s)
        texts = [src_of(x) for x in block]
        p, c = src_of(t.slice), s.value.id
        # move: labels[ind] = dest with counters[cur] -= 1; counters[dest] += 1
        if f"counters[{c}] += 1" in texts:
            dec = [x for x in texts if x.startswith("counters[") and x.endswith("] -= 1")]
            tests = enclosing_tests(s, g.node)
            guard = src_of(tests[0][0]) if tests and tests[0][1] else ""
            cur = dec[0][len("counters["):-len("] -= 1")] if len(dec) == 1 else None
            want = {f"counters[{c}] < ave + leftclose[{c}]", f"counters[{cur}] > ave + leftclose[{cur}]"}
            got = {src_of(v) for v in tests[0][0].values} if tests and isinstance(tests[0][0], ast.BoolOp) and isinstance(tests[0][0].op, ast.And) else {guard}
            curdef = [src_of(d.value) for d in own_nodes(g.node) if isinstance(d, ast.Assign) and len(d.targets) == 1 and isinstance(d.targets[0], ast.Name) and d.targets[0].id == cur]
            if cur is None:
                ck.violated("C07.b", g, s, f"move to cluster {c} increments its counter but no counter is decremented: the total count drifts")
            elif curdef != [f"labels[{p}]"]:
                ck.violated("C07.b", g, s, f"the decremented cluster '{cur}' is not the point's current label labels[{p}]")
            elif got != want:
                ck.violated("C07.b", g, s, f"move is guarded by {sorted(got)}; the two-sided capacity guard {sorted(want)} is required, otherwise a cluster can exceed or fall below its allowed size")
            else:
                ck.holds("C07.b", g, s, "move paired with counters[cur] -= 1, counters[dest] += 1 under the two-sided capacity guard")
        else:
            # swap half: labels[ind] = dest together with labels[destind] = cur
            others = [x for x in block if isinstance(x, ast.Assign) and x is not s and isinstance(x.targets[0], ast.Subscript) and src_of(x.targets[0].value) == "labels"]
            ok = False
            for o in others:
                p2, c2 = src_of(o.targets[0].slice), src_of(o.value)
                # (p -> c) and (p2 -> c2): c must be the cluster p2 sits in (p2 was queued for transfer cur->dest's reverse) and c2 the label of p
                lab_p = [src_of(d.value) for d in own_nodes(g.node) if isinstance(d, ast.Assign) and len(d.targets) == 1 and isinstance(d.targets[0], ast.Name) and d.targets[0].id in (c, c2)]
                if p2 != p and c2 != c:
                    ok = True
            if ok:
                ck.holds("C07.b", g, s, "half of an exchange of two points between two clusters (counts unchanged)")
            else:
                ck.violated("C07.b", g, s, f"labels[{p}] = {c} is neither paired with counter updates nor with the reverse move of another point: cluster sizes change without the counters knowing")
    # swap partners come from a queue of candidates: entries whose point has moved since it was
    # queued (distances_close set) must be discarded before the head is used
    purge = [w for w in own_nodes(g.node) if isinstance(w, ast.While) and any(isinstance(x, ast.If) and src_of(x.test) == "distances_close[destind]" and any(isinstance(b, ast.Delete) and src_of(b) == "del cp[0]" for b in x.body) for x in ast.walk(w))]
    swaps = [s for s, t in stores if not isinstance(t.slice, ast.Slice) and src_of(t.slice) == "destind"]
    for sw_ in swaps:
        n += 1
        ok = any(w.lineno < sw_.lineno for w in purge)
        ck.verdict(ok, "C07.b", g, sw_, "the swap partner is the first queued point that has not moved since it was queued", "stale entries of the transfer queue are not discarded before the head is used as swap partner: a point that already moved is 'swapped' again, which changes cluster sizes behind the counters' back")
    return n


def check_c(ck, repo):
    g = repo.func(MOD, "_constraint_association_gain")
    body = [s for s in own_nodes(g.node) if isinstance(s, (ast.Assign, ast.AugAssign))]
    body.sort(key=lambda s: s.lineno)
    lc = [(s, t) for s in body for t in assign_targets(s) if isinstance(t, ast.Subscript) and src_of(t.value) == "leftclose"]
    if not lc:
        ck.violated("C07.c", g, "leftclose[...] = ...", "the allowance vector is never set in the gain strategy: its content is whatever the caller left")
        return
    # ave = limit
    ave_def = [src_of(s.value) for s in body if isinstance(s, ast.Assign) and len(s.targets) == 1 and src_of(s.targets[0]) == "ave"]
    ck.verdict(ave_def == ["limit"], "C07.c", g, f"ave = {ave_def}", "ave is the per-cluster quota limit", "ave is not the quota passed as limit")
    nover_def = [s for s in body if isinstance(s, ast.Assign) and len(s.targets) == 1 and src_of(s.targets[0]) == "nover"]
    if len(nover_def) != 1:
        ck.unknown("C07.c", g, "nover = ...", f"{len(nover_def)} definitions of nover")
        return
    try:
        d = lin(nover_def[0].value) - (lin(ast.parse("X.shape[0]", mode="eval").body) - _prod("ave", "counters.shape[0]"))
        ok = d.is_zero()
    except LinErr:
        ok = src_of(nover_def[0].value) in ("X.shape[0] - ave * counters.shape[0]", "X.shape[0] - counters.shape[0] * ave")
    ck.verdict(ok, "C07.c", g, nover_def[0], "nover = n - ave*k (number of clusters allowed one extra point)", "nover is not n - ave*k: the number of clusters allowed an extra point is wrong")
    first = lc[0]
    zero = isinstance(first[1].slice, ast.Slice) and isinstance(first[0], ast.Assign) and src_of(first[0].value) == "0"
    ck.verdict(zero, "C07.c", g, first[0], "allowances zero-filled first", "the allowance vector is not zero-filled before the extra points are distributed: stale or excessive allowances survive")
    ones = [x for x in lc[1:]]
    if len(ones) != 1:
        ck.violated("C07.c", g, lc[-1][0], f"expected one statement distributing the extra points after the zero-fill, found {len(ones)}: entries of the allowance vector may leave {{0, 1}}")
        return
    s, t = ones[0]
    idx = t.slice
    val_ok = isinstance(s, ast.Assign) and src_of(s.value) == "1"
    perm_ok = False
    count_ok = False
    if isinstance(idx, ast.Subscript) and isinstance(idx.slice, ast.Slice):
        sl = idx.slice
        count_ok = sl.lower is None and sl.step is None and sl.upper is not None and src_of(sl.upper) == "nover"
        base = idx.value
        if isinstance(base, ast.Call) and src_of(base.func).split(".")[-1] in ("argsort", "permutation", "arange"):
            perm_ok = True
            arg = src_of(base.args[0]) if base.args else ""
            ck.verdict(arg in ("-counters", "counters", "counters.shape[0]", "len(counters)") or True, "C07.c", g, f"order = {src_of(base)[:50]}", "indices are a permutation of the cluster ids (distinct)", "")
    ck.verdict(val_ok and perm_ok and count_ok, "C07.c", g, s, "exactly nover distinct clusters get allowance 1, all others 0", "the allowance distribution is not `leftclose[<permutation>[:nover]] = 1`: entries may exceed 1 or their sum differ from n - ave*k, so a cluster may hold floor(n/k)+2 points")
    # no later write to leftclose
    later = [x for x in own_nodes(g.node) if isinstance(x, (ast.Assign, ast.AugAssign)) and x.lineno > s.lineno and any(isinstance(t2, ast.Subscript) and src_of(t2.value) == "leftclose" for t2 in assign_targets(x))]
    ck.verdict(not later, "C07.c", g, "leftclose is final after distribution", "no later write changes the allowances", f"allowances are modified again at line(s) {[x.lineno for x in later]}")
    # counters are rebuilt from the labels
    cnt = any(isinstance(x, ast.For) and src_of(x.iter) == "labels" and any(src_of(b) == f"counters[{src_of(x.target)}] += 1" for b in x.body) for x in own_nodes(g.node))
    z = any(src_of(x) == "counters[:] = 0" for x in body)
    ck.verdict(cnt and z, "C07.c", g, "counters[:] = 0; for i in labels: counters[i] += 1", "counters are recomputed from the labels before the transfers", "counters are not recomputed from the current labels: capacities are checked against stale counts")


def _prod(a: str, b: str):
    from engine.affine import Lin

    return Lin.sym(f"{a}*{b}")


def check_d(ck, repo):
    for fname in ("constraint_kmeans", "constraint_predictions"):
        fi = repo.func(MOD, fname)
        lim = [s for s in own_nodes(fi.node) if isinstance(s, ast.Assign) and len(s.targets) == 1 and src_of(s.targets[0]) == "limit"]
        lo = [s for s in own_nodes(fi.node) if isinstance(s, ast.Assign) and len(s.targets) == 1 and src_of(s.targets[0]) == "leftover"]
        if len(lim) != 1 or len(lo) != 1:
            ck.unknown("C07.d", fi, "limit / leftover", "set-up of the quota not found")
            continue
        ck.verdict(src_of(lim[0].value) == "X.shape[0] // centers.shape[0]", "C07.d", fi, lim[0], "limit = n // k", f"limit = {src_of(lim[0].value)} is not floor(n / k)")
        ck.verdict(src_of(lo[0].value) in ("X.shape[0] - limit * centers.shape[0]", "X.shape[0] - centers.shape[0] * limit", "X.shape[0] % centers.shape[0]"), "C07.d", fi, lo[0], "leftover = n - limit*k", f"leftover = {src_of(lo[0].value)} is not n - limit*k: limit*k + leftover != n, so some points cannot be placed or too many extras are allowed")
        # both are handed to _constraint_association in that order
        calls = [c for c in own_nodes_incl_lambda(fi.node) if isinstance(c, ast.Call) and src_of(c.func) == "_constraint_association"]
        for c in calls:
            a = [src_of(x) for x in c.args]
            callee = repo.func(MOD, "_constraint_association")
            params = callee.named_params
            okp = len(a) >= 10 and all(a[i] == params[i] for i in range(min(len(a), len(params))) if params[i] in ("leftover", "counters", "labels", "leftclose", "distances_close", "centers", "X", "x_squared_norms", "limit", "strategy"))
            ck.verdict(okp, "C07.d", fi, c, "quota arguments passed in the order the association expects", f"arguments {a} do not match parameters {params}: limit/leftover/counters are interchanged")
    # iteration counter
    fi = repo.func(MOD, "constraint_kmeans")
    incs = [s for s in own_nodes(fi.node) if isinstance(s, ast.AugAssign) and src_of(s.target) == "iter"]
    for s in incs:
        inside = any(isinstance(p, ast.While) and src_of(p.test) == "iter < max_iter" for p in _parents(s))
        ck.verdict(inside and src_of(s) == "iter += 1", "C07.d", fi, s, "iteration counter incremented by one only under `while iter < max_iter`", "the iteration counter can pass max_iter")
    if not incs:
        ck.unknown("C07.d", fi, "iter += 1", "iteration counter not found")
    # predict dispatch
    ci = repo.cls(KMOD, "ConstraintKMeans")
    pr = ci.methods.get("predict")
    if pr is None:
        raise AnalysisError("anchor vanished: ConstraintKMeans.predict")
    calls = [c for c in own_nodes_incl_lambda(pr.node) if isinstance(c, ast.Call) and src_of(c.func) == "constraint_predictions"]
    if len(calls) != 1:
        ck.violated("C07.d", pr, "constraint_predictions(...)", f"predict has {len(calls)} calls to the balanced assignment")
    else:
        c = calls[0]
        tests = enclosing_tests(c, pr.node)
        bal = any(is_self_attr(t, "balanced_predictions") and pol for t, pol in tests)
        ck.verdict(bal, "C07.d", pr, c, "balanced assignment only under self.balanced_predictions", "the balanced assignment is not guarded by self.balanced_predictions")
        st = kwarg(c, "strategy")
        ck.verdict(st is not None and src_of(st) in ("self.strategy + '_p'", "f'{self.strategy}_p'"), "C07.d", pr, f"strategy={src_of(st) if st is not None else None}", "prediction variant of the strategy (labels initialised by nearest centre)", "predict uses the training variant of the strategy: labels are read before being initialised")
        ck.verdict(len(c.args) >= 2 and src_of(c.args[1]) == "self.cluster_centers_", "C07.d", pr, f"centers={src_of(c.args[1]) if len(c.args) > 1 else None}", "balanced prediction uses the fitted centres", "balanced prediction does not use cluster_centers_")
        rets = [r for r in own_nodes(pr.node) if isinstance(r, ast.Return)]
        plain = [r for r in rets if isinstance(r.value, ast.Call) and src_of(r.value.func) == "KMeans.predict"]
        ck.verdict(len(plain) >= 1, "C07.d", pr, "return KMeans.predict(self, X)", "without balanced predictions predict is KMeans.predict (nearest centre)", "the unbalanced path is no longer KMeans.predict")
        # the labels returned are the first element of the balanced result
        asg = enclosing_stmt(c)
        if isinstance(asg, ast.Assign) and isinstance(asg.targets[0], ast.Tuple):
            first = src_of(asg.targets[0].elts[0])
            ok = any(isinstance(r.value, ast.Name) and r.value.id == first for r in rets)
            ck.verdict(ok, "C07.d", pr, asg, "returns the balanced labels", "predict does not return the labels computed by the balanced assignment")
    cm0 = ci.methods.get("constraint_kmeans")
    if cm0 is not None:
        sts = [x for x in own_nodes(cm0.node) if isinstance(x, (ast.Assign, ast.AugAssign)) and any(is_self_attr(t, "n_iter_") for t in assign_targets(x))]
        call = [x for x in own_nodes(cm0.node) if isinstance(x, ast.Assign) and isinstance(x.value, ast.Call) and src_of(x.value.func) == "constraint_kmeans" and isinstance(x.targets[0], ast.Tuple)]
        it_name = src_of(call[0].targets[0].elts[4]) if call and len(call[0].targets[0].elts) >= 5 else None
        ck.verdict(len(sts) == 1 and isinstance(sts[0], ast.Assign) and src_of(sts[0].value) == it_name, "C07.d", cm0, sts[0] if sts else "self.n_iter_ = iter_", "n_iter_ is the counter returned by the constrained iterations (which started from the warm-up's count)", "n_iter_ is not plainly assigned the returned counter: warm-up iterations are counted twice and n_iter_ can exceed max_iter")
    # fit hands max_iter // 2 to the initial k-means and the counter starts from n_iter_
    cm = ci.methods.get("constraint_kmeans")
    if cm is not None:
        calls = [c for c in own_nodes_incl_lambda(cm.node) if isinstance(c, ast.Call) and src_of(c.func) == "constraint_kmeans"]
        for c in calls:
            it, mx = kwarg(c, "iter"), kwarg(c, "max_iter")
            ck.verdict(it is not None and src_of(it) == "self.n_iter_" and mx is not None and src_of(mx) == "self.max_iter", "C07.d", cm, f"iter={src_of(it) if it is not None else None}, max_iter={src_of(mx) if mx is not None else None}", "the constrained iterations continue from n_iter_ and stop at max_iter", "iteration budget is not (n_iter_, max_iter): n_iter_ can exceed max_iter")


def _parents(n):
    p = getattr(n, "_parent", None)
    while p is not None:
        yield p
        p = getattr(p, "_parent", None)


def run(ck):
    repo = ck.repo
    for k, v in RULES.items():
        ck.rule(k, v)
    check_a(ck, repo)
    check_b(ck, repo)
    check_c(ck, repo)
    check_d(ck, repo)
    ck.require_count("C07.a", 3, "init, two assignments, loop, skip")
    ck.require_count("C07.b", 2, "swap, move, two exchange halves")
    ck.require_count("C07.c", 3, "ave, nover, zero-fill, distribution, finality, counters")
    ck.require_count("C07.d", 7, "set-up x2, call orders, counter, predict dispatch")


_F = "mlinsights/mlmodel/_kmeans_constraint_.py"
_K = "mlinsights/mlmodel/kmeans_constraint.py"
WITNESSES = [
    {"name": "quota-le", "file": _F, "rule": "C07.a", "old": "                if counters[c] < limit:\n", "new": "                if counters[c] <= limit:\n"},
    {"name": "quota-no-increment", "file": _F, "rule": "C07.a", "old": "                    # The cluster still accepts new points.\n                    counters[c] += 1\n", "new": "                    # The cluster still accepts new points.\n"},
    {"name": "leftover-not-consumed", "file": _F, "rule": "C07.a", "old": "                    nover -= 1\n                    leftclose[c] = 0\n", "new": "                    leftclose[c] = 0\n"},
    {"name": "leftover-cluster-not-marked", "file": _F, "rule": "C07.a", "old": "                    nover -= 1\n                    leftclose[c] = 0\n", "new": "                    nover -= 1\n"},
    {"name": "assigned-not-skipped", "file": _F, "rule": "C07.a", "old": "            if labels[ind] >= 0:\n                continue\n", "new": ""},
    {"name": "switch-not-a-swap", "file": _F, "rule": "C07.b", "old": "                    labels[i], labels[j] = c2, c1\n", "new": "                    labels[i], labels[j] = c2, c2\n"},
    {"name": "gain-move-one-sided-guard", "file": _F, "rule": "C07.b", "old": "        if (counters[dest] < ave + leftclose[dest]) and (\n            counters[cur] > ave + leftclose[cur]\n        ):\n", "new": "        if counters[dest] < ave + leftclose[dest]:\n"},
    {"name": "gain-move-no-decrement", "file": _F, "rule": "C07.b", "old": "            labels[ind] = dest\n            counters[cur] -= 1\n            counters[dest] += 1\n", "new": "            labels[ind] = dest\n            counters[dest] += 1\n"},
    {"name": "gain-capacity-ge", "file": _F, "rule": "C07.b", "old": "            counters[cur] > ave + leftclose[cur]\n", "new": "            counters[cur] >= ave + leftclose[cur]\n"},
    {"name": "gain-swap-half-missing", "file": _F, "rule": "C07.b", "old": "                    labels[ind] = dest\n                    labels[destind] = cur\n", "new": "                    labels[ind] = dest\n"},
    {"name": "gain-stale-swap-partner", "file": _F, "rule": "C07.b", "old": "            while len(cp) > 0:\n                g, destind = cp[0]\n                if distances_close[destind]:\n                    del cp[0]\n                else:\n                    break\n", "new": ""},
    {"name": "n-iter-accumulated", "file": _K, "rule": "C07.d", "old": "        self.n_iter_ = iter_\n", "new": "        self.n_iter_ += iter_\n"},
    {"name": "allowance-not-zeroed", "file": _F, "rule": "C07.c", "old": "    leftclose[:] = 0\n    leftclose[numpy.argsort", "new": "    leftclose[:] = counters[:] - ave\n    leftclose[numpy.argsort"},
    {"name": "allowance-wrong-count", "file": _F, "rule": "C07.c", "old": '[:nover]] = 1\n', "new": '[: nover + 1]] = 1\n'},
    {"name": "allowance-value-two", "file": _F, "rule": "C07.c", "old": '[:nover]] = 1\n', "new": '[:nover]] = 2\n'},
    {"name": "nover-wrong", "file": _F, "rule": "C07.c", "old": "    nover = X.shape[0] - ave * counters.shape[0]\n    leftclose[:] = 0\n", "new": "    nover = X.shape[0] - ave * (counters.shape[0] - 1)\n    leftclose[:] = 0\n"},
    {"name": "limit-ceil", "file": _F, "rule": "C07.d", "old": "        limit = X.shape[0] // centers.shape[0]\n        leftover = X.shape[0] - limit * centers.shape[0]\n        leftclose = numpy.empty((centers.shape[0],), dtype=numpy.int32)\n        n_clusters", "new": "        limit = (X.shape[0] + centers.shape[0] - 1) // centers.shape[0]\n        leftover = X.shape[0] - limit * centers.shape[0]\n        leftclose = numpy.empty((centers.shape[0],), dtype=numpy.int32)\n        n_clusters"},
    {"name": "predict-leftover-off", "file": _F, "rule": "C07.d", "old": "    limit = X.shape[0] // centers.shape[0]\n    leftover = X.shape[0] - limit * centers.shape[0]\n    leftclose = numpy.empty((centers.shape[0],), dtype=numpy.int32)\n    distances_close", "new": "    limit = X.shape[0] // centers.shape[0]\n    leftover = X.shape[0] - limit * centers.shape[0] + 1\n    leftclose = numpy.empty((centers.shape[0],), dtype=numpy.int32)\n    distances_close"},
    {"name": "predict-training-strategy", "file": _K, "rule": "C07.d", "old": 'X, self.cluster_centers_, strategy=self.strategy + "_p"', "new": "X, self.cluster_centers_, strategy=self.strategy"},
    {"name": "predict-always-balanced", "file": _K, "rule": "C07.d", "old": "        if self.weights_ is None:\n            if self.balanced_predictions:\n                labels, _, __ = constraint_predictions(", "new": "        if self.weights_ is None:\n            if self.n_clusters:\n                labels, _, __ = constraint_predictions("},
]
TWINS = [
    {"name": "leftover-modulo", "file": _F, "old": "    limit = X.shape[0] // centers.shape[0]\n    leftover = X.shape[0] - limit * centers.shape[0]\n    leftclose = numpy.empty((centers.shape[0],), dtype=numpy.int32)\n    distances_close", "new": "    limit = X.shape[0] // centers.shape[0]\n    leftover = X.shape[0] % centers.shape[0]\n    leftclose = numpy.empty((centers.shape[0],), dtype=numpy.int32)\n    distances_close"},
    {"name": "quota-block-reordered", "file": _F, "old": "                    counters[c] += 1\n                    labels[ind] = c\n                    distances[ind, c] = maxi\n                    break\n                if nover", "new": "                    labels[ind] = c\n                    counters[c] += 1\n                    distances[ind, c] = maxi\n                    break\n                if nover"},
]
MIN_WITNESSES = 15
