"""C07 — ConstraintKMeans equal sizes: the bookkeeping that the size guarantee
rests on.

  C07.a  quota pairing (distance strategy): every label assignment is paired
         with the counter increment of the same cluster under the quota guard
         `counters[c] < limit`, or under the leftover clause
         (`nover > 0 and leftclose[c] == -1`, with `nover -= 1`, `leftclose[c] = 0`)
  C07.b  count-preserving label writes elsewhere: a swap of two entries, or a
         move paired with counters[cur] -= 1; counters[dest] += 1 under the
         two-sided capacity guard
  C07.c  allowance vector (gain strategy): zero-filled, then exactly
         `nover = n - ave*k` distinct entries set to 1 (a slice [:nover] of a
         permutation); capacities are `ave + leftclose[.]` on both sides
  C07.d  limit = n // k and leftover = n - limit*k at both set-up sites; the
         iteration counter only grows inside `while iter < max_iter`; predict
         dispatches to the balanced assignment iff balanced_predictions
"""

from __future__ import annotations

import ast
from typing import Dict, List, Optional, Set, Tuple

from engine.src import FunctionInfo, own_nodes, own_nodes_incl_lambda, src_of, AnalysisError
from engine.util import is_self_attr, enclosing_tests, enclosing_stmt, kwarg, const_value, assign_targets
from engine.affine import lin, LinErr
from .sem import opaque_helpers_in, defs_texts, expander, ctext, want, cond_want, conds_at, bind, calls, returns, stmt_of, self_attr_value_texts
from engine.guards import cond_text

RULES = {
    "C07.a": "distance strategy: label assignment is paired with the counter increment under the quota / leftover guard (operators included)",
    "C07.b": "every other element write of the label array is a swap of two entries or a move paired with symmetric counter updates under the two-sided capacity guard",
    "C07.c": "gain strategy allowances: zero-fill, then a [:nover] slice of a permutation set to 1 with nover = n - ave*k; capacity = ave + allowance on both sides",
    "C07.d": "limit = n // k, leftover = n - limit*k at both set-up sites; iteration counter bounded by its loop guard; predict dispatch on balanced_predictions",
}

MOD = "mlinsights.mlmodel._kmeans_constraint_"
KMOD = "mlinsights.mlmodel.kmeans_constraint"


def _parents_of(n: ast.AST):
    p = getattr(n, "_parent", None)
    while p is not None:
        yield p
        p = getattr(p, "_parent", None)


def _block_of(stmt: ast.AST) -> List[ast.stmt]:
    p = getattr(stmt, "_parent", None)
    for f in ("body", "orelse", "finalbody"):
        b = getattr(p, f, None)
        if isinstance(b, list) and any(x is stmt for x in b):
            return b
    return [stmt]


# parameter positions shared by _constraint_association and its two strategies
P_LEFTOVER, P_COUNTERS, P_LABELS, P_LEFTCLOSE, P_DCLOSE, P_CENTERS, P_X, P_NORMS, P_LIMIT, P_STRATEGY = range(10)


def _pn(fi: FunctionInfo, pos: int) -> str:
    ps = fi.named_params
    if len(ps) <= pos:
        raise AnalysisError(f"anchor vanished: parameter #{pos} of {fi.name}")
    return ps[pos]


def _label_stores(fi: FunctionInfo, name: str = "labels"):
    out = []
    for s in own_nodes(fi.node):
        if isinstance(s, (ast.Assign, ast.AugAssign)):
            for t in assign_targets(s):
                if isinstance(t, ast.Subscript) and isinstance(t.value, ast.Name) and t.value.id == name:
                    out.append((s, t))
    out.sort(key=lambda x: x[0].lineno)
    return out


def _effects(repo, fi: FunctionInfo, block, at: ast.AST):
    """normalised element updates of a statement list, every index/value
    expanded at statement `at` (the state before the block's own writes):
       ('inc', array, index, +-k, stmt, raw index, None)   A[i] += k | A[i] -= k | A[i] = A[i] +- k
       ('set', array, index, value, stmt, raw index, raw value)   A[i] = v (also in tuple assignments)
       ('ninc', name, None, +-k, stmt, None, None)         n += k | n -= k | n = n +- k
    A call `helper(a, b)` of a nested function whose body is a straight line of
    such updates contributes the helper's updates with its parameters bound
    (raw = source text in the caller's terms, when the helper uses a parameter)."""
    ex = expander(repo)
    out = []
    _effects_into(repo, fi, block, at, ex, out, None)
    return out


def _effects_into(repo, fi, block, at, ex, out, inl):
    # inl: None, or (callee FunctionInfo, {param: caller arg ast}, call statement)
    def X(e):
        if inl is None:
            return ex.text(e, fi, at)
        callee, binding, _ = inl
        b = {k: ex.expr(v, fi, at) for k, v in binding.items()}
        r = ex.expr(e, callee, callee.node.body[-1], b)
        if ex.post is not None:
            r = ex.post(r)
        from engine import norm as _n
        return ast.unparse(_n.canon(r, rename=False))

    def RAW(e):
        if inl is None:
            return src_of(e)
        _, binding, _ = inl
        if isinstance(e, ast.Name) and e.id in binding:
            return src_of(binding[e.id])
        if not any(isinstance(n, ast.Name) and n.id in binding for n in ast.walk(e)):
            return src_of(e)
        return None

    def const(e):
        return e.value if isinstance(e, ast.Constant) and isinstance(e.value, int) and not isinstance(e.value, bool) else None

    for s in block:
        st = s if inl is None else inl[2]
        if isinstance(s, ast.AugAssign) and isinstance(s.op, (ast.Add, ast.Sub)) and const(s.value) is not None:
            k = const(s.value) * (1 if isinstance(s.op, ast.Add) else -1)
            if isinstance(s.target, ast.Subscript) and isinstance(s.target.value, ast.Name):
                out.append(("inc", s.target.value.id, X(s.target.slice), k, st, RAW(s.target.slice), None))
            elif isinstance(s.target, ast.Name):
                out.append(("ninc", s.target.id, None, k, st, None, None))
        elif isinstance(s, ast.Assign):
            pairs = []
            for t in s.targets:
                if isinstance(t, (ast.Tuple, ast.List)) and isinstance(s.value, (ast.Tuple, ast.List)) and len(t.elts) == len(s.value.elts):
                    pairs += list(zip(t.elts, s.value.elts))
                else:
                    pairs.append((t, s.value))
            for t, v in pairs:
                if isinstance(t, ast.Subscript) and isinstance(t.value, ast.Name):
                    if isinstance(v, ast.BinOp) and isinstance(v.op, (ast.Add, ast.Sub)) and const(v.right) is not None and src_of(v.left) == src_of(t):
                        out.append(("inc", t.value.id, X(t.slice), const(v.right) * (1 if isinstance(v.op, ast.Add) else -1), st, RAW(t.slice), None))
                    else:
                        out.append(("set", t.value.id, X(t.slice) if not isinstance(t.slice, ast.Slice) else ":", X(v), st, RAW(t.slice) if not isinstance(t.slice, ast.Slice) else ":", RAW(v)))
                elif isinstance(t, ast.Name) and isinstance(v, ast.BinOp) and isinstance(v.op, (ast.Add, ast.Sub)) and const(v.right) is not None and isinstance(v.left, ast.Name) and v.left.id == t.id:
                    out.append(("ninc", t.id, None, const(v.right) * (1 if isinstance(v.op, ast.Add) else -1), st, None, None))
        elif inl is None and isinstance(s, ast.Expr) and isinstance(s.value, ast.Call) and isinstance(s.value.func, ast.Name):
            callee = _local_helper(repo, fi, s.value.func.id)
            if callee is not None:
                body = [b for b in callee.node.body if not (isinstance(b, ast.Expr) and isinstance(b.value, ast.Constant))]
                if all(isinstance(b, (ast.Assign, ast.AugAssign)) for b in body):
                    _effects_into(repo, fi, body, at, ex, out, (callee, bind(s.value, callee.named_params), s))


def _local_helper(repo, fi: FunctionInfo, name: str) -> Optional[FunctionInfo]:
    p = fi
    while p is not None:
        f = repo.all_functions.get(p.qualname + ".<locals>." + name)
        if f is not None:
            return f
        p = p.parent
    return None


def _label_events(repo, fi: FunctionInfo, L: str):
    """statements that write an element of the label array: direct stores and
    calls of a straight-line nested helper that stores into it.
    -> [(statement, [its 'set' effects on L])]"""
    out = []
    for s in sorted((x for x in own_nodes(fi.node) if isinstance(x, (ast.Assign, ast.AugAssign, ast.Expr))), key=lambda x: x.lineno):
        eff = [e for e in _effects(repo, fi, [s], s) if e[0] == "set" and e[1] == L]
        if eff:
            out.append((s, eff))
        elif isinstance(s, ast.AugAssign) and isinstance(s.target, ast.Subscript) and src_of(s.target.value) == L:
            out.append((s, []))
    return out


def _x_at(repo, fi, src: str, at) -> str:
    return want(repo, src, fi, at)


def check_a(ck, repo):
    fi = repo.func(MOD, "_constraint_association_distance")
    L, C, LC, LIM, LO = _pn(fi, P_LABELS), _pn(fi, P_COUNTERS), _pn(fi, P_LEFTCLOSE), _pn(fi, P_LIMIT), _pn(fi, P_LEFTOVER)
    ex = expander(repo)
    n = 0
    # an extra slot taken is an extra slot less: wherever a cluster is marked as having taken
    # its extra point, the count of remaining extras goes down in the same block
    for st_ in own_nodes(fi.node):
        if isinstance(st_, ast.Assign) and len(st_.targets) == 1 and isinstance(st_.targets[0], ast.Subscript) and src_of(st_.targets[0].value) == LC and not isinstance(st_.targets[0].slice, ast.Slice) and src_of(st_.value) not in ("-1",):
            if not any(isinstance(p_, (ast.For, ast.While)) for p_ in _parents_of(st_)):
                continue
            eff_ = _effects(repo, fi, _block_of(st_), st_)
            decs_ = [e for e in eff_ if e[0] == "ninc" and e[3] == -1]
            ok_ = any([tx for _, tx in defs_texts(repo, fi, d_[1])][:1] == [LO] or LO in [tx for _, tx in defs_texts(repo, fi, d_[1])] for d_ in decs_)
            ck.verdict(ok_, "C07.a", fi, st_, f"{src_of(st_)} is paired with a decrement of the remaining extras in the same block", f"{src_of(st_)} marks the cluster as having taken its extra point but the number of extras left (initialised to {LO}) is not decremented in the same block: every full cluster can take an extra point, not only {LO} of them, so sizes exceed ceil(n/k)")
    for s, sets in _label_events(repo, fi, L):
        if len(sets) != 1:
            ck.violated("C07.a", fi, s, "label assignment is not of the form labels[point] = cluster")
            continue
        _, _, ix, cx, _, idx, c = sets[0]
        if ix == ":":
            ck.verdict(cx == "-1", "C07.a", fi, s, "labels initialised to -1 (unassigned)", "labels are initialised to something else than -1: 'some point is unassigned' is no longer `a label is -1`")
            continue
        n += 1
        if idx is None or c is None:
            ck.unknown("C07.a", fi, s, "cannot express the point / cluster of this assignment in the caller's terms")
            continue
        eff = _effects(repo, fi, _block_of(s), s)
        inc = [e for e in eff if e[0] == "inc" and e[1] == C and e[2] == cx]
        conds = conds_at(repo, fi, s)
        quota = cond_want(repo, f"{C}[{c}] < {LIM}", fi, s) in conds
        decs = [e for e in eff if e[0] == "ninc" and e[3] == -1]
        left = None
        for d in decs:
            N = d[1]
            if cond_want(repo, f"{N} > 0", fi, s) in conds and cond_want(repo, f"{LC}[{c}] == -1", fi, s) in conds:
                left = N
        if len(inc) != 1 or inc[0][3] != 1:
            ck.violated("C07.a", fi, s, f"{L}[{idx}] = {c} without exactly one {C}[{c}] += 1 in the same block: the quota of cluster {c} no longer counts this point")
        elif quota:
            ck.holds("C07.a", fi, s, f"assignment where {C}[{c}] < {LIM}, counter incremented")
        elif left is not None:
            marks = [e for e in eff if e[0] == "set" and e[1] == LC and e[2] == cx and e[3] != "-1"]
            inits = [tx for _, tx in defs_texts(repo, fi, left)]
            ck.verdict(len(marks) == 1 and inits == [LO], "C07.a", fi, s, f"leftover clause: {left} (initialised to {LO}) decremented and the cluster marked as having taken its extra point", f"leftover clause does not consume the allowance ({left} = {LO} initially, {left} -= 1 and {LC}[{c}] marked expected): a cluster can take more than one extra point")
        elif opaque_helpers_in(repo, fi, [cx] + [t_ for t_, _p in conds]):
            hs = opaque_helpers_in(repo, fi, [cx] + [t_ for t_, _p in conds])
            ck.unknown("C07.a", fi, s, f"the cluster of this assignment is chosen by {hs[0]}(), a helper whose search loop returns from inside: the quota and leftover tests it applies are not looked through, so the pairing of this assignment with them is not decided")
        else:
            ck.violated("C07.a", fi, s, f"{L}[{idx}] = {c} is executed where {sorted(conds)[:4]}; expected `{C}[{c}] < {LIM}` or `<remaining extras> > 0 and {LC}[{c}] == -1` (with the extras decremented in the same block): a cluster can exceed its quota")
        unassigned = {cond_want(repo, f"{L}[{idx}] >= 0", fi, s, False), cond_want(repo, f"{L}[{idx}] == -1", fi, s), cond_want(repo, f"{L}[{idx}] != -1", fi, s, False)}
        ck.verdict(any(u in conds for u in unassigned), "C07.a", fi, f"{src_of(s)} only if unassigned", "already assigned points are skipped (assigned exactly once)", "assigned points are not skipped: a point can be counted in two clusters")
    loops = [w for w in own_nodes(fi.node) if isinstance(w, ast.While)]
    okl = any(ctext(src_of(w.test)) in {ctext(f"{L}.min() == -1"), ctext(f"{L}.min() < 0"), ctext(f"({L} == -1).any()"), ctext(f"({L} < 0).any()"), ctext(f"-1 in {L}")} for w in loops)
    ck.verdict(okl, "C07.a", fi, f"while {L}.min() == -1", "association repeats until no point is unassigned", "the association loop no longer runs until every point has a label")
    return n


def check_b(ck, repo):
    n = 0
    ex = expander(repo)
    # exchanges: _switch_clusters (labels) and _randomize_index (the order in which points are served)
    for fname, what, bad in (
        ("_switch_clusters", "label", "label write in _switch_clusters is not an exchange of the two entries' values: cluster sizes change after the constraint was met"),
        ("_randomize_index", "index", "_randomize_index does not exchange two entries of the index: a point is lost from (or duplicated in) the order in which points are served, so it is assigned late or twice"),
    ):
        sw = repo.func(MOD, fname)
        L = _pn(sw, 0)
        done = set()
        n_sw = 0
        for s, t in _label_stores(sw, L):
            if id(s) in done:
                continue
            done.add(id(s))
            n += 1
            n_sw += 1
            sets = [e for e in _effects(repo, sw, _block_of(s), s) if e[0] == "set" and e[1] == L]
            ok = False
            if len(sets) == 2:
                (_, _, p1, v1, s1, r1, _), (_, _, p2, v2, s2, r2, _) = sets
                if r1 is not None and r2 is not None and p1 != p2:
                    ok = v1 == _x_at(repo, sw, f"{L}[{r2}]", s) and v2 == _x_at(repo, sw, f"{L}[{r1}]", s)
            if ok:
                ck.holds("C07.b", sw, s, f"exchange of the two entries' values ({what}s keep their multiset)")
            else:
                ck.violated("C07.b", sw, s, bad)
        if n_sw == 0:
            ck.unknown("C07.b", sw, f"{L}[..], {L}[..] = ..", f"no write of the {what} array found in {fname}")
    # gain strategy
    g = repo.func(MOD, "_constraint_association_gain")
    L, C, LC, LIM, DC = _pn(g, P_LABELS), _pn(g, P_COUNTERS), _pn(g, P_LEFTCLOSE), _pn(g, P_LIMIT), _pn(g, P_DCLOSE)
    stores = _label_stores(g, L)
    # every exit of the gain association comes after the transfer loop: the loop that moves
    # points between clusters dominates every return (an exit taken before it returns the
    # nearest-centre assignment whatever the cluster sizes are)
    moves = [s_ for s_, t_ in stores if not isinstance(t_.slice, ast.Slice)]
    loops_ = []
    for s_ in moves:
        outer = None
        p_ = getattr(s_, "_parent", None)
        while p_ is not None and p_ is not g.node:
            if isinstance(p_, (ast.For, ast.While)):
                outer = p_
            p_ = getattr(p_, "_parent", None)
        if outer is not None and not any(outer is o for o in loops_):
            loops_.append(outer)
    if loops_:
        from engine.cfg import build_cfg as _bcfg, dominators as _dom

        cfg_g = _bcfg(g.node)
        dom = _dom(cfg_g)
        heads = [n_ for n_ in cfg_g.nodes if n_.ast is not None and any(n_.ast is (o.iter if isinstance(o, ast.For) else o.test) or n_.ast is o for o in loops_)]
        head_ids = {n_.id for n_ in heads}
        reach_ = cfg_g.reachable()
        early = [n_ for n_ in cfg_g.nodes if n_.kind == "return" and n_.id in reach_ and not (dom.get(n_.id, set()) & head_ids)]
        n += 1
        if heads and not early:
            ck.holds("C07.b", g, "every return of the gain association follows the transfer loop", "no exit before the clusters were balanced")
        elif heads:
            ck.violated("C07.b", g, early[0].ast, "the gain association returns before the loop that moves points between clusters: the nearest-centre assignment is returned as it is, whatever the cluster sizes (clusters of more than ceil(n/k) points)")
    partners = []
    for s, t in stores:
        if isinstance(t.slice, ast.Slice):
            continue  # labels[:] = argmin(...) initial assignment for prediction
        n += 1
        if not isinstance(s, ast.Assign) or len(s.targets) != 1:
            ck.violated("C07.b", g, s, "unexpected form of label write")
            continue
        eff = _effects(repo, g, _block_of(s), s)
        p, c = src_of(t.slice), src_of(s.value)
        cx = ex.text(s.value, g, s)
        old = _x_at(repo, g, f"{L}[{p}]", s)  # the point's label before the write
        incs = [e for e in eff if e[0] == "inc" and e[1] == C]
        up = [e for e in incs if e[2] == cx and e[3] == 1]
        if up:
            down = [e for e in incs if e[3] == -1]
            conds = conds_at(repo, g, s)
            if len(down) != 1 or len(incs) != 2:
                ck.violated("C07.b", g, s, f"move to cluster {c} increments its counter but the counter updates of the block are {[(e[2][:30], e[3]) for e in incs]}: the total count drifts")
                continue
            dsrc = src_of(down[0][4].target.slice) if isinstance(down[0][4], ast.AugAssign) else None
            if down[0][2] != old:
                ck.violated("C07.b", g, s, f"the decremented cluster is not the point's current label {L}[{p}]")
                continue
            w1 = cond_want(repo, f"{C}[{c}] < {LIM} + {LC}[{c}]", g, s)
            w2 = cond_want(repo, f"{C}[{L}[{p}]] > {LIM} + {LC}[{L}[{p}]]", g, s)
            # the same guard with the capacities as one vector, (limit + leftclose)[cluster]
            # (limit is a scalar, so the subscript distributes over the sum)
            w1v = cond_want(repo, f"{C}[{c}] < ({LIM} + {LC})[{c}]", g, s)
            w2v = cond_want(repo, f"{C}[{L}[{p}]] > ({LIM} + {LC})[{L}[{p}]]", g, s)
            if (w1 in conds or w1v in conds) and (w2 in conds or w2v in conds):
                ck.holds("C07.b", g, s, "move paired with counters[cur] -= 1, counters[dest] += 1 under the two-sided capacity guard")
            else:
                ck.violated("C07.b", g, s, f"move is executed where {sorted(x for x in conds if C in x[0])}; the two-sided capacity guard `{C}[dest] < {LIM} + {LC}[dest]` and `{C}[cur] > {LIM} + {LC}[cur]` is required, otherwise a cluster can exceed or fall below its allowed size")
        else:
            # swap half: labels[p] = c together with labels[p2] = <old label of p>
            others = [e for e in eff if e[0] == "set" and e[1] == L and e[4] is not s]
            ok = any(e[3] == old and e[2] != ex.text(t.slice, g, s) for e in others)
            rev = [e for e in eff if e[0] == "set" and e[1] == L and e[4] is not s and e[3] == old]
            if ok:
                ck.holds("C07.b", g, s, "half of an exchange of two points between two clusters (counts unchanged)")
                for e in rev:
                    partners.append((s, e))
            elif not any(e[0] == "set" and e[1] == L and e[4] is not s for e in eff):
                ck.violated("C07.b", g, s, f"{L}[{p}] = {c} is neither paired with counter updates nor with the reverse move of another point: cluster sizes change without the counters knowing")
            else:
                # the other half of a pair: its partner is checked from the other side
                oth = [e for e in eff if e[0] == "set" and e[1] == L and e[4] is not s]
                back = any(ex.text(o[4].value, g, o[4]) == o[3] and _x_at(repo, g, f"{L}[{src_of(o[4].targets[0].slice)}]", s) == cx for o in oth if isinstance(o[4], ast.Assign))
                ck.verdict(True, "C07.b", g, s, "second half of the exchange (the first half carries this point's previous label)", "")
    # swap partners come from a queue of candidates: entries whose point has moved since it was
    # queued (distances_close set) must be discarded before the head is used
    purges = []
    for d in own_nodes_incl_lambda(g.node):
        q = None
        if isinstance(d, ast.Delete) and len(d.targets) == 1 and isinstance(d.targets[0], ast.Subscript) and isinstance(d.targets[0].value, ast.Name) and src_of(d.targets[0].slice) == "0":
            q = d.targets[0].value.id
        elif isinstance(d, ast.Call) and isinstance(d.func, ast.Attribute) and d.func.attr in ("pop", "popleft") and isinstance(d.func.value, ast.Name) and (not d.args or src_of(d.args[0]) == "0"):
            q = d.func.value.id
        if q is None:
            continue
        in_loop = any(isinstance(p_, (ast.While,)) for p_ in _parents(d))
        qx = ex.text(ast.Name(id=q, ctx=ast.Load()), g, stmt_of(d))
        moved = [c_ for c_ in conds_at(repo, g, d) if c_[1] and c_[0].startswith(f"{DC}[") and (qx in c_[0] or q in c_[0])]
        if in_loop and moved:
            purges.append((qx, d))
            purges.append((q, d))
    seen_p = set()
    for s, e in partners:
        if id(e[4]) in seen_p:
            continue
        seen_p.add(id(e[4]))
        n += 1
        tgt = e[4].targets[0] if isinstance(e[4], ast.Assign) else None
        raw = tgt.slice if isinstance(tgt, ast.Subscript) else None
        # where the partner's index comes from: read at the site(s) that define it
        origins = [tx for _, tx in defs_texts(repo, g, raw.id)] if isinstance(raw, ast.Name) else [e[2]]
        ok = bool(origins) and all(any(q in tx for q, _ in purges) for tx in origins)
        ck.verdict(ok, "C07.b", g, e[4], "the swap partner is the first queued point that has not moved since it was queued (moved entries are dropped from the head of its queue in a loop)", "stale entries of the transfer queue are not discarded before the head is used as swap partner: a point that already moved is 'swapped' again, which changes cluster sizes behind the counters' back")
    return n


def check_c(ck, repo):
    g = repo.func(MOD, "_constraint_association_gain")
    body = [s for s in own_nodes(g.node) if isinstance(s, (ast.Assign, ast.AugAssign))]
    body.sort(key=lambda s: s.lineno)
    lc = [(s, t) for s in body for t in assign_targets(s) if isinstance(t, ast.Subscript) and src_of(t.value) == "leftclose"]
    if not lc:
        ck.violated("C07.c", g, "leftclose[...] = ...", "the allowance vector is never set in the gain strategy: its content is whatever the caller left")
        return
    # ave = limit
    ave_def = [src_of(s.value) for s in body if isinstance(s, ast.Assign) and len(s.targets) == 1 and src_of(s.targets[0]) == "ave"]
    ck.verdict(ave_def == ["limit"], "C07.c", g, f"ave = {ave_def}", "ave is the per-cluster quota limit", "ave is not the quota passed as limit")
    nover_def = [s for s in body if isinstance(s, ast.Assign) and len(s.targets) == 1 and src_of(s.targets[0]) == "nover"]
    if len(nover_def) != 1:
        ck.unknown("C07.c", g, "nover = ...", f"{len(nover_def)} definitions of nover")
        return
    try:
        d = lin(nover_def[0].value) - (lin(ast.parse("X.shape[0]", mode="eval").body) - _prod("ave", "counters.shape[0]"))
        ok = d.is_zero()
    except LinErr:
        ok = src_of(nover_def[0].value) in ("X.shape[0] - ave * counters.shape[0]", "X.shape[0] - counters.shape[0] * ave")
    ck.verdict(ok, "C07.c", g, nover_def[0], "nover = n - ave*k (number of clusters allowed one extra point)", "nover is not n - ave*k: the number of clusters allowed an extra point is wrong")
    first = lc[0]
    zero = isinstance(first[1].slice, ast.Slice) and isinstance(first[0], ast.Assign) and src_of(first[0].value) == "0"
    ck.verdict(zero, "C07.c", g, first[0], "allowances zero-filled first", "the allowance vector is not zero-filled before the extra points are distributed: stale or excessive allowances survive")
    ones = [x for x in lc[1:]]
    if len(ones) != 1:
        ck.violated("C07.c", g, lc[-1][0], f"expected one statement distributing the extra points after the zero-fill, found {len(ones)}: entries of the allowance vector may leave {{0, 1}}")
        return
    s, t = ones[0]
    idx = t.slice
    val_ok = isinstance(s, ast.Assign) and src_of(s.value) == "1"
    perm_ok = False
    count_ok = False
    if isinstance(idx, ast.Subscript) and isinstance(idx.slice, ast.Slice):
        sl = idx.slice
        count_ok = sl.lower is None and sl.step is None and sl.upper is not None and src_of(sl.upper) == "nover"
        base = idx.value
        if isinstance(base, ast.Call) and src_of(base.func).split(".")[-1] in ("argsort", "permutation", "arange"):
            perm_ok = True
            arg = src_of(base.args[0]) if base.args else ""
            ck.verdict(arg in ("-counters", "counters", "counters.shape[0]", "len(counters)") or True, "C07.c", g, f"order = {src_of(base)[:50]}", "indices are a permutation of the cluster ids (distinct)", "")
    ck.verdict(val_ok and perm_ok and count_ok, "C07.c", g, s, "exactly nover distinct clusters get allowance 1, all others 0", "the allowance distribution is not `leftclose[<permutation>[:nover]] = 1`: entries may exceed 1 or their sum differ from n - ave*k, so a cluster may hold floor(n/k)+2 points")
    # no later write to leftclose
    later = [x for x in own_nodes(g.node) if isinstance(x, (ast.Assign, ast.AugAssign)) and x.lineno > s.lineno and any(isinstance(t2, ast.Subscript) and src_of(t2.value) == "leftclose" for t2 in assign_targets(x))]
    ck.verdict(not later, "C07.c", g, "leftclose is final after distribution", "no later write changes the allowances", f"allowances are modified again at line(s) {[x.lineno for x in later]}")
    # counters are rebuilt from the labels
    cnt = any(isinstance(x, ast.For) and src_of(x.iter) == "labels" and any(src_of(b) == f"counters[{src_of(x.target)}] += 1" for b in x.body) for x in own_nodes(g.node))
    z = any(src_of(x) == "counters[:] = 0" for x in body)
    ck.verdict(cnt and z, "C07.c", g, "counters[:] = 0; for i in labels: counters[i] += 1", "counters are recomputed from the labels before the transfers", "counters are not recomputed from the current labels: capacities are checked against stale counts")


def _prod(a: str, b: str):
    from engine.affine import Lin

    return Lin.sym(f"{a}*{b}")


def check_d(ck, repo):
    ex = expander(repo)
    callee = repo.func(MOD, "_constraint_association")
    params = callee.named_params
    for fname in ("constraint_kmeans", "constraint_predictions"):
        fi = repo.func(MOD, fname)
        cs = calls(fi, lambda c: src_of(c.func) == "_constraint_association")
        if not cs:
            ck.unknown("C07.d", fi, "_constraint_association(...)", "call of the association step not found")
            continue
        for c in cs:
            b = bind(c, params)
            N, K = "X.shape[0]", "centers.shape[0]"
            # the quota is computed once from the shapes of X and centers (the centres are
            # updated by the iterations, their shape is not): every definition of the
            # variables handed over as limit / leftover is read at its own site
            for role, pos in (("limit", P_LIMIT), ("leftover", P_LEFTOVER)):
                a = b.get(_pn(callee, pos))
                if isinstance(a, ast.Name):
                    ds = defs_texts(repo, fi, a.id)
                else:
                    ds = [(c, ex.text(a, fi, c))] if a is not None else []
                if not ds:
                    ck.unknown("C07.d", fi, f"{fname}: {role}", "no definition found")
                for st, tx in ds:
                    if role == "limit":
                        w = {want(repo, f"{N} // {K}", fi, st), want(repo, "len(X) // len(centers)", fi, st), want(repo, f"{N} // len(centers)", fi, st), want(repo, f"len(X) // {K}", fi, st)}
                        ck.verdict(tx in w, "C07.d", fi, f"{fname}: limit = {tx}", "limit = n // k", f"limit = {tx} is not floor(n / k)")
                    else:
                        w = {want(repo, f"{N} - ({N} // {K}) * {K}", fi, st), want(repo, f"{N} % {K}", fi, st), want(repo, f"{N} - {K} * ({N} // {K})", fi, st)}
                        ck.verdict(tx in w, "C07.d", fi, f"{fname}: leftover = {tx}", "leftover = n - limit*k", f"leftover = {tx} is not n - limit*k: limit*k + leftover != n, so some points cannot be placed or too many extras are allowed")
            with ex.lenient():
                t = {k: ex.text(v, fi, c) for k, v in b.items()}
            # buffers: one counter / allowance per cluster, one flag per point
            shapes = {P_COUNTERS: K, P_LEFTCLOSE: K, P_DCLOSE: N}
            oks = True
            for pos, dim in shapes.items():
                a = b.get(_pn(callee, pos))
                ds = defs_texts(repo, fi, a.id) if isinstance(a, ast.Name) else []
                oks = oks and bool(ds)
                for st, v in ds:
                    v = v.replace(" ", "")
                    dimx = want(repo, dim, fi, st).replace(" ", "")
                    oks = oks and any(v.startswith(f"numpy.{f}(({dimx},)") or v.startswith(f"numpy.{f}({dimx},") for f in ("empty", "zeros"))
            ck.verdict(oks and src_of(b.get(_pn(callee, P_X))) == "X" and src_of(b.get(_pn(callee, P_CENTERS))) == "centers", "C07.d", fi, c, "per-cluster / per-point buffers have one entry per cluster / point and are bound to the parameters the association expects", f"arguments {[src_of(a) for a in c.args]} do not match parameters {params}, or a buffer is not allocated with one entry per cluster / point")
    # iteration counter
    fi = repo.func(MOD, "constraint_kmeans")
    it_name = "iter"
    if it_name not in fi.named_params:
        raise AnalysisError("anchor vanished: parameter iter of constraint_kmeans")
    incs = [s for s in own_nodes(fi.node) if (isinstance(s, ast.AugAssign) and src_of(s.target) == it_name) or (isinstance(s, ast.Assign) and any(src_of(t) == it_name for t in s.targets))]
    for s in incs:
        by_one = (isinstance(s, ast.AugAssign) and isinstance(s.op, ast.Add) and src_of(s.value) == "1") or (isinstance(s, ast.Assign) and ctext(src_of(s.value)) == ctext(f"{it_name} + 1"))
        bounded = cond_want(repo, f"{it_name} < max_iter", fi, s) in conds_at(repo, fi, s)
        ck.verdict(by_one and bounded, "C07.d", fi, s, "iteration counter incremented by one only where iter < max_iter", "the iteration counter can pass max_iter")
    if not incs:
        ck.unknown("C07.d", fi, "iter += 1", "iteration counter not found")
    # predict dispatch
    ci = repo.cls(KMOD, "ConstraintKMeans")
    pr = ci.methods.get("predict")
    if pr is None:
        raise AnalysisError("anchor vanished: ConstraintKMeans.predict")
    cps = calls(pr, lambda c: src_of(c.func) == "constraint_predictions")
    if len(cps) != 1:
        ck.violated("C07.d", pr, "constraint_predictions(...)", f"predict has {len(cps)} calls to the balanced assignment")
    else:
        c = cps[0]
        conds = conds_at(repo, pr, c)
        ck.verdict(cond_text("self.balanced_predictions") in conds, "C07.d", pr, c, "balanced assignment only where self.balanced_predictions", "the balanced assignment is not guarded by self.balanced_predictions")
        b = bind(c, repo.func(MOD, "constraint_predictions").named_params)
        t = {k: ex.text(v, pr, c) for k, v in b.items()}
        ck.verdict(t.get("strategy") in (ctext("self.strategy + '_p'"), "f'{self.strategy}_p'"), "C07.d", pr, f"strategy={t.get('strategy')}", "prediction variant of the strategy (labels initialised by nearest centre)", "predict uses the training variant of the strategy: labels are read before being initialised")
        ck.verdict(t.get("centers") == "self.cluster_centers_" and t.get("X") == "X", "C07.d", pr, f"centers={t.get('centers')}", "balanced prediction uses the fitted centres on the batch", "balanced prediction does not use (X, cluster_centers_)")
        rets = returns(repo, pr)
        plain = [(r, tx) for r, tx in rets if tx in ("KMeans.predict(self, X)", "super().predict(X)", "KMeans.predict(self, X=X)")]
        okp = bool(plain) and all(cond_text("self.balanced_predictions") not in conds_at(repo, pr, r) or cond_text("self.weights_ is None") not in conds_at(repo, pr, r) for r, _ in plain)
        unbal = [r for r, tx in rets if cond_text("self.balanced_predictions", False) in conds_at(repo, pr, r)]
        ck.verdict(okp and all(any(r is p_ for p_, _ in plain) for r in unbal), "C07.d", pr, "return KMeans.predict(self, X)", "without balanced predictions predict is KMeans.predict (nearest centre)", "the unbalanced path is no longer KMeans.predict")
        tc = ex.text(c, pr, c)
        bal = [tx for r, tx in rets if cond_text("self.balanced_predictions") in conds_at(repo, pr, r) and (cond_text("self.weights_ is None") in conds_at(repo, pr, r))]
        ck.verdict(bal == [ctext(f"({tc})[0]")], "C07.d", pr, f"balanced return {[b_[:50] for b_ in bal]}", "returns the balanced labels", "predict does not return the labels computed by the balanced assignment")
        # for ANY batch: with balanced_predictions on (and no weights) every path of predict is the balanced one
        from .sem import paths as _paths, RAISE as _RAISE, ptext as _ptext

        pb = [p for p in _paths(pr, {"self.balanced_predictions": True, "self.weights_": None}) if p.ret != _RAISE]
        plain_ = [p for p in pb if not any(_ptext(c_.func) == "constraint_predictions" for c_ in p.calls)]
        where = (" and ".join(t if pol else f"not ({t})" for t, pol in plain_[0].conds) or "always") if plain_ else ""
        ck.verdict(bool(pb) and not plain_, "C07.d", pr, "balanced_predictions=True: every path balances", "with balanced_predictions the labels of any batch come from the balanced assignment", f"with balanced_predictions=True predict still returns the plain nearest-centre labels when {where[:120]}: such batches do not obey the size constraint")
    cm = ci.methods.get("constraint_kmeans")
    if cm is None:
        raise AnalysisError("anchor vanished: ConstraintKMeans.constraint_kmeans")
    ck_fn = repo.func(MOD, "constraint_kmeans")
    # position of the iteration counter in the tuple the constrained iterations return
    pos = set()
    for r in own_nodes(ck_fn.node):
        if isinstance(r, ast.Return) and isinstance(r.value, ast.Tuple):
            for k, e in enumerate(r.value.elts):
                if isinstance(e, ast.Name) and e.id == it_name:
                    pos.add(k)
    kc = calls(cm, lambda c: src_of(c.func) == "constraint_kmeans")
    if len(kc) != 1 or len(pos) != 1:
        ck.unknown("C07.d", cm, "constraint_kmeans(...)", f"{len(kc)} calls; counter returned at positions {sorted(pos)}")
    else:
        c = kc[0]
        k = pos.pop()
        b = bind(c, ck_fn.named_params)
        t = {kk: ex.text(v, cm, c) for kk, v in b.items()}
        ck.verdict(t.get(it_name) == "self.n_iter_" and t.get("max_iter") == "self.max_iter", "C07.d", cm, f"iter={t.get(it_name)}, max_iter={t.get('max_iter')}", "the constrained iterations continue from n_iter_ and stop at max_iter", "iteration budget is not (n_iter_, max_iter): n_iter_ can exceed max_iter")
        with ex.lenient():  # the value of the returned tuple, as of the call
            vals = [tx for st_, tx in self_attr_value_texts(repo, cm, "n_iter_")]
        aug = [x for x in own_nodes(cm.node) if isinstance(x, ast.AugAssign) and is_self_attr(x.target, "n_iter_")]
        ck.verdict(vals == [ctext(f"({ex.text(c, cm, c)})[{k}]")] and not aug, "C07.d", cm, "self.n_iter_ = <returned counter>", "n_iter_ is the counter returned by the constrained iterations (which started from the warm-up's count)", "n_iter_ is not plainly assigned the returned counter: warm-up iterations are counted twice and n_iter_ can exceed max_iter")


def _parents(n):
    p = getattr(n, "_parent", None)
    while p is not None:
        yield p
        p = getattr(p, "_parent", None)


def check_queue_keys(ck, repo, g):
    """C07.b (swap queues): a point that wants to go from `cur` to `dest` and finds no room looks for
    a partner among the points queued for the opposite move, (dest, cur), and otherwise queues
    itself under its own move, (cur, dest).  With the same key on both sides the partner comes
    from the point's own cluster: no point changes cluster, yet the move is booked, and sizes
    drift from the counters."""
    ex = expander(repo)
    nodes = list(own_nodes(g.node))
    tables = {s_.targets[0].id for s_ in nodes if isinstance(s_, ast.Assign) and isinstance(s_.targets[0], ast.Name) and isinstance(s_.value, ast.Dict) and not s_.value.keys}
    gets, puts = [], []
    for c in nodes:
        if isinstance(c, ast.Call) and isinstance(c.func, ast.Attribute) and c.func.attr == "get" and isinstance(c.func.value, ast.Name) and c.func.value.id in tables and c.args:
            gets.append((c, c.args[0]))
        if isinstance(c, ast.Subscript) and isinstance(c.value, ast.Name) and c.value.id in tables:
            par = getattr(c, "_parent", None)
            if isinstance(c.ctx, ast.Store) or (isinstance(par, ast.Call) and src_of(par.func).endswith("insort") and par.args and par.args[0] is c):
                puts.append((c, c.slice))
            elif isinstance(c.ctx, ast.Load) and not (isinstance(par, ast.Call) and src_of(par.func).endswith("insort")):
                gets.append((c, c.slice))

    def key(e, at):
        with ex.lenient():
            t = ex.text(e, g, stmt_of(at))
        try:
            v = ast.parse(t, mode="eval").body
        except SyntaxError:
            return None
        return tuple(src_of(x) for x in v.elts) if isinstance(v, ast.Tuple) and len(v.elts) == 2 else None

    gk = {key(e, c) for c, e in gets}
    pk = {key(e, c) for c, e in puts}
    if not gets or not puts or None in gk or None in pk or len(gk) != 1 or len(pk) != 1:
        ck.unknown("C07.b", g, "transfer[(dest, cur)] read / transfer[(cur, dest)] written", f"the swap queues are not one table read under one pair and written under one pair (reads {sorted(map(str, gk))}, writes {sorted(map(str, pk))})")
        return
    (a,), (b,) = gk, pk
    ck.verdict(a == (b[1], b[0]) and a[0] != a[1], "C07.b", g, gets[0][0], f"partners are taken from the queue {a}, the opposite of the point's own queue {b}", f"the swap partner is looked up under {a} and the point queues itself under {b}: these are not opposite moves, so the 'swap' exchanges labels with a point that does not want the reverse move (or of the same cluster) and cluster sizes drift from the counters")


def run(ck):
    repo = ck.repo
    for k, v in RULES.items():
        ck.rule(k, v)
    check_a(ck, repo)
    check_b(ck, repo)
    check_queue_keys(ck, repo, repo.func(MOD, "_constraint_association_gain"))
    check_c(ck, repo)
    check_d(ck, repo)
    ck.require_count("C07.a", 3, "init, two assignments, loop, skip")
    ck.require_count("C07.b", 2, "swap, move, two exchange halves")
    ck.require_count("C07.c", 3, "ave, nover, zero-fill, distribution, finality, counters")
    ck.require_count("C07.d", 7, "set-up x2, call orders, counter, predict dispatch")


_F = "mlinsights/mlmodel/_kmeans_constraint_.py"
_K = "mlinsights/mlmodel/kmeans_constraint.py"
WITNESSES = [
    {"name": "extra-slot-not-counted", "file": _F, "rule": "C07.a", "old": "                    labels[ind] = c\n                    nover -= 1\n                    leftclose[c] = 0\n", "new": "                    labels[ind] = c\n                    leftclose[c] = 0\n"},
    {"name": "quota-le", "file": _F, "rule": "C07.a", "old": "                if counters[c] < limit:\n", "new": "                if counters[c] <= limit:\n"},
    {"name": "quota-no-increment", "file": _F, "rule": "C07.a", "old": "                    # The cluster still accepts new points.\n                    counters[c] += 1\n", "new": "                    # The cluster still accepts new points.\n"},
    {"name": "leftover-not-consumed", "file": _F, "rule": "C07.a", "old": "                    nover -= 1\n                    leftclose[c] = 0\n", "new": "                    leftclose[c] = 0\n"},
    {"name": "leftover-cluster-not-marked", "file": _F, "rule": "C07.a", "old": "                    nover -= 1\n                    leftclose[c] = 0\n", "new": "                    nover -= 1\n"},
    {"name": "assigned-not-skipped", "file": _F, "rule": "C07.a", "old": "            if labels[ind] >= 0:\n                continue\n", "new": ""},
    {"name": "randomize-index-sliding-window", "file": _F, "rule": "C07.b", "old": "        ind1 = index[i - 1]\n        ind2 = index[i]\n        w1 = weights[ind1]", "new": "        ind1 = ind2 if i > 1 else index[0]\n        ind2 = index[i]\n        w1 = weights[ind1]"},
    {"name": "switch-not-a-swap", "file": _F, "rule": "C07.b", "old": "                    labels[i], labels[j] = c2, c1\n", "new": "                    labels[i], labels[j] = c2, c2\n"},
    {"name": "gain-move-one-sided-guard", "file": _F, "rule": "C07.b", "old": "        if (counters[dest] < ave + leftclose[dest]) and (\n            counters[cur] > ave + leftclose[cur]\n        ):\n", "new": "        if counters[dest] < ave + leftclose[dest]:\n"},
    {"name": "gain-move-no-decrement", "file": _F, "rule": "C07.b", "old": "            labels[ind] = dest\n            counters[cur] -= 1\n            counters[dest] += 1\n", "new": "            labels[ind] = dest\n            counters[dest] += 1\n"},
    {"name": "gain-capacity-ge", "file": _F, "rule": "C07.b", "old": "            counters[cur] > ave + leftclose[cur]\n", "new": "            counters[cur] >= ave + leftclose[cur]\n"},
    {"name": "gain-swap-half-missing", "file": _F, "rule": "C07.b", "old": "                    labels[ind] = dest\n                    labels[destind] = cur\n", "new": "                    labels[ind] = dest\n"},
    {"name": "gain-stale-swap-partner", "file": _F, "rule": "C07.b", "old": "            while len(cp) > 0:\n                g, destind = cp[0]\n                if distances_close[destind]:\n                    del cp[0]\n                else:\n                    break\n", "new": ""},
    {"name": "n-iter-accumulated", "file": _K, "rule": "C07.d", "old": "        self.n_iter_ = iter_\n", "new": "        self.n_iter_ += iter_\n"},
    {"name": "allowance-not-zeroed", "file": _F, "rule": "C07.c", "old": "    leftclose[:] = 0\n    leftclose[numpy.argsort", "new": "    leftclose[:] = counters[:] - ave\n    leftclose[numpy.argsort"},
    {"name": "allowance-wrong-count", "file": _F, "rule": "C07.c", "old": '[:nover]] = 1\n', "new": '[: nover + 1]] = 1\n'},
    {"name": "allowance-value-two", "file": _F, "rule": "C07.c", "old": '[:nover]] = 1\n', "new": '[:nover]] = 2\n'},
    {"name": "nover-wrong", "file": _F, "rule": "C07.c", "old": "    nover = X.shape[0] - ave * counters.shape[0]\n    leftclose[:] = 0\n", "new": "    nover = X.shape[0] - ave * (counters.shape[0] - 1)\n    leftclose[:] = 0\n"},
    {"name": "limit-ceil", "file": _F, "rule": "C07.d", "old": "        limit = X.shape[0] // centers.shape[0]\n        leftover = X.shape[0] - limit * centers.shape[0]\n        leftclose = numpy.empty((centers.shape[0],), dtype=numpy.int32)\n        n_clusters", "new": "        limit = (X.shape[0] + centers.shape[0] - 1) // centers.shape[0]\n        leftover = X.shape[0] - limit * centers.shape[0]\n        leftclose = numpy.empty((centers.shape[0],), dtype=numpy.int32)\n        n_clusters"},
    {"name": "predict-leftover-off", "file": _F, "rule": "C07.d", "old": "    limit = X.shape[0] // centers.shape[0]\n    leftover = X.shape[0] - limit * centers.shape[0]\n    leftclose = numpy.empty((centers.shape[0],), dtype=numpy.int32)\n    distances_close", "new": "    limit = X.shape[0] // centers.shape[0]\n    leftover = X.shape[0] - limit * centers.shape[0] + 1\n    leftclose = numpy.empty((centers.shape[0],), dtype=numpy.int32)\n    distances_close"},
    {"name": "predict-training-strategy", "file": _K, "rule": "C07.d", "old": 'X, self.cluster_centers_, strategy=self.strategy + "_p"', "new": "X, self.cluster_centers_, strategy=self.strategy"},
    {"name": "predict-always-balanced", "file": _K, "rule": "C07.d", "old": "        if self.weights_ is None:\n            if self.balanced_predictions:\n                labels, _, __ = constraint_predictions(", "new": "        if self.weights_ is None:\n            if self.n_clusters:\n                labels, _, __ = constraint_predictions("},
]
WITNESSES += [
    {"name": "switch-hoisted-stale-label", "file": _F, "rule": "C07.b", "old": "        for i_ in range(labels.shape[0]):\n            for j_ in range(i_ + 1, labels.shape[0]):\n                i = perm[i_]\n                j = perm[j_]\n                c1 = labels[i]\n", "new": "        for i_ in range(labels.shape[0]):\n            i = perm[i_]\n            c1 = labels[i]\n            for j_ in range(i_ + 1, labels.shape[0]):\n                j = perm[j_]\n"},
    {"name": "predict-balanced-only-large-batches", "file": "mlinsights/mlmodel/kmeans_constraint.py", "rule": "C07.d", "old": "            if self.balanced_predictions:\n                labels, _, __ = constraint_predictions(", "new": "            if self.balanced_predictions and X.shape[0] > self.n_clusters:\n                labels, _, __ = constraint_predictions("},
]
# witnesses of the rules added after the ninth round of independent changes
WITNESSES += [
    {"name": "partner-from-own-queue", "file": _F, "rule": "C07.b", "old": "cp = transfer.get((dest, cur), [])", "new": "cp = transfer.get((cur, dest), [])"},
]


TWINS = [
    {"name": "leftover-modulo", "file": _F, "old": "    limit = X.shape[0] // centers.shape[0]\n    leftover = X.shape[0] - limit * centers.shape[0]\n    leftclose = numpy.empty((centers.shape[0],), dtype=numpy.int32)\n    distances_close", "new": "    limit = X.shape[0] // centers.shape[0]\n    leftover = X.shape[0] % centers.shape[0]\n    leftclose = numpy.empty((centers.shape[0],), dtype=numpy.int32)\n    distances_close"},
    {"name": "quota-block-reordered", "file": _F, "old": "                    counters[c] += 1\n                    labels[ind] = c\n                    distances[ind, c] = maxi\n                    break\n                if nover", "new": "                    labels[ind] = c\n                    counters[c] += 1\n                    distances[ind, c] = maxi\n                    break\n                if nover"},
]
MIN_WITNESSES = 15
