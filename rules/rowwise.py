"""Row independence of predict-like methods (used by C04.e).

A predict/transform method with row-wise semantics may use the whole batch only
to size its buffers.  The rule looks for *batch statistics*: a reduction over
the rows of a value that depends on a data parameter (numpy.unique, a sort, a
max/min/mean/sum without `axis=1`, a set of the labels, ...), and reports it
when

  (data)     it flows, through local definitions and in-place updates, into a
             returned value, or
  (control)  it decides a branch in which a returned value is produced or
             updated, unless the test is the emptiness idiom that merely skips
             an empty sub-batch (`numpy.any(ind)`, `n_above > 0` with
             `n_above = above.sum()`, `len(x) == 0`).

Row-wise reductions are recognised by `axis=1` / `axis=-1` (keyword or
positional) or by an operand that is a single row (`preds[i, :]`, `d[i]`).
"""

from __future__ import annotations

import ast
from typing import Dict, Iterator, List, Optional, Set, Tuple

from engine.dataflow import ReachingDefs, _value_exprs
from engine.src import FunctionInfo, own_nodes, src_of

# reductions / order statistics: name -> index of the positional `axis` argument
# when called as a numpy function (methods: index - 1)
REDUCTIONS = {
    "unique": None, "argsort": 1, "sort": 1, "max": 1, "min": 1, "mean": 1, "sum": 1, "std": 1, "var": 1, "median": 1,
    "cumsum": 1, "cumprod": 1, "prod": 1, "bincount": None, "argmax": 1, "argmin": 1, "percentile": 2, "quantile": 2,
    "average": 1, "amax": 1, "amin": 1, "nanmax": 1, "nanmin": 1, "nanmean": 1, "nansum": 1, "ptp": 1, "any": 1, "all": 1,
    "count_nonzero": 1, "lexsort": None, "partition": 2, "argpartition": 2, "histogram": None, "rankdata": None,
    "scale": None, "minmax_scale": None, "value_counts": None, "nunique": None, "mode": None,
}
BUILTIN_REDUCTIONS = {"set", "sorted", "max", "min", "sum", "any", "all", "frozenset"}


def _axis_of(call: ast.Call, name: str, is_method: bool):
    for k in call.keywords:
        if k.arg == "axis":
            return k.value
    pos = REDUCTIONS.get(name)
    if pos is None:
        return None
    if is_method:
        pos -= 1
    if 0 <= pos < len(call.args):
        return call.args[pos]
    return None


def _const_int(e) -> Optional[int]:
    if isinstance(e, ast.Constant) and isinstance(e.value, int) and not isinstance(e.value, bool):
        return e.value
    if isinstance(e, ast.UnaryOp) and isinstance(e.op, ast.USub) and isinstance(e.operand, ast.Constant) and isinstance(e.operand.value, int):
        return -e.operand.value
    return None


def _single_row(e: ast.AST) -> bool:
    """x[i, :], x[i], x[i, j]: the first index selects one row"""
    if isinstance(e, ast.Call) and isinstance(e.func, ast.Attribute) and e.func.attr in ("ravel", "flatten", "tolist", "copy") and not e.args:
        return _single_row(e.func.value)
    if not isinstance(e, ast.Subscript):
        return False
    sl = e.slice
    first = sl.elts[0] if isinstance(sl, ast.Tuple) and sl.elts else sl
    if isinstance(first, (ast.Slice, ast.Tuple, ast.List, ast.Compare, ast.UnaryOp, ast.BinOp, ast.BoolOp)):
        return False
    if isinstance(first, ast.Constant) and first.value is Ellipsis:
        return False
    if isinstance(first, ast.Name):
        return False  # decided by BatchStatistics._row (loop indices)
    if isinstance(first, ast.Constant):
        return isinstance(first.value, int)
    return False


class BatchStatistics:
    def __init__(self, fi: FunctionInfo, data_params: Set[str]):
        self.fi = fi
        self.rd = ReachingDefs(fi.node)
        self.data = set(data_params)
        self._loop_vars()
        self.rowvars = self._row_scope() - self.data

    def _loop_vars(self):
        """names bound by `for i in range(...)` / `for i, x in enumerate(...)`: scalars"""
        self.scalars: Set[str] = set()
        for n in own_nodes(self.fi.node):
            if isinstance(n, ast.For) and isinstance(n.iter, ast.Call) and isinstance(n.iter.func, ast.Name):
                if n.iter.func.id == "range" and isinstance(n.target, ast.Name):
                    self.scalars.add(n.target.id)
                if n.iter.func.id == "enumerate" and isinstance(n.target, ast.Tuple) and n.target.elts and isinstance(n.target.elts[0], ast.Name):
                    self.scalars.add(n.target.elts[0].id)
        # the same in comprehensions: [f(A[i, :]) for i in range(n)]
        for n in ast.walk(self.fi.node):
            if isinstance(n, ast.comprehension) and isinstance(n.iter, ast.Call) and isinstance(n.iter.func, ast.Name):
                if n.iter.func.id == "range" and isinstance(n.target, ast.Name):
                    self.scalars.add(n.target.id)
                if n.iter.func.id == "enumerate" and isinstance(n.target, ast.Tuple) and n.target.elts and isinstance(n.target.elts[0], ast.Name):
                    self.scalars.add(n.target.elts[0].id)

    # ------------------------------------------------------------ row scope
    def _row_scope(self):
        """names that denote (a value derived from) ONE row or element: targets of
        loops / comprehensions that iterate over rows, and locals computed from
        such names only.  A reduction over such a value stays inside the row."""
        fn = self.fi.node
        rv: Set[str] = set()

        def transposed(it):
            for n in ast.walk(it):
                if isinstance(n, ast.Attribute) and n.attr in ("T", "transpose", "columns", "items", "iteritems"):
                    # X.T, X.transpose(): columns; dict.items() of a row is handled below
                    if n.attr in ("items", "iteritems"):
                        continue
                    return True
                if isinstance(n, ast.Starred):
                    return True  # zip(*rows)
            return False

        for n in own_nodes(fn):
            if isinstance(n, ast.For) and not transposed(n.iter):
                rv |= {t.id for t in ast.walk(n.target) if isinstance(t, ast.Name)}
        for n in ast.walk(fn):
            if isinstance(n, ast.comprehension) and not transposed(n.iter):
                rv |= {t.id for t in ast.walk(n.target) if isinstance(t, ast.Name)}
        # a loop over the items of a container that is not itself row-scoped
        # (for k, v in batch_dict.items()) is a loop over the batch: handled by
        # the data dependence of the names, not here
        assigns: Dict[str, List[ast.AST]] = {}
        for n in own_nodes(fn):
            if isinstance(n, ast.Assign) and len(n.targets) == 1 and isinstance(n.targets[0], ast.Name):
                assigns.setdefault(n.targets[0].id, []).append(n)
            elif isinstance(n, (ast.Assign, ast.AugAssign, ast.AnnAssign)):
                for t in (n.targets if isinstance(n, ast.Assign) else [n.target]):
                    for x in ast.walk(t):
                        if isinstance(x, ast.Name) and isinstance(x.ctx, ast.Store):
                            assigns.setdefault(x.id, []).append(None)
        params = set(self.rd.params)
        changed = True
        while changed:
            changed = False
            for name, sts in assigns.items():
                if name in rv or name in params or any(s is None for s in sts):
                    continue
                ok = True
                some = False
                for st in sts:
                    at = self.rd.node_of(st)
                    if at is None:
                        continue
                    for x in ast.walk(st.value):
                        if isinstance(x, ast.Name) and isinstance(x.ctx, ast.Load) and self.rd.depends_on(x, at, self.data):
                            if x.id in rv:
                                some = True
                            else:
                                ok = False
                if ok and some:
                    rv.add(name)
                    changed = True
        return rv

    def batch_dependent(self, e: ast.AST, at) -> bool:
        """the value depends on the data through something else than one row"""
        for x in ast.walk(e):
            if isinstance(x, ast.Name) and isinstance(x.ctx, ast.Load) and x.id not in self.rowvars:
                if self.rd.depends_on(x, at, self.data) or (x.id in self.data and not self.rd.reaching(x.id, at)):
                    return True
        return False

    # ------------------------------------------------------------ reductions
    def reductions_in(self, expr: ast.AST, at) -> List[Tuple[ast.Call, str]]:
        """batch statistics inside `expr` (evaluated at CFG node `at`)"""
        out = []
        for c in ast.walk(expr):
            if not isinstance(c, ast.Call):
                continue
            f = c.func
            operand = None
            name = ""
            axis = None
            if isinstance(f, ast.Attribute) and f.attr in REDUCTIONS:
                name = f.attr
                root = f.value
                is_mod = isinstance(root, ast.Name) and root.id in ("numpy", "np", "scipy", "pandas", "pd") or (isinstance(root, ast.Attribute) and isinstance(root.value, ast.Name) and root.value.id in ("numpy", "np", "scipy"))
                if is_mod:
                    if not c.args:
                        continue
                    operand = c.args[0]
                    axis = _axis_of(c, name, False)
                else:
                    operand = root
                    axis = _axis_of(c, name, True)
            elif isinstance(f, ast.Name) and f.id in BUILTIN_REDUCTIONS and len(c.args) == 1 and not c.keywords:
                name = f.id
                operand = c.args[0]
            elif isinstance(f, ast.Name) and f.id in REDUCTIONS and c.args:
                name = f.id
                operand = c.args[0]
                axis = _axis_of(c, name, False)
            else:
                continue
            a = _const_int(axis) if axis is not None else None
            if a in (1, -1):
                continue
            if self._row(operand):
                continue
            if not self.rd.depends_on(operand, at, self.data):
                continue
            if not self.batch_dependent(operand, at):
                continue  # a reduction inside one row / element
            out.append((c, name))
        return out

    def _row(self, e: ast.AST) -> bool:
        if _single_row(e):
            return True
        if isinstance(e, ast.Subscript):
            sl = e.slice
            first = sl.elts[0] if isinstance(sl, ast.Tuple) and sl.elts else sl
            if isinstance(first, ast.Name) and first.id in self.scalars:
                return True
        if isinstance(e, ast.Call) and isinstance(e.func, ast.Attribute) and e.func.attr in ("ravel", "flatten", "tolist", "copy") and not e.args:
            return self._row(e.func.value)
        return False

    # ------------------------------------------------------------ slicing
    def slice_of(self, expr: ast.AST, at) -> Iterator[Tuple[ast.AST, object]]:
        """(expression, CFG node) pairs whose values flow into `expr` at `at`"""
        seen = set()
        work = [(expr, at)]
        while work:
            e, n = work.pop()
            yield e, n
            for nm in ast.walk(e):
                if not isinstance(nm, ast.Name) or not isinstance(nm.ctx, ast.Load):
                    continue
                for d in self.rd.reaching(nm.id, n):
                    if d < 0 or (nm.id, d) in seen:
                        continue
                    seen.add((nm.id, d))
                    dn = self.rd.node_by_id[d]
                    for v in _value_exprs(dn, nm.id):
                        work.append((v, dn))

    # ------------------------------------------------------------ the rule
    def findings(self) -> List[Tuple[ast.AST, str]]:
        out = []
        fn = self.fi.node
        rets = [r for r in own_nodes(fn) if isinstance(r, ast.Return) and r.value is not None]
        slice_stmts: Dict[int, ast.AST] = {}
        for r in rets:
            at = self.rd.node_of(r)
            if at is None:
                continue
            slice_stmts[id(r)] = r
            for e, n in self.slice_of(r.value, at):
                if n.ast is not None:
                    slice_stmts[id(n.ast)] = n.ast
                for c, name in self.reductions_in(e, n):
                    out.append((c, f"the batch statistic `{src_of(c)[:70]}` flows into the value returned by `{src_of(r)[:60]}`"))
        # control: a test on a batch statistic governing a statement of the slice
        for st in own_nodes(fn):
            if not isinstance(st, (ast.If, ast.While)):
                continue
            at = self.rd.node_of(st.test)
            if at is None or _emptiness(st.test, self, at):
                continue
            hits = []
            for e, n in self.slice_of(st.test, at):
                hits += self.reductions_in(e, n)
            if not hits:
                continue
            governed = [s for s in slice_stmts.values() if _inside(s, st)]
            if governed:
                c, name = hits[0]
                g = governed[0]
                out.append((c, f"the batch statistic `{src_of(c)[:70]}` decides the branch `if {src_of(st.test)[:60]}` in which the returned value is produced (`{src_of(g).splitlines()[0][:60]}`)"))
        # deduplicate by call node
        seen = set()
        res = []
        for c, msg in out:
            if id(c) in seen:
                continue
            seen.add(id(c))
            res.append((c, msg))
        return res


def _inside(s: ast.AST, outer: ast.AST) -> bool:
    cur = getattr(s, "_parent", None)
    while cur is not None:
        if cur is outer:
            return True
        cur = getattr(cur, "_parent", None)
    return False


def _emptiness(test: ast.AST, bs: "BatchStatistics", at) -> bool:
    """`numpy.any(m)`, `m.any()`, `m.sum() > 0`, `n > 0` with n = m.sum(),
    `len(x) == 0`, and conjunctions of such tests with data-independent ones"""
    t = test
    while isinstance(t, ast.UnaryOp) and isinstance(t.op, ast.Not):
        t = t.operand
    if isinstance(t, ast.BoolOp):
        return all(_emptiness(v, bs, at) or _identity_test(v) or not bs.rd.depends_on(v, at, bs.data) for v in t.values)
    if isinstance(t, ast.Call):
        f = t.func
        nm = f.attr if isinstance(f, ast.Attribute) else (f.id if isinstance(f, ast.Name) else "")
        return nm == "any"
    if isinstance(t, ast.Compare) and len(t.ops) == 1:
        l, r = t.left, t.comparators[0]
        for a, b in ((l, r), (r, l)):
            k = _const_int(b)
            if k in (0, 1) and _count_like(a, bs, at):
                return True
    return False


def _identity_test(v: ast.AST) -> bool:
    """`x is None` / `x is not None`: presence of an object (a child node, an optional
    argument), not a statistic of the rows"""
    while isinstance(v, ast.UnaryOp) and isinstance(v.op, ast.Not):
        v = v.operand
    return isinstance(v, ast.Compare) and len(v.ops) == 1 and isinstance(v.ops[0], (ast.Is, ast.IsNot)) and isinstance(v.comparators[0], ast.Constant) and v.comparators[0].value is None


def _count_like(e: ast.AST, bs: "BatchStatistics", at, depth=0) -> bool:
    if isinstance(e, ast.Call):
        f = e.func
        nm = f.attr if isinstance(f, ast.Attribute) else (f.id if isinstance(f, ast.Name) else "")
        if nm in ("sum", "count_nonzero", "len"):
            return True
    if isinstance(e, ast.Subscript) and isinstance(e.value, ast.Attribute) and e.value.attr == "shape":
        return True
    if isinstance(e, ast.Name) and depth < 3:
        defs = bs.rd.reaching(e.id, at)
        if defs and all(d >= 0 for d in defs):
            vals = []
            for d in defs:
                dn = bs.rd.node_by_id[d]
                vals += [(v, dn) for v in _value_exprs(dn, e.id)]
            return bool(vals) and all(_count_like(v, bs, dn, depth + 1) for v, dn in vals)
    return False


# ---------------------------------------------------------------- which parameters carry the batch
def _scoped_names(expr: ast.AST):
    """names bound inside `expr` itself (lambda parameters, comprehension targets)"""
    bound = set()
    for n in ast.walk(expr):
        if isinstance(n, ast.Lambda):
            a = n.args
            bound |= {x.arg for x in a.posonlyargs + a.args + a.kwonlyargs}
        if isinstance(n, ast.comprehension):
            bound |= {t.id for t in ast.walk(n.target) if isinstance(t, ast.Name)}
    return bound


def _enclosing_binders(node: ast.AST, stop: ast.AST):
    """(kind, node) of the lambdas / comprehensions enclosing `node` below `stop`"""
    out = []
    cur = getattr(node, "_parent", None)
    while cur is not None and cur is not stop:
        if isinstance(cur, (ast.Lambda, ast.ListComp, ast.SetComp, ast.DictComp, ast.GeneratorExp)):
            out.append(cur)
        cur = getattr(cur, "_parent", None)
    return out


def arg_is_data(rd: ReachingDefs, fn: ast.AST, arg: ast.AST, at, data: Set[str], depth: int = 0) -> bool:
    """does the argument expression depend on the data parameters of the calling
    function?  Lambda parameters count as data (the rows a callback receives);
    a comprehension variable is data when its iterable is."""
    if rd.depends_on(arg, at, data):
        return True
    if depth > 4:
        return False
    names = {n.id for n in ast.walk(arg) if isinstance(n, ast.Name) and isinstance(n.ctx, ast.Load)}
    for b in _enclosing_binders(arg, fn):
        if isinstance(b, ast.Lambda):
            a = b.args
            pos = a.posonlyargs + a.args
            dflt = dict(zip([x.arg for x in pos[len(pos) - len(a.defaults) :]], a.defaults))
            dflt.update({x.arg: d for x, d in zip(a.kwonlyargs, a.kw_defaults) if d is not None})
            for x in pos + a.kwonlyargs:
                if x.arg not in names:
                    continue
                if x.arg not in dflt:
                    return True  # a value the caller of the callback supplies
                if arg_is_data(rd, fn, dflt[x.arg], at, data, depth + 1):
                    return True  # `lambda v, cv=c:` captures c
        else:
            for g in b.generators:
                tn = {t.id for t in ast.walk(g.target) if isinstance(t, ast.Name)}
                if names & tn and arg_is_data(rd, fn, g.iter, at, data, depth + 1):
                    return True
    return False


def data_parameters(repo, roots, funcs, resolve_call, bind) -> Dict[str, Set[str]]:
    """qualname -> parameters that may carry (part of) the batch, propagated from
    the entry points through resolved calls; a function of the reachable set that
    no resolved call reaches keeps all its parameters (callbacks)."""
    from engine.src import own_nodes_incl_lambda

    by_q = {f.qualname: f for f in funcs}
    data: Dict[str, Set[str]] = {r.qualname: {p for p in r.named_params if p not in ("self", "cls")} for r in roots}
    called: Set[str] = set()
    rds: Dict[str, ReachingDefs] = {}
    work = [r.qualname for r in roots]
    rounds = 0
    while work and rounds < 2000:
        rounds += 1
        q = work.pop()
        f = by_q.get(q)
        if f is None:
            continue
        dset = data.get(q, set())
        bs = BatchStatistics(f, dset)
        rd = rds[q] = bs.rd
        for c in own_nodes_incl_lambda(f.node):
            if not isinstance(c, ast.Call):
                continue
            g = resolve_call(repo, f, c)
            if g is None or g.qualname not in by_q:
                continue
            called.add(g.qualname)
            at = rd.node_of(c)
            if at is None:
                continue
            b = bind(c, g, f)
            new = set()
            for prm, arg in b.items():
                if prm in ("self", "cls"):
                    continue
                if arg_is_data(rd, f.node, arg, at, dset) and (bs.batch_dependent(arg, at) or _scoped_names(f.node) & {x.id for x in ast.walk(arg) if isinstance(x, ast.Name)} - bs.rowvars):
                    new.add(prm)
            # free variables of a nested callee that are data in the caller
            if g.parent is not None and g.parent.qualname == q:
                for n in ast.walk(g.node):
                    if isinstance(n, ast.Name) and isinstance(n.ctx, ast.Load) and n.id in dset and n.id not in g.named_params:
                        new.add(n.id)
            old = data.setdefault(g.qualname, set())
            if not new <= old:
                old |= new
                work.append(g.qualname)
            elif g.qualname not in rds:
                rds[g.qualname] = ReachingDefs(g.node)
                work.append(g.qualname)
    for f in funcs:
        if f.qualname not in called and f.qualname not in data:
            data[f.qualname] = {p for p in f.named_params if p not in ("self", "cls")}
    return data
