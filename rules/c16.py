"""C16 — pipeline introspection and drawing (structural part).

  C16.a  transparent debug wrappers: each of the four replacement methods uses
         its own name as key in inputs/methods/outputs and in new_methods,
         forwards X, *args, **kwargs and returns exactly the delegate's return
         value; BaseEstimatorDebugInformation saves model.<m> under _debug_<m>
         and the stored lambda calls that same attribute
  C16.b  enumeration: the model is yielded before any recursive call; every
         recursive call extends the coordinate with the enumerate variable of
         the container loop; the container kinds handled equal those of
         _pipeline_info; pipeline2str appends one row per yielded item with
         indentation len(coor) - 1
  C16.c  DOT referential structure: node-name templates used in edges are
         declared, port indices come from the same enumerate, the declaration of
         node{i} precedes its edges, input edges are emitted before columns[out]
         is updated for the same line (edges point forward: acyclic by
         construction)
  C16.d  name lists are shared between the records of _pipeline_info
         (info["outputs"] = data; info["inputs"] = data; data = info[-1]["outputs"]):
         no element store, augmented assignment or container mutator is applied
         to a list read from a record or received as a parameter
"""

from __future__ import annotations

import ast
import re
from typing import Dict, List, Set

from engine.src import FunctionInfo, own_nodes, own_nodes_incl_lambda, src_of, AnalysisError
from engine.util import const_value
from .common import resolve_call
from .sem import conds_at, guarded_values, defs_texts, expander, ctext, want, xt, calls, paths, paths_deep, block_paths, stmt_of, complement_norm, RAISE

RULES = {
    "C16.a": "debug wrappers are transparent and self-consistent in their keys; saved originals and the lambdas calling them agree",
    "C16.b": "enumerate_pipeline_models: yield-before-recursion, coordinates extended by the loop's enumerate variable, container kinds agree with _pipeline_info; pipeline2str one row per item",
    "C16.d": "_pipeline_info: a name list read out of a record (rec['outputs'] / rec['inputs']) or received as `data` is never modified in place: records share these lists, so an in-place rename rewrites the endpoints other nodes already collected (undeclared edge endpoints)",
    "C16.c": "pipeline2dot: declared-before-used node templates, ports from the same enumerate, input edges before the columns table is updated (forward edges only)",
}

HP = "mlinsights.helpers.pipeline"
VZ = "mlinsights.plotting.visualize"
METHODS = ("transform", "predict", "predict_proba", "decision_function")


def _t(x) -> str:
    return ast.unparse(x) if isinstance(x, ast.AST) else str(x)


def check_a(ck, repo):
    alt = repo.func(HP, "alter_pipeline_for_debugging")
    ex = expander(repo)
    # the table name -> wrapper
    tab = {}
    tabvar = None
    for s_ in own_nodes(alt.node):
        if isinstance(s_, ast.Assign) and isinstance(s_.value, ast.Dict) and isinstance(s_.targets[0], ast.Name) and s_.value.keys and all(isinstance(const_value(k), str) and isinstance(v, ast.Name) for k, v in zip(s_.value.keys, s_.value.values)):
            tab = {const_value(k): v.id for k, v in zip(s_.value.keys, s_.value.values)}
            tabvar = s_.targets[0].id
    if set(tab) != set(METHODS):
        ck.violated("C16.a", alt, f"table of replacement methods {sorted(tab)}", f"the table of replacement methods has keys {sorted(tab)}, expected {sorted(METHODS)}")
    for m in METHODS:
        wname = tab.get(m)
        try:
            w = repo.nested(alt, wname) if wname else None
        except AnalysisError:
            w = None
        if w is None:
            ck.violated("C16.a", alt, f"def {m}(self, X, *args, **kwargs)", f"no replacement for method '{m}'")
            continue
        a = w.node.args
        sig_ok = len(a.args) == 2 and a.vararg is not None and a.kwarg is not None
        ck.verdict(sig_ok, "C16.a", w, f"signature of the wrapper of {m}", "(self, X, *args, **kwargs)", "wrapper signature changed")
        if not sig_ok:
            continue
        S, X = a.args[0].arg, a.args[1].arg
        va, kw = a.vararg.arg, a.kwarg.arg
        ps = [p for p in paths_deep(repo, w) if p.ret != RAISE]
        call = f"{S}._debug.methods['{m}']({S}, {X}, *{va}, **{kw})"
        ok = len(ps) == 1 and not ps[0].conds
        if ok:
            p = ps[0]
            st = {k: _t(v) for k, v in p.stores.items()}
            keys = list(st)
            ok = st == {f"{S}._debug.inputs['{m}']": X, f"{S}._debug.outputs['{m}']": call} and keys[0].endswith(f".inputs['{m}']") and p.ret_text() == call
            ok = ok and sum(1 for c in p.calls if _t(c) == call) == 1
        ck.verdict(ok, "C16.a", w, f"wrapper of '{m}' ({wname})", f"records input, calls the saved '{m}' once with (X, *args, **kwargs), records and returns its output unchanged", f"wrapper for '{m}' is not [record X; y = saved {m}(X, *args, **kwargs); record y; return y]: the pipeline's outputs or the recorded inputs/outputs of this step change")
    # installation: every enumerated model gets the wrappers of the methods it has
    inst = calls(alt, lambda c: isinstance(c.func, ast.Name) and c.func.id == "setattr" and len(c.args) == 3)
    oki = False
    if len(inst) == 1 and tabvar:
        c = inst[0]
        Ms = src_of(c.args[0])
        E = f"enumerate_pipeline_models({alt.named_params[0]})"
        # where the model comes from: element 1 of the items of the enumeration
        origin = None
        if isinstance(c.args[0], ast.Name):
            ds = [t for _, t in defs_texts(repo, alt, Ms)]
            if ds:
                origin = ds
            else:
                for l in own_nodes(alt.node):
                    if isinstance(l, ast.For) and isinstance(l.target, ast.Tuple) and len(l.target.elts) >= 2 and src_of(l.target.elts[1]) == Ms:
                        origin = [f"__it__({ex.text(l.iter, alt, l)}, \"('elem',)\", 0)[1]"]
        enum = origin == [f"__it__({E}, \"('elem',)\", 0)[1]"]
        K = c.args[1]
        kloop = next((p_ for p_ in _parents(c) if isinstance(p_, ast.For) and isinstance(p_.target, ast.Name) and isinstance(K, ast.Name) and p_.target.id == K.id), None)
        kit = src_of(kloop.iter) if kloop is not None else None
        val = src_of(c.args[2])
        dbg = [s_ for s_ in own_nodes(alt.node) if isinstance(s_, ast.Assign) and isinstance(s_.targets[0], ast.Attribute) and s_.targets[0].attr == "_debug"]
        # the record held in a local first (debug = Info(model); model._debug = debug): the local is the record
        if len(dbg) == 1 and isinstance(dbg[0].value, ast.Name):
            loc_ = dbg[0].value.id
            ld_ = [s_ for s_ in own_nodes(alt.node) if isinstance(s_, ast.Assign) and len(s_.targets) == 1 and isinstance(s_.targets[0], ast.Name) and s_.targets[0].id == loc_]
            if len(ld_) == 1:
                if kit is not None:
                    kit = kit.replace(f"{loc_}.", f"{Ms}._debug.") if kit.startswith(f"{loc_}.") else (f"list({Ms}._debug.methods)" if kit == f"list({loc_}.methods)" else kit)
                dbg = [ast.copy_location(ast.Assign(targets=dbg[0].targets, value=ld_[0].value), dbg[0])]
        okd = len(dbg) == 1 and src_of(dbg[0].targets[0].value) == Ms and src_of(dbg[0].value) == f"BaseEstimatorDebugInformation({Ms})" and dbg[0].lineno < c.lineno
        oki = enum and kit in (f"{Ms}._debug.methods", f"{Ms}._debug.methods.keys()", f"list({Ms}._debug.methods)") and isinstance(K, ast.Name) and val == f"MethodType({tabvar}[{K.id}], {Ms})" and okd
    ck.verdict(oki, "C16.a", alt, "install new_methods[k] for k in model._debug.methods on every enumerated model", "every enumerated model gets the wrappers of the methods it has", "wrappers are not installed as setattr(model, k, MethodType(new_methods[k], model)) for k in model._debug.methods")
    # BaseEstimatorDebugInformation: originals saved under _debug_<m>, called by the stored function
    ci = repo.cls(HP, "BaseEstimatorDebugInformation")
    init = ci.methods["__init__"]
    mp = init.named_params[1]
    ps = [p for p in paths(init) if p.ret != RAISE]
    for m in METHODS:
        has, cal = (f"hasattr({mp}, '{m}')", True), (f"callable({mp}.{m})", True)
        ok = bool(ps)
        n_on = 0
        for p in ps:
            st = p.stores
            on = has in p.conds and cal in p.conds
            saved = st.get(f"{mp}._debug_{m}")
            fn = st.get(f"self.methods['{m}']")
            if on:
                n_on += 1
                good = saved is not None and _t(saved) == f"{mp}.{m}" and isinstance(fn, ast.Lambda) and len(fn.args.args) == 2 and _t(fn.body) == f"{fn.args.args[0].arg}._debug_{m}({fn.args.args[1].arg})"
                ok = ok and good
            else:
                ok = ok and saved is None and fn is None
        # the test of this method is evaluated on every path (not chained to another method's test)
        decided = all(any(has[0] in t for t, _ in p.conds) for p in ps)
        ok = ok and decided
        ck.verdict(ok and n_on >= 1, "C16.a", init, f"hook of '{m}'", f"original '{m}' saved as _debug_{m} and called by the stored function, whenever the model has a callable '{m}' (independently of the other methods)", f"for '{m}' the saved attribute, the key and the attribute the stored function calls do not agree, or the hook depends on another method's test: a model that has '{m}' does not get it recorded")


def _parents(n):
    p = getattr(n, "_parent", None)
    while p is not None:
        yield p
        p = getattr(p, "_parent", None)


KINDS = ("Pipeline", "ColumnTransformer", "FeatureUnion")


def check_b(ck, repo):
    en = repo.func(HP, "enumerate_pipeline_models")
    # yield of the model itself precedes every recursive call in its branch
    ys = [y for y in own_nodes(en.node) if isinstance(y, ast.Expr) and isinstance(y.value, ast.Yield)]
    own = [y for y in ys if src_of(y.value.value) in ("(coor, pipe, vs)", "(coor, PassThrough(), vs)")]
    recs = [c for c in own_nodes_incl_lambda(en.node) if isinstance(c, ast.Call) and src_of(c.func) == "enumerate_pipeline_models"]
    ck.verdict(len(own) == 2, "C16.b", en, f"{[src_of(y) for y in own]}", "the model itself is yielded (once) with its coordinate", f"expected the model to be yielded once per branch, found {[src_of(y) for y in own]}")
    # every call yields its model: the only facts on the way to the own yields are the coordinate
    # default and the 'passthrough' test, and nothing returns before them
    for y_ in own:
        cs_ = [(t_, p_) for t_, p_ in conds_at(repo, en, y_) if "coor" not in t_ and "'passthrough'" not in t_]
        ck.verdict(not cs_, "C16.b", en, f"guards of {src_of(y_)[:40]}", "the model is yielded whatever it is (no further condition)", f"the model itself is yielded only when {cs_[:2]}: some estimators of the pipeline (e.g. a second 'passthrough', a shared instance) are not enumerated, so pipeline2str lacks their line")
    early_ = [r_ for r_ in own_nodes(en.node) if isinstance(r_, ast.Return) and own and r_.lineno < min(y_.lineno for y_ in own)]
    ck.verdict(not early_, "C16.b", en, early_[0] if early_ else "no return before the model is yielded", "nothing leaves the generator before the model itself was yielded", "the generator returns before yielding the model itself: that estimator (and its children) is missing from the enumeration")
    first_own = min((y.lineno for y in own if "pipe, vs" in src_of(y)), default=None)
    ck.verdict(first_own is not None and all(c.lineno > first_own for c in recs), "C16.b", en, "yield coor, pipe, vs before any recursive call", "parents are yielded before their children", "a recursive call precedes the yield of the container itself: children come before parents")
    # every recursive call: coor + (<enumerate var>,) ; enclosing loop enumerates the container
    for c in recs:
        a1 = c.args[1] if len(c.args) > 1 else None
        loop = None
        p = getattr(c, "_parent", None)
        while p is not None and p is not en.node:
            if isinstance(p, ast.For) and isinstance(p.iter, ast.Call) and src_of(p.iter.func) == "enumerate":
                loop = p
                break
            p = getattr(p, "_parent", None)
        if loop is None:
            # mapper case: coor + (0,)
            ck.verdict(a1 is not None and src_of(a1) == "coor + (0,)", "C16.b", en, c, "single child gets coordinate coor + (0,)", f"recursive call outside an enumerate loop passes {src_of(a1) if a1 is not None else None}")
            continue
        iv = loop.target.elts[0].id if isinstance(loop.target, ast.Tuple) and isinstance(loop.target.elts[0], ast.Name) else None
        ex = expander(repo)
        ck.verdict(a1 is not None and iv is not None and ex.text(a1, en, c) == want(repo, f"coor + ({iv},)", en, c), "C16.b", en, c, f"child {iv} gets coordinate coor + ({iv},)", f"recursive call passes coordinate {src_of(a1) if a1 is not None else None}, expected coor + ({iv},): coordinates are not distinct or their length is not the nesting depth")
        # the recursive result is re-yielded unchanged
        par = c._parent
        if isinstance(par, ast.YieldFrom):
            ck.holds("C16.b", en, par, "every item of the child enumeration is yielded once, unchanged")
        elif isinstance(par, ast.For) and par.iter is c:
            ok = len(par.body) == 1 and isinstance(par.body[0], ast.Expr) and isinstance(par.body[0].value, ast.Yield) and src_of(par.body[0].value.value) == src_of(par.target)
            ck.verdict(ok, "C16.b", en, par, "every item of the child enumeration is yielded once, unchanged", "items of the child enumeration are not re-yielded exactly once")
    # container kinds: containers iterated here vs in _pipeline_info
    def kinds_of(fn, attrmap, owner=None, depth=0):
        out = {}
        for s in own_nodes(fn):
            if isinstance(s, ast.If) and isinstance(s.test, ast.Call) and src_of(s.test.func) == "isinstance" and src_of(s.test.args[0]) == "pipe":
                karg = s.test.args[1]
                ks = [src_of(e) for e in karg.elts] if isinstance(karg, ast.Tuple) else [src_of(karg)]
                loops = [l for l in ast.walk(ast.Module(body=s.body, type_ignores=[])) if isinstance(l, ast.For)]
                for k in ks:
                    its = [src_of(l.iter) for l in loops]
                    # children produced by a generator helper that dispatches on the container kind itself
                    for l in loops:
                        it = l.iter
                        wrapped = isinstance(it, ast.Call) and src_of(it.func) == "enumerate" and it.args
                        inner = it.args[0] if wrapped else it
                        if depth < 2 and owner is not None and isinstance(inner, ast.Call) and [src_of(a) for a in inner.args] == ["pipe"]:
                            h = resolve_call(repo, owner, inner)
                            if h is not None and any(isinstance(y, (ast.Yield, ast.YieldFrom)) for y in own_nodes(h.node)):
                                sub = kinds_of(h.node, None, h, depth + 1).get(k, [])
                                hl = [x for x in own_nodes(h.node) if isinstance(x, ast.For) and src_of(x.iter) in sub]
                                one_each = all(len([y for y in ast.walk(x) if isinstance(y, ast.Yield)]) == 1 and len(x.body) == 1 and isinstance(x.body[0], ast.Expr) for x in hl)
                                if one_each:
                                    its += [f"enumerate({x})" if wrapped else x for x in sub]
                    out[k] = out.get(k, []) + its
        return out
    ke = kinds_of(en.node, None, en)
    pi = repo.func(VZ, "_pipeline_info")
    kp = kinds_of(pi.node, None, pi)
    want_e = {"Pipeline": "enumerate(pipe.steps)", "ColumnTransformer": "enumerate(pipe.transformers)", "FeatureUnion": "enumerate(pipe.transformer_list)"}
    want_p = {"Pipeline": "pipe.steps", "ColumnTransformer": "pipe.transformers", "FeatureUnion": "pipe.transformer_list"}
    for k in KINDS:
        ck.verdict(want_e[k] in ke.get(k, []), "C16.b", en, f"{k}: {ke.get(k)}", f"{k} children are enumerated from {want_e[k]}", f"enumerate_pipeline_models does not enumerate {want_e[k]} for {k}")
        ck.verdict(any(x == want_p[k] for x in kp.get(k, [])), "C16.b", pi, f"{k}: {kp.get(k, [])[:2]}", f"_pipeline_info walks the same container attribute {want_p[k]}", f"_pipeline_info does not walk {want_p[k]} for {k}: drawing and enumeration disagree on the children of a {k}")
    ck.verdict({k for k in ke if k in KINDS} == {k for k in kp if k in KINDS} == set(KINDS), "C16.b", en, f"container kinds {sorted(k for k in ke if k in KINDS)} / {sorted(k for k in kp if k in KINDS)}", "both functions handle Pipeline, ColumnTransformer, FeatureUnion", "the two functions do not handle the same container kinds")
    # pipeline2str
    ps = repo.func(VZ, "pipeline2str")
    _pipeline2str(ck, repo, ps)


def _row_pieces(y: ast.AST, item: str):
    """(why not, multi-line?, has indentation, has class name) of one row expression"""
    why, multi, ind, cls = None, False, False, False
    if isinstance(y, ast.IfExp):
        a, b = _row_pieces(y.body, item), _row_pieces(y.orelse, item)
        return (a[0] or b[0], a[1] or b[1], a[2] and b[2], a[3] and b[3])
    if isinstance(y, ast.Constant) and isinstance(y.value, str):
        if "\n" in y.value or "\r" in y.value:
            return (f"the literal {y.value!r} breaks the line", True, False, False)
        return (None, False, False, False)
    if isinstance(y, ast.JoinedStr):
        for part in y.values:
            if isinstance(part, ast.Constant):
                if "\n" in str(part.value) or "\r" in str(part.value):
                    why, multi = f"the literal {part.value!r} breaks the line", True
            elif isinstance(part, ast.FormattedValue):
                e_ = part.value
                t = ast.unparse(e_)
                if t.startswith("' ' * ") or t.endswith(" * ' '"):
                    ind = ind or (ctext(t) in (ctext(f"' ' * indent * (len({item}[0]) - 1)"), ctext(f"' ' * (indent * (len({item}[0]) - 1))"), ctext("' ' * indent * (len(coor) - 1)")))
                    continue
                if t.endswith(".__name__"):
                    cls = True
                    continue
                if isinstance(e_, ast.Call) and isinstance(e_.func, ast.Attribute) and e_.func.attr == "join" and isinstance(e_.func.value, ast.Constant) and isinstance(e_.func.value.value, str) and "\n" not in e_.func.value.value:
                    continue
                if isinstance(e_, (ast.IfExp, ast.JoinedStr, ast.Constant)):
                    sub = _row_pieces(e_, item)
                    why, multi = why or sub[0], multi or sub[1]
                    continue
                why = why or f"the piece {t[:60]} is not the indentation, a class name or the joined column list"
        return (why, multi, ind, cls)
    t = ast.unparse(y)
    f_ = ast.unparse(y.func) if isinstance(y, ast.Call) else ""
    if f_ in ("textwrap.fill", "fill", "textwrap.indent", "pprint.pformat", "pformat") or (f_.endswith(".join") and isinstance(y.func.value, ast.Constant) and "\n" in str(y.func.value.value)):
        return (f"{f_}(...) cuts or joins the text with line breaks", True, False, False)
    return (f"the row {t[:70]} is not an f-string of indentation, class name and columns", False, False, False)


def _pipeline2str(ck, repo, ps):
    from .sem import guarded_values, elementwise

    rets = [x for x in own_nodes(ps.node) if isinstance(x, ast.Return) and x.value is not None]
    if len(rets) != 1 or not (isinstance(rets[0].value, ast.Call) and isinstance(rets[0].value.func, ast.Attribute) and rets[0].value.func.attr == "join" and isinstance(rets[0].value.func.value, ast.Constant) and rets[0].value.func.value.value == "\n" and len(rets[0].value.args) == 1):
        ck.violated("C16.b", ps, rets[0] if rets else "return", "rows are not joined one per line")
        return
    ck.holds("C16.b", ps, f"return {src_of(rets[0].value)[:50]}", "one line per row")
    arg = rets[0].value.args[0]
    loops = [l for l in own_nodes(ps.node) if isinstance(l, ast.For)]
    rows = []  # (facts, row expression in terms of the loop item)
    item = None
    if len(loops) == 1 and isinstance(arg, ast.Name):
        L = loops[0]
        apps = [s_ for s_ in ast.walk(L) if isinstance(s_, ast.Expr) and isinstance(s_.value, ast.Call) and src_of(s_.value.func) == f"{arg.id}.append"]
        in_branch = [s_ for s_ in apps if not any(s_ is x for x in L.body)]
        ok = src_of(L.iter) == "enumerate_pipeline_models(pipe)" and isinstance(L.target, ast.Tuple) and len(L.target.elts) == 3
        ck.verdict(ok and len(apps) == 1 and not in_branch, "C16.b", ps, f"for .. in enumerate_pipeline_models(pipe): ... {arg.id}.append(..)", "exactly one row per yielded model", "pipeline2str does not append exactly one row per yielded model")
        if not (ok and len(apps) == 1 and not in_branch):
            return
        item = ctext('__it__(enumerate_pipeline_models(pipe), "(\'elem\',)", 0)')
        for c_, v_, _st in guarded_values(repo, ps, apps[0].value.args[0], apps[0]):
            rows.append((sorted(c_), v_))
        site = apps[0]
    else:
        r = elementwise(repo, ps, arg, rets[0])
        if r is None or r[0] != ["enumerate_pipeline_models(pipe)"]:
            ck.unknown("C16.b", ps, rets[0], f"the rows are not read as one element per item of enumerate_pipeline_models(pipe) ({r[0] if r else 'not element-wise'})")
            return
        ck.holds("C16.b", ps, "one row per item of enumerate_pipeline_models(pipe)", "exactly one row per yielded model (element-wise construction, no filter)")
        item = "__e0"
        from .sem import element_alternatives

        for facts_, el_ in element_alternatives(repo, ps, r[1]):
            rows.append(([(str(f_), True) for f_ in facts_], el_))
        site = rets[0]
    for facts, v_ in rows:
        truthy = [a for a, _b in facts if a.replace(" ", "") in (f"{item}[2]".replace(" ", ""), "vs", "__e0[2]")]
        if truthy:
            ck.violated("C16.b", ps, site, f"the row is chosen by the truth value of the columns ({truthy[0][-40:]}), not by `is None`: the columns of a ColumnTransformer can be a pandas Index or a numpy array, whose truth value is ambiguous (ValueError), so pipeline2str prints no line at all for such a pipeline")
            continue
        try:
            y = ast.parse(_nt(v_), mode="eval").body
        except SyntaxError:
            y = v_
        why, multi, ind, cls = _row_pieces(y, item)
        if why is None:
            ck.holds("C16.b", ps, f"row when {[(a[-12:], b) for a, b in facts]}", "the row is indentation + class name (+ joined columns): one physical line per model")
            ck.verdict(ind and cls, "C16.b", ps, f"row pieces when {[(a[-12:], b) for a, b in facts]}", "indentation = indent * (depth - 1), then the class name", "the row does not start with ' ' * indent * (len(coordinate) - 1) followed by the class name: the indentation no longer tells the nesting depth")
        elif multi:
            ck.violated("C16.b", ps, site, f"{why}: a model can produce several lines, so the lines of pipeline2str and the models yielded by enumerate_pipeline_models no longer correspond one to one")
        else:
            ck.unknown("C16.b", ps, site, why)


def _nt(x: ast.AST) -> str:
    """text with every string-formatting form written as an f-string"""
    from engine.util import clone_ast

    y = complement_norm(clone_ast(x))
    ast.fix_missing_locations(y)
    return ast.unparse(y)


def _loop_vars(l: ast.For):
    """(index variable, element variable, iterable text) of `for i, e in enumerate(S)`,
    `for e in S`, `for i in range(..)`; S read through a local bound just before to a record entry
    (`outs = line["outputs"]`) is that entry"""
    i_, e_, src = _loop_vars0(l)
    if src and src.isidentifier():
        par = getattr(l, "_parent", None)
        seq = next((getattr(par, f_) for f_ in ("body", "orelse") if isinstance(getattr(par, f_, None), list) and l in getattr(par, f_)), None)
        if seq is not None:
            defs = [s_ for s_ in seq[: seq.index(l)] if isinstance(s_, ast.Assign) and len(s_.targets) == 1 and src_of(s_.targets[0]) == src]
            stores = [n for n in ast.walk(par) if isinstance(n, ast.Name) and n.id == src and isinstance(n.ctx, ast.Store)]
            if len(defs) == 1 and len(stores) == 1 and isinstance(defs[0].value, ast.Subscript) and isinstance(defs[0].value.slice, ast.Constant):
                src = src_of(defs[0].value)
    return i_, e_, src


def _loop_vars0(l: ast.For):
    it = l.iter
    if isinstance(it, ast.Call) and src_of(it.func) == "enumerate" and isinstance(l.target, ast.Tuple) and len(l.target.elts) == 2:
        return src_of(l.target.elts[0]), src_of(l.target.elts[1]), src_of(it.args[0])
    if isinstance(it, ast.Call) and src_of(it.func) == "range" and isinstance(l.target, ast.Name):
        return l.target.id, None, src_of(it)
    if isinstance(l.target, ast.Name):
        return None, l.target.id, src_of(it)
    return None, None, src_of(it)


def check_c(ck, repo):
    pd = repo.func(VZ, "pipeline2dot")
    ex = expander(repo)
    loops = [l for l in own_nodes(pd.node) if isinstance(l, ast.For) and isinstance(l.iter, ast.Call) and src_of(l.iter.func) == "enumerate" and isinstance(l.target, ast.Tuple) and any(isinstance(x, ast.If) for x in l.body)]
    loops = [l for l in loops if any(isinstance(x, ast.If) and src_of(x.test).replace(" ", "") in (f"{src_of(l.target.elts[0])}==0", f"0=={src_of(l.target.elts[0])}") for x in l.body)]
    if len(loops) != 1:
        ck.unknown("C16.c", pd, "for i, line in enumerate(info)", "main loop not found")
        return
    L = loops[0]
    iv, lv = src_of(L.target.elts[0]), src_of(L.target.elts[1])
    branch = [x for x in L.body if isinstance(x, ast.If) and src_of(x.test).replace(" ", "") in (f"{iv}==0", f"0=={iv}")][0]
    first, rest = branch.body, branch.orelse
    out_list = None
    for s_ in own_nodes(pd.node):
        if isinstance(s_, ast.Assign) and isinstance(s_.value, ast.List) and [const_value(e) for e in s_.value.elts] == ["digraph{"]:
            out_list = src_of(s_.targets[0])
    if out_list is None:
        ck.unknown("C16.c", pd, "exp = ['digraph{']", "output list not found")
        return

    def port_loop(stmts, step):
        """loops that register ports: columns[K] = f'sch{step}:f{C}' and label '<f{C}> {K}'"""
        res = []
        for l in [x for x in stmts if isinstance(x, ast.For)]:
            c, k, src = _loop_vars(l)
            if c is None or k is None:
                continue
            body = [_nt(x) for x in l.body]
            reg = [b for b in body if re.match(r"^\w+\[%s\] = " % re.escape(k), b)]
            if reg:
                tab = reg[0].split("[")[0]
                exact = reg == [f"{tab}[{k}] = f'sch{step}:f{{{c}}}'"]
                ok = exact and any(b.endswith(f".append(f'<f{{{c}}}> {{{k}}}')") for b in body) and len(body) == 2
                if not ok:
                    # the port written with another index than the loop's own counter is wrong; any other
                    # spelling (labels built in another pass, a hoisted prefix) is left to the rule by roles
                    wrong = [b for b in reg if re.search(r"= f'sch[^']*:f\{", b) and not b.endswith(f":f{{{c}}}'")]
                    ok = False if wrong else "other"
                res.append((l, tab, ok, src))
            else:
                # the registration exists but not as a plain statement of the loop body (under a
                # condition, in a nested loop): some outputs keep the port of an earlier schema
                deep = [_nt(x) for x in ast.walk(l) if isinstance(x, ast.Assign) and x not in l.body and re.match(r"^\w+\[%s\] = f'sch" % re.escape(k), _nt(x))]
                if deep:
                    res.append((l, deep[0].split("[")[0], False, src))
        return res

    p0 = port_loop(first, "0")
    if len(p0) == 1 and p0[0][2] == "other":
        ck.unknown("C16.c", pd, "input schema: columns[col] = sch0:f{c}; label <f{c}>", "the ports of the input schema are registered in another spelling than `columns[col] = f'sch0:f{c}'` next to the label `<f{c}> col`")
    else:
      ck.verdict(len(p0) == 1 and p0[0][2] is True, "C16.c", pd, "input schema: columns[col] = sch0:f{c}; label <f{c}>", "input column c is declared as port f{c} of sch0 and referred to by the same port", "the port declared for an input column and the port recorded for its edges differ")
    tab = p0[0][1] if p0 else "columns"
    # --- classification of the statements of the step branch
    kinds = []
    for k_, s_ in enumerate(rest):
        t = _nt(s_)
        if isinstance(s_, ast.Expr) and isinstance(s_.value, ast.Call) and src_of(s_.value.func) == f"{out_list}.append" and isinstance(s_.value.args[0], ast.Name):
            nm = s_.value.args[0].id
            alts = [_nt(x_) for _, x_, _ in guarded_values(repo, pd, s_.value.args[0], s_)]
            alts2 = []
            for a in alts:
                alts2.append(a)
            ivx = want(repo, iv, pd, s_)
            if alts and all(a.startswith("f'  node{%s}[label=" % ivx) for a in alts):
                kinds.append(("emit-node", s_))
            elif alts and all(a.startswith("f'  sch{%s}[label=" % ivx) for a in alts):
                kinds.append(("emit-schema", s_))
            else:
                kinds.append(("emit-other:" + "|".join(a[:30] for a in alts), s_))
        elif isinstance(s_, ast.For):
            c, k, src = _loop_vars(s_)
            body = [_nt(x) for x in ast.walk(s_) if isinstance(x, (ast.Assign, ast.Expr)) and not isinstance(getattr(x, "value", None), ast.Constant)]
            regs = port_loop([s_], f"{{{iv}}}")
            if regs:
                if regs[0][2] == "other":
                    kinds.append(("update-columns-other", s_))
                else:
                    kinds.append(("update-columns" if regs[0][2] is True and regs[0][3] == f"{lv}['outputs']" else "update-columns-bad", s_))
            elif any(f"-> node{{{iv}}};" in b for b in body):
                okin = src == f"{lv}['inputs']" and any(b == f"{x_.split(' = ')[0]} = {tab}.get({k}, {k})" for b in body for x_ in [b] if " = " in b and f"{tab}.get(" in b) and any(re.match(r"^\w+ = f'  \{(\w+)\} -> node\{%s\};'$" % re.escape(iv), b) for b in body)
                kinds.append(("input-edges" if okin else "input-edges-bad", s_))
            elif any(f"node{{{iv}}} -> " in b for b in body):
                okout = src == f"{lv}['outputs']" and any(b.endswith(f" = {tab}[{k}]") for b in body) and any(re.match(r"^\w+ = f'  node\{%s\} -> \{(\w+)\};'$" % re.escape(iv), b) for b in body)
                kinds.append(("output-edges" if okout else "output-edges-bad", s_))
    order = [k for k, _ in kinds if not k.startswith("emit-other")]
    want_ = ["emit-node", "input-edges", "update-columns", "emit-schema", "output-edges"]
    if set(order) != set(want_) and not any(k.endswith("-bad") for k in order):
        # other spellings of the same statements: roles by what each top-level statement of the step
        # does to the table of ports (reads it for the inputs, writes it, reads it for the outputs)
        roles = []
        for s_ in rest:
            txt = _nt(s_) if not isinstance(s_, (ast.For, ast.If, ast.While)) else "\n".join(_nt(x) for x in ast.walk(s_) if isinstance(x, (ast.Assign, ast.Expr, ast.AugAssign)))
            it_txt = ex.text(s_.iter, pd, s_) if isinstance(s_, ast.For) else ""
            writes = bool(re.search(r"\b%s\[[^\]]+\] = " % re.escape(tab), txt)) or f"{tab}.update(" in txt
            reads = f"{tab}.get(" in txt or bool(re.search(r"\b%s\[" % re.escape(tab), txt.replace(f"{tab}[", f"{tab}[", 1))) and not writes
            appends = f"{out_list}.append(" in txt and "->" in txt
            if appends and "['inputs']" in it_txt:
                roles.append(("input-edges", s_))
            elif appends and ("['outputs']" in it_txt or reads and "['inputs']" not in it_txt):
                roles.append(("output-edges", s_))
            elif writes:
                roles.append(("update-columns", s_))
        rnames = [r for r, _ in roles]
        if rnames.count("input-edges") == 1 and rnames.count("update-columns") >= 1 and rnames.count("output-edges") == 1:
            # the edges of the step are attached to the step's own node
            ivx_ = want(repo, iv, pd, rest[0])
            ends_ok = True
            for rn_, s_ in roles:
                if rn_ not in ("input-edges", "output-edges"):
                    continue
                apps_ = [c_ for c_ in ast.walk(s_) if isinstance(c_, ast.Call) and src_of(c_.func) == f"{out_list}.append" and c_.args]
                for c_ in apps_:
                    alts_ = [_nt(x_) for _, x_, _ in guarded_values(repo, pd, c_.args[0], stmt_of(c_))] or [_nt(ex.norm_expr(c_.args[0], pd, stmt_of(c_)))]
                    alts_ += [_nt(ex.norm_expr(c_.args[0], pd, stmt_of(c_)))]
                    for a_ in alts_:
                        a_ = a_.replace(f"{{f'node{{{ivx_}}}'}}", f"node{{{ivx_}}}")  # a nested f-string spliced in place
                        good = (f"-> node{{{ivx_}}};" in a_) if rn_ == "input-edges" else (f"  node{{{ivx_}}} -> " in a_)
                        ends_ok = ends_ok and good
            if not ends_ok:
                ck.violated("C16.c", pd, f"order {rnames}", "an edge of the step is not attached to the step's own node (node{i}): the graph links a transformation to the inputs or outputs of another one")
            okord = rnames.index("input-edges") < rnames.index("update-columns") and max(i_ for i_, r in enumerate(rnames) if r == "update-columns") < rnames.index("output-edges")
            ck.verdict(okord, "C16.c", pd, f"order {rnames}", "the input edges are resolved through the ports registered by earlier steps before this step registers its own outputs; the output edges come after", f"statement order in the node branch is {rnames}: the step registers its outputs before its input edges are resolved (an input with the same name resolves to the node's own output: a cycle, and the step is cut off from the inputs), or links outputs that are not registered yet")
        else:
            ck.unknown("C16.c", pd, f"order {order} / {rnames}", "the statements of the node branch that resolve the input edges, register the outputs and link them were not all recognised")
    else:
        ck.verdict(order == want_, "C16.c", pd, f"order {order}", "node declared, then its input edges (resolved through the ports registered by earlier steps), then its outputs are registered, declared and linked", f"statement order in the node branch is {order}; expected {want_}: an edge may refer to a node/port that is not declared yet, an input edge may resolve to the node's own output (cycle), or a port is registered under another index than the one declared")
    # graph delimiters and the list of lines
    st = [_nt(s_) for s_ in own_nodes(pd.node) if isinstance(s_, (ast.Assign, ast.Expr, ast.Return))]
    ck.verdict(f"{out_list}.append('}}')" in st and f"return '\\n'.join({out_list})" in st, "C16.c", pd, "digraph{ ... }", "the text is one digraph block", "graph delimiters changed")
    # the data->port table of the inputs handed to _pipeline_info
    okd = 0
    bad = []
    for l in [x for x in own_nodes(pd.node) if isinstance(x, ast.For)]:
        c, k, src = _loop_vars(l)
        for b in [x for x in l.body if isinstance(x, ast.Assign) and isinstance(x.targets[0], ast.Subscript) and src_of(x.targets[0].value) == "data"]:
            t = _nt(b)
            if c is not None and k is not None and t == f"data[{k}] = f'sch0:f{{{c}}}'" and src.endswith(".columns"):
                okd += 1
            elif c is not None and k is None and t == f"data[f'X{{{c}}}'] = f'sch0:f{{{c}}}'" and src.replace(" ", "") in ("range(raw_data.shape[1])", "range(0,raw_data.shape[1])"):
                okd += 1
            else:
                bad.append(t)
    if okd == 0 and not bad:
        # the table built in one expression: OrderedDict((name, 'sch0:f<k>') for k, name in enumerate(NAMES)),
        # NAMES being the frame's columns, X0..X<ncol-1> for an array, nothing for a list
        comp = None
        tnames = {"data"}
        for s_ in own_nodes(pd.node):
            if isinstance(s_, ast.Assign) and len(s_.targets) == 1 and src_of(s_.targets[0]) == "data" and isinstance(s_.value, ast.Name):
                tnames.add(s_.value.id)  # data = <local holding the table>
        for s_ in own_nodes(pd.node):
            if isinstance(s_, ast.Assign) and len(s_.targets) == 1 and src_of(s_.targets[0]) in tnames and isinstance(s_.value, ast.Call) and src_of(s_.value.func).split(".")[-1] in ("OrderedDict", "dict") and len(s_.value.args) == 1 and isinstance(s_.value.args[0], (ast.GeneratorExp, ast.ListComp)):
                comp = (s_, s_.value.args[0])
            if isinstance(s_, ast.Assign) and len(s_.targets) == 1 and src_of(s_.targets[0]) in tnames and isinstance(s_.value, ast.DictComp):
                comp = (s_, s_.value)
        if comp is None:
            ck.unknown("C16.c", pd, "input table", "neither numbering loops nor a one-expression table of the input columns were found")
        else:
            s_, g_ = comp
            gen = g_.generators[0] if len(g_.generators) == 1 and not g_.generators[0].ifs else None
            okg = False
            if gen is not None and isinstance(gen.iter, ast.Call) and src_of(gen.iter.func) == "enumerate" and len(gen.iter.args) == 1 and isinstance(gen.target, ast.Tuple) and len(gen.target.elts) == 2:
                kv, cv = [src_of(x) for x in gen.target.elts]
                if isinstance(g_, ast.DictComp):
                    key_t, val_t = src_of(g_.key), _nt(g_.value)
                else:
                    key_t, val_t = (src_of(g_.elt.elts[0]), _nt(g_.elt.elts[1])) if isinstance(g_.elt, ast.Tuple) and len(g_.elt.elts) == 2 else (None, None)
                okg = key_t == cv and val_t == f"f'sch0:f{{{kv}}}'"
                names_alts = sorted({_nt(v_) for _c, v_, _s in guarded_values(repo, pd, gen.iter.args[0], s_)})
                allowed = {"raw_data.columns", "data.columns", "[]", "[f'X{_c0}' for _c0 in range(raw_data.shape[1])]", "[f'X{_c0}' for _c0 in range(data.shape[1])]", "[f'X{_c0}' for _c0 in range(0, raw_data.shape[1])]"}
                extra = [n_ for n_ in names_alts if n_ not in allowed]
                ck.verdict(okg and not extra and len(names_alts) >= 2, "C16.c", pd, f"input table: (name, sch0:f<k>) for k, name in enumerate({names_alts})", "input columns are numbered by their position: every column of a frame, X0..X<ncol-1> of an array", f"the input table is built from {extra or names_alts}: not every input column gets the port of its position (an array has raw_data.shape[1] columns, named X0..)")
            else:
                ck.unknown("C16.c", pd, s_, "the one-expression input table is not (name, port) for position, name in enumerate(names)")
    else:
        ck.verdict(okd == 2 and not bad, "C16.c", pd, f"input table: {okd} numbering loops {bad}", "input columns are numbered by their position", "input ports are not numbered by column position")
    info_ok = any(re.match(r"^\w+ = \[(dict\(schema_after=data\)|\{'schema_after': data\})\]$", t) for t in st) and any(re.match(r"^(\w+)\.extend\(_pipeline_info\(pipe, data, context=(dict\(n=0, names=names\)|\{'n': 0, 'names': names\})\)\)$", t) for t in st)
    ck.verdict(info_ok and src_of(L.iter.args[0]) in [t.split(" = ")[0] for t in st if "schema_after=data" in t or "'schema_after': data" in t], "C16.c", pd, "info = [schema] + _pipeline_info(...)", "line 0 is the input schema, the steps follow in pipeline order", "the list of lines is not [input schema] + steps")


_LIST_MUTATORS = {"append", "extend", "insert", "remove", "pop", "clear", "sort", "reverse", "update", "setdefault", "popitem", "__setitem__", "__delitem__"}


def _shared_name_list(x: ast.AST, params) -> bool:
    """rec['outputs'] / rec['inputs'] (whatever rec is) or a data parameter"""
    if isinstance(x, ast.Name):
        return x.id in params
    if isinstance(x, ast.Subscript):
        k = const_value(x.slice)
        return k in ("outputs", "inputs")
    return False


def check_d(ck, repo):
    pi = repo.func(VZ, "_pipeline_info")
    if pi is None:
        raise AnalysisError("anchor vanished: _pipeline_info")
    from .sem import nested_functions

    n = 0
    for fi in [pi] + nested_functions(repo, pi):
        params = {p for p in pi.named_params if p in ("data", "former_data")} if fi is pi else set()
        sites = []
        for st in own_nodes(fi.node):
            if isinstance(st, (ast.Assign, ast.AugAssign, ast.AnnAssign, ast.Delete)):
                tg = st.targets if isinstance(st, (ast.Assign, ast.Delete)) else [st.target]
                for t in tg:
                    if isinstance(t, ast.Subscript):
                        sites.append((st, t.value, "element store"))
                    elif isinstance(st, ast.AugAssign) and isinstance(t, ast.Name):
                        sites.append((st, t, "augmented assignment"))
            if isinstance(st, ast.Call) and isinstance(st.func, ast.Attribute) and st.func.attr in _LIST_MUTATORS:
                sites.append((stmt_of(st), st.func.value, f".{st.func.attr}()"))
        for st, recv, how in sites:
            n += 1
            alts = guarded_values(repo, fi, recv, st)
            hit = [v for _, v, _ in alts if _shared_name_list(v, params)]
            if isinstance(recv, ast.Name) and recv.id in params and not alts:
                hit = [recv]
            if hit:
                ck.violated("C16.d", fi, st, f"{how} on `{src_of(recv)}` = `{xt(hit[0])[:80]}`: this list of names is shared with other records (a step that passes its single input through stores the same list as inputs and outputs, and the next step receives it as `data`): renaming in place changes endpoints that were already collected, so an edge refers to a name no node declares")
            else:
                ck.holds("C16.d", fi, st, f"{how} on a list built in this call (`{src_of(recv)}`)", nontrivial=False)
    ck.holds("C16.d", pi, "no in-place update of a shared name list", f"{n} update sites of _pipeline_info and its helpers examined")
    # the name lists of a record are read several times (the remainder block of a column
    # transformer, then the drawing loop): what is stored must be re-iterable
    mod = pi.module
    reads = {}
    for nd in ast.walk(mod.tree):
        if isinstance(nd, ast.Subscript) and isinstance(nd.ctx, ast.Load) and isinstance(nd.slice, ast.Constant) and nd.slice.value in ("inputs", "outputs"):
            reads[nd.slice.value] = reads.get(nd.slice.value, 0) + 1
    ex = expander(repo)
    m = 0
    for fi in [pi] + nested_functions(repo, pi):
        stores = []
        for st in own_nodes(fi.node):
            if isinstance(st, ast.Assign):
                for t in st.targets:
                    if isinstance(t, ast.Subscript) and isinstance(t.slice, ast.Constant) and t.slice.value in ("inputs", "outputs"):
                        stores.append((st, t.slice.value, st.value))
            if isinstance(st, ast.Dict):
                for k_, v_ in zip(st.keys, st.values):
                    if isinstance(k_, ast.Constant) and k_.value in ("inputs", "outputs"):
                        stores.append((stmt_of(st), k_.value, v_))
        for st, key, val in stores:
            m += 1
            alts = [v for _, v, _ in guarded_values(repo, fi, val, st)] or [val]
            one_shot = [v for v in alts if isinstance(v, ast.GeneratorExp) or (isinstance(v, ast.Call) and src_of(v.func) in ("map", "filter", "zip", "iter", "reversed", "enumerate", "chain", "itertools.chain", "chain.from_iterable", "itertools.chain.from_iterable"))]
            if one_shot and reads.get(key, 0) >= 2:
                ck.violated("C16.d", fi, st, f"record['{key}'] = {src_of(one_shot[0])[:70]}: a one-shot iterator; the key is read at {reads[key]} places of the module (the remainder='passthrough' block reads the inputs of earlier steps before pipeline2dot draws them): the second reader finds it exhausted and the step is drawn without its input edges")
    ck.holds("C16.d", pi, "name lists stored in records are re-iterable", f"{m} stores under 'inputs' / 'outputs' examined; read sites: {reads}")


def check_graph_attributes(ck, repo):
    """C16.c (graph attributes): `name=value;` lines written without quotes are well-formed DOT only
    for values that are DOT identifiers or numbers.  The names written that way come from a closed
    list in the source (whose documented values are such), never from whatever keys the caller
    passed: `size="8,6"`, `bgcolor="#eee"`, `label="a b"` unquoted are syntax errors or stray nodes."""
    fi = repo.func("mlinsights.plotting.visualize", "pipeline2dot")
    kw = fi.node.args.kwarg.arg if fi.node.args.kwarg else None
    n = 0
    for c in own_nodes(fi.node):
        if not (isinstance(c, ast.Call) and isinstance(c.func, ast.Attribute) and c.func.attr == "append" and c.args and isinstance(c.args[0], ast.JoinedStr)):
            continue
        js = c.args[0]
        txt = "".join(v.value if isinstance(v, ast.Constant) else "{}" for v in js.values)
        if not re.match(r"^\s*\{\}=\{\};?\s*$", txt):
            continue
        name_e = next(v.value for v in js.values if isinstance(v, ast.FormattedValue))
        n += 1
        if isinstance(name_e, ast.Constant):
            continue
        loops = [p_ for p_ in _parents(c) if isinstance(p_, ast.For) and isinstance(p_.target, ast.Name) and p_.target.id == src_of(name_e)]
        if not loops:
            ck.unknown("C16.c", fi, c, f"the attribute name {src_of(name_e)} written without quotes is not a constant nor a loop variable")
            continue
        it = loops[0].iter
        if isinstance(it, (ast.List, ast.Tuple)) and all(isinstance(e_, ast.Constant) for e_ in it.elts):
            continue
        srcs = [src_of(it)]
        if isinstance(it, ast.Name):
            srcs += [src_of(s_) for s_ in own_nodes(fi.node) if isinstance(s_, (ast.Assign, ast.AugAssign, ast.Expr)) and re.search(r"\b%s\b" % re.escape(it.id), src_of(s_)) and s_.lineno < loops[0].lineno]
        from_caller = [t for t in srcs if kw and re.search(r"\b(%s|options)\b" % re.escape(kw), t) and not re.match(r"^\s*options\s*=\s*\{", t)]
        if from_caller:
            ck.violated("C16.c", fi, c, f"graph attributes are written without quotes for names taken from the caller's options ({from_caller[0][:70]}): a value that is not a DOT identifier or a number (size=\"8,6\", a colour #rrggbb, a label with a space) gives a graph that is not well-formed DOT")
        else:
            ck.unknown("C16.c", fi, c, f"the names of the attributes written without quotes come from {srcs[0][:50]}, not from a literal list")
    ck.holds("C16.c", fi, f"{n} unquoted `name=value;` lines", "unquoted graph attributes are a closed list of names", nontrivial=False)


def _parents(n):
    p = getattr(n, "_parent", None)
    while p is not None:
        yield p
        p = getattr(p, "_parent", None)


def run(ck):
    repo = ck.repo
    for k, v in RULES.items():
        ck.rule(k, v)
    check_graph_attributes(ck, repo)
    check_a(ck, repo)
    check_b(ck, repo)
    check_c(ck, repo)
    check_d(ck, repo)
    ck.require_count("C16.d", 1, "update sites of _pipeline_info")
    ck.require_count("C16.a", 10, "4 wrappers x (body, signature), table, installation, 4 saved originals")
    ck.require_count("C16.b", 12, "yields, recursive calls, container kinds x2 functions, pipeline2str")
    ck.require_count("C16.c", 4, "schema 0, order, declarations, input/output edges, ports, delimiters, input table, line list")


_H = "mlinsights/helpers/pipeline.py"
_V = "mlinsights/plotting/visualize.py"
WITNESSES = [
    {"name": "wrapper-key-mismatch", "file": _H, "rule": "C16.a", "old": '        self._debug.outputs["predict_proba"] = y\n', "new": '        self._debug.outputs["predict"] = y\n'},
    {"name": "wrapper-calls-other-method", "file": _H, "rule": "C16.a", "old": '        y = self._debug.methods["decision_function"](self, X, *args, **kwargs)\n', "new": '        y = self._debug.methods["predict"](self, X, *args, **kwargs)\n'},
    {"name": "wrapper-returns-copy", "file": _H, "rule": "C16.a", "old": '        self._debug.outputs["transform"] = y\n        return y\n', "new": '        self._debug.outputs["transform"] = y\n        return y[:]\n'},
    {"name": "table-crossed", "file": _H, "rule": "C16.a", "old": '        "predict": predict,\n        "predict_proba": predict_proba,\n', "new": '        "predict": predict_proba,\n        "predict_proba": predict,\n'},
    {"name": "lambda-other-saved-attr", "file": _H, "rule": "C16.a", "old": "lambda model, X: model._debug_predict(X)", "new": "lambda model, X: model._debug_transform(X)"},
    {"name": "hook-chained-elif", "file": _H, "rule": "C16.a", "old": "        if hasattr(model, \"decision_function\") and callable(model.decision_function):", "new": "        elif hasattr(model, \"decision_function\") and callable(model.decision_function):"},
    {"name": "enumerate-child-first", "file": _H, "rule": "C16.b", "old": "            for i, (_, model) in enumerate(pipe.steps):\n                for couple in enumerate_pipeline_models(model, coor + (i,)):\n                    yield couple\n", "new": "            for i, (_, model) in enumerate(pipe.steps):\n                for couple in enumerate_pipeline_models(model, coor + (0,)):\n                    yield couple\n"},
    {"name": "enumerate-coordinate-not-extended", "file": _H, "rule": "C16.b", "old": "                for couple in enumerate_pipeline_models(model, coor + (i,)):\n                    yield couple\n        elif isinstance(pipe, TransformedTargetRegressor):", "new": "                for couple in enumerate_pipeline_models(model, coor):\n                    yield couple\n        elif isinstance(pipe, TransformedTargetRegressor):"},
    {"name": "enumerate-feature-union-dropped", "file": _H, "rule": "C16.b", "old": "        elif isinstance(pipe, FeatureUnion):\n            for i, (_, model) in enumerate(pipe.transformer_list):\n                for couple in enumerate_pipeline_models(model, coor + (i,)):\n                    yield couple\n", "new": ""},
    {"name": "str-indent-depth", "file": _V, "rule": "C16.b", "old": 'spaces = " " * indent * (len(coor) - 1)', "new": 'spaces = " " * indent * len(coor)'},
    {"name": "str-skips-none-vs", "file": _V, "rule": "C16.b", "old": "            msg = f\"{spaces}{model.__class__.__name__}({v})\"\n        rows.append(msg)\n", "new": "            msg = f\"{spaces}{model.__class__.__name__}({v})\"\n            rows.append(msg)\n"},
    {"name": "dot-columns-updated-before-inputs", "file": _V, "rule": "C16.c", "old": "            for inp in line[\"inputs\"]:", "new": "            for c, out in enumerate(line[\"outputs\"]):\n                columns[out] = f\"sch{i}:f{c}\"\n            for inp in line[\"inputs\"]:"},
    {"name": "dot-port-registered-conditionally", "file": _V, "rule": "C16.c", "old": '                columns[out] = f"sch{i}:f{c}"\n', "new": '                if out not in schema:\n                    columns[out] = f"sch{i}:f{c}"\n'},
    {"name": "dot-port-offset", "file": _V, "rule": "C16.c", "old": '                columns[out] = f"sch{i}:f{c}"\n', "new": '                columns[out] = f"sch{i}:f{c + 1}"\n'},
    {"name": "dot-edge-wrong-node", "file": _V, "rule": "C16.c", "old": '                edge = f"  {nc} -> node{i};"\n', "new": '                edge = f"  {nc} -> node{i - 1};"\n'},
    {"name": "dot-input-port-by-name-order", "file": _V, "rule": "C16.c", "old": '                columns[col] = f"sch0:f{c}"\n', "new": '                columns[col] = f"sch0:f{len(schema) - 1 - c}"\n'},
]
_OLD_LOOP = '            new_outputs = []\n            for o in info[-1]["outputs"]:\n                add = _get_name(context, prefix=o, info=info)\n                outputs.append(add)\n                new_outputs.append(add)\n            info[-1]["outputs"] = new_outputs\n'
WITNESSES += [
    {"name": "union-outputs-renamed-in-place", "file": _V, "rule": "C16.d", "old": _OLD_LOOP, "new": '            last_outputs = info[-1]["outputs"]\n            for k, o in enumerate(last_outputs):\n                last_outputs[k] = _get_name(context, prefix=o, info=info)\n            outputs.extend(last_outputs)\n'},
    {"name": "pipeline-data-sorted-in-place", "file": _V, "rule": "C16.d", "old": '            data = info[-1]["outputs"]\n            infos.extend(info)\n        return infos\n', "new": '            data = info[-1]["outputs"]\n            data.sort()\n            infos.extend(info)\n        return infos\n'},
]
TWINS = [
    {"name": "union-outputs-renamed-by-comprehension", "file": _V, "old": _OLD_LOOP, "new": '            new_outputs = [_get_name(context, prefix=o, info=info) for o in info[-1]["outputs"]]\n            outputs.extend(new_outputs)\n            info[-1]["outputs"] = new_outputs\n'},
]
MIN_WITNESSES = 12
WITNESSES += [
    {"name": "rows-wrapped-by-textwrap", "file": _V, "rule": "C16.b", "old": "        rows.append(msg)\n", "new": "        import textwrap\n\n        rows.append(textwrap.fill(msg, width=80))\n"},
    {"name": "identity-inputs-generator", "file": _V, "rule": "C16.d", "old": 'info["inputs"] = [_get_name_simple(n, former_data) for n in data]', "new": 'info["inputs"] = (_get_name_simple(n, former_data) for n in data)'},
]
