"""C16 — pipeline introspection and drawing (structural part).

  C16.a  transparent debug wrappers: each of the four replacement methods uses
         its own name as key in inputs/methods/outputs and in new_methods,
         forwards X, *args, **kwargs and returns exactly the delegate's return
         value; BaseEstimatorDebugInformation saves model.<m> under _debug_<m>
         and the stored lambda calls that same attribute
  C16.b  enumeration: the model is yielded before any recursive call; every
         recursive call extends the coordinate with the enumerate variable of
         the container loop; the container kinds handled equal those of
         _pipeline_info; pipeline2str appends one row per yielded item with
         indentation len(coor) - 1
  C16.c  DOT referential structure: node-name templates used in edges are
         declared, port indices come from the same enumerate, the declaration of
         node{i} precedes its edges, input edges are emitted before columns[out]
         is updated for the same line (edges point forward: acyclic by
         construction)
"""

from __future__ import annotations

import ast
import re
from typing import Dict, List, Set

from engine.src import FunctionInfo, own_nodes, own_nodes_incl_lambda, src_of, AnalysisError
from engine.util import const_value

RULES = {
    "C16.a": "debug wrappers are transparent and self-consistent in their keys; saved originals and the lambdas calling them agree",
    "C16.b": "enumerate_pipeline_models: yield-before-recursion, coordinates extended by the loop's enumerate variable, container kinds agree with _pipeline_info; pipeline2str one row per item",
    "C16.c": "pipeline2dot: declared-before-used node templates, ports from the same enumerate, input edges before the columns table is updated (forward edges only)",
}

HP = "mlinsights.helpers.pipeline"
VZ = "mlinsights.plotting.visualize"
METHODS = ("transform", "predict", "predict_proba", "decision_function")


def check_a(ck, repo):
    alt = repo.func(HP, "alter_pipeline_for_debugging")
    for m in METHODS:
        try:
            w = repo.nested(alt, m)
        except AnalysisError:
            ck.violated("C16.a", alt, f"def {m}(self, X, *args, **kwargs)", f"no replacement for method '{m}'")
            continue
        body = [src_of(s) for s in w.node.body]
        want = [
            f"self._debug.inputs['{m}'] = X",
            f"y = self._debug.methods['{m}'](self, X, *args, **kwargs)",
            f"self._debug.outputs['{m}'] = y",
            "return y",
        ]
        ck.verdict(body == want, "C16.a", w, " ; ".join(body), f"records input, calls the saved '{m}', records and returns its output unchanged", f"wrapper for '{m}' is not [record X; y = saved {m}(X, *args, **kwargs); record y; return y]: the pipeline's outputs or the recorded inputs/outputs of this step change")
        a = w.node.args
        ck.verdict([x.arg for x in a.args] == ["self", "X"] and a.vararg is not None and a.kwarg is not None, "C16.a", w, f"signature of {m}", "(self, X, *args, **kwargs)", "wrapper signature changed")
    nm = [s for s in own_nodes(alt.node) if isinstance(s, ast.Assign) and src_of(s.targets[0]) == "new_methods"]
    if len(nm) != 1 or not isinstance(nm[0].value, ast.Dict):
        ck.unknown("C16.a", alt, "new_methods = {...}", "table not found")
    else:
        tab = {const_value(k): src_of(v) for k, v in zip(nm[0].value.keys, nm[0].value.values)}
        ck.verdict(tab == {m: m for m in METHODS}, "C16.a", alt, f"new_methods {tab}", "each method name maps to its own wrapper", f"new_methods maps a name to another method's wrapper: {tab}")
    loop = [l for l in own_nodes(alt.node) if isinstance(l, ast.For) and src_of(l.iter) == "enumerate_pipeline_models(pipe)"]
    if len(loop) != 1:
        ck.unknown("C16.a", alt, "for model_ in enumerate_pipeline_models(pipe)", "installation loop not found")
    else:
        t = [src_of(s) for s in ast.walk(loop[0]) if isinstance(s, (ast.Assign, ast.Expr)) and not isinstance(getattr(s, "value", None), ast.Constant)]
        ok = "model = model_[1]" in t and "model._debug = BaseEstimatorDebugInformation(model)" in t and "setattr(model, k, MethodType(new_methods[k], model))" in t
        inner = [l for l in ast.walk(loop[0]) if isinstance(l, ast.For) and l is not loop[0]]
        ok = ok and len(inner) == 1 and src_of(inner[0].iter) == "model._debug.methods"
        ck.verdict(ok, "C16.a", alt, "install new_methods[k] for k in model._debug.methods on every enumerated model", "every enumerated model gets the wrappers of the methods it has", "wrappers are not installed as setattr(model, k, MethodType(new_methods[k], model)) for k in model._debug.methods")
    # BaseEstimatorDebugInformation
    ci = repo.cls(HP, "BaseEstimatorDebugInformation")
    init = ci.methods["__init__"]
    for m in METHODS:
        blocks = [s for s in own_nodes(init.node) if isinstance(s, ast.If) and src_of(s.test) == f"hasattr(model, '{m}') and callable(model.{m})"]
        if len(blocks) != 1:
            ck.violated("C16.a", init, f"if hasattr(model, '{m}') ...", f"method '{m}' is not saved under the guard hasattr/callable for the same name")
            continue
        top = any(blocks[0] is x for x in init.node.body)
        ck.verdict(top, "C16.a", init, blocks[0].test, f"'{m}' is hooked independently of the other methods", f"the hook for '{m}' is chained (elif) to another method's test: a model that has both methods never gets '{m}' recorded, so consecutive steps no longer chain for that method")
        b = [src_of(s) for s in blocks[0].body]
        ok = len(b) == 2 and b[0] == f"model._debug_{m} = model.{m}" and b[1] == f"self.methods['{m}'] = lambda model, X: model._debug_{m}(X)"
        ck.verdict(ok, "C16.a", init, " ; ".join(b), f"original '{m}' saved as _debug_{m} and called by the stored lambda", f"for '{m}' the saved attribute, the key and the attribute the lambda calls do not agree: {b}")


KINDS = ("Pipeline", "ColumnTransformer", "FeatureUnion")


def check_b(ck, repo):
    en = repo.func(HP, "enumerate_pipeline_models")
    # yield of the model itself precedes every recursive call in its branch
    ys = [y for y in own_nodes(en.node) if isinstance(y, ast.Expr) and isinstance(y.value, ast.Yield)]
    own = [y for y in ys if src_of(y.value.value) in ("(coor, pipe, vs)", "(coor, PassThrough(), vs)")]
    recs = [c for c in own_nodes_incl_lambda(en.node) if isinstance(c, ast.Call) and src_of(c.func) == "enumerate_pipeline_models"]
    ck.verdict(len(own) == 2, "C16.b", en, f"{[src_of(y) for y in own]}", "the model itself is yielded (once) with its coordinate", f"expected the model to be yielded once per branch, found {[src_of(y) for y in own]}")
    first_own = min((y.lineno for y in own if "pipe, vs" in src_of(y)), default=None)
    ck.verdict(first_own is not None and all(c.lineno > first_own for c in recs), "C16.b", en, "yield coor, pipe, vs before any recursive call", "parents are yielded before their children", "a recursive call precedes the yield of the container itself: children come before parents")
    # every recursive call: coor + (<enumerate var>,) ; enclosing loop enumerates the container
    for c in recs:
        a1 = c.args[1] if len(c.args) > 1 else None
        loop = None
        p = getattr(c, "_parent", None)
        while p is not None and p is not en.node:
            if isinstance(p, ast.For) and isinstance(p.iter, ast.Call) and src_of(p.iter.func) == "enumerate":
                loop = p
                break
            p = getattr(p, "_parent", None)
        if loop is None:
            # mapper case: coor + (0,)
            ck.verdict(a1 is not None and src_of(a1) == "coor + (0,)", "C16.b", en, c, "single child gets coordinate coor + (0,)", f"recursive call outside an enumerate loop passes {src_of(a1) if a1 is not None else None}")
            continue
        iv = loop.target.elts[0].id if isinstance(loop.target, ast.Tuple) and isinstance(loop.target.elts[0], ast.Name) else None
        ck.verdict(a1 is not None and src_of(a1) == f"coor + ({iv},)", "C16.b", en, c, f"child {iv} gets coordinate coor + ({iv},)", f"recursive call passes coordinate {src_of(a1) if a1 is not None else None}, expected coor + ({iv},): coordinates are not distinct or their length is not the nesting depth")
        # the recursive result is re-yielded unchanged
        par = c._parent
        if isinstance(par, ast.For) and par.iter is c:
            ok = len(par.body) == 1 and isinstance(par.body[0], ast.Expr) and isinstance(par.body[0].value, ast.Yield) and src_of(par.body[0].value.value) == src_of(par.target)
            ck.verdict(ok, "C16.b", en, par, "every item of the child enumeration is yielded once, unchanged", "items of the child enumeration are not re-yielded exactly once")
    # container kinds: containers iterated here vs in _pipeline_info
    def kinds_of(fn, attrmap):
        out = {}
        for s in own_nodes(fn):
            if isinstance(s, ast.If) and isinstance(s.test, ast.Call) and src_of(s.test.func) == "isinstance" and src_of(s.test.args[0]) == "pipe":
                k = src_of(s.test.args[1])
                loops = [l for l in ast.walk(ast.Module(body=s.body, type_ignores=[])) if isinstance(l, ast.For)]
                its = [src_of(l.iter) for l in loops]
                out[k] = its
        return out
    ke = kinds_of(en.node, None)
    pi = repo.func(VZ, "_pipeline_info")
    kp = kinds_of(pi.node, None)
    want_e = {"Pipeline": "enumerate(pipe.steps)", "ColumnTransformer": "enumerate(pipe.transformers)", "FeatureUnion": "enumerate(pipe.transformer_list)"}
    want_p = {"Pipeline": "pipe.steps", "ColumnTransformer": "pipe.transformers", "FeatureUnion": "pipe.transformer_list"}
    for k in KINDS:
        ck.verdict(want_e[k] in ke.get(k, []), "C16.b", en, f"{k}: {ke.get(k)}", f"{k} children are enumerated from {want_e[k]}", f"enumerate_pipeline_models does not enumerate {want_e[k]} for {k}")
        ck.verdict(any(x == want_p[k] for x in kp.get(k, [])), "C16.b", pi, f"{k}: {kp.get(k, [])[:2]}", f"_pipeline_info walks the same container attribute {want_p[k]}", f"_pipeline_info does not walk {want_p[k]} for {k}: drawing and enumeration disagree on the children of a {k}")
    ck.verdict({k for k in ke if k in KINDS} == {k for k in kp if k in KINDS} == set(KINDS), "C16.b", en, f"container kinds {sorted(k for k in ke if k in KINDS)} / {sorted(k for k in kp if k in KINDS)}", "both functions handle Pipeline, ColumnTransformer, FeatureUnion", "the two functions do not handle the same container kinds")
    # pipeline2str
    ps = repo.func(VZ, "pipeline2str")
    loops = [l for l in own_nodes(ps.node) if isinstance(l, ast.For)]
    ok = len(loops) == 1 and src_of(loops[0].iter) == "enumerate_pipeline_models(pipe)" and src_of(loops[0].target) == "(coor, model, vs)"
    apps = [s for s in ast.walk(loops[0]) if isinstance(s, ast.Expr) and src_of(s.value).startswith("rows.append(")] if loops else []
    in_branch = [s for s in apps if not any(s is x for x in loops[0].body)]
    ck.verdict(ok and len(apps) == 1 and not in_branch, "C16.b", ps, "for coor, model, vs in enumerate_pipeline_models(pipe): ... rows.append(msg)", "exactly one row per yielded model", "pipeline2str does not append exactly one row per yielded model")
    sp = [s for s in ast.walk(ps.node) if isinstance(s, ast.Assign) and src_of(s.targets[0]) == "spaces"]
    ck.verdict(len(sp) == 1 and src_of(sp[0].value) == "' ' * indent * (len(coor) - 1)", "C16.b", ps, sp[0] if sp else "spaces = ...", "indentation = indent * (depth - 1)", "indentation is not indent * (len(coor) - 1)")
    r = [src_of(x.value) for x in own_nodes(ps.node) if isinstance(x, ast.Return)]
    ck.verdict(r == ["'\\n'.join(rows)"], "C16.b", ps, f"return {r}", "one line per row", "rows are not joined one per line")


_TPL = re.compile(r"(sch|node)\{?(\w+)\}?")


def check_c(ck, repo):
    pd = repo.func(VZ, "pipeline2dot")
    loops = [l for l in own_nodes(pd.node) if isinstance(l, ast.For) and src_of(l.iter) == "enumerate(info)"]
    if len(loops) != 1:
        ck.unknown("C16.c", pd, "for i, line in enumerate(info)", "main loop not found")
        return
    L = loops[0]
    iv = L.target.elts[0].id
    branch = [s for s in L.body if isinstance(s, ast.If) and src_of(s.test) == f"{iv} == 0"]
    if len(branch) != 1:
        ck.unknown("C16.c", pd, "if i == 0", "first-line branch not found")
        return
    first, rest = branch[0].body, branch[0].orelse
    # --- schema 0: columns[col] = f"sch0:f{c}" with c from enumerate(schema), label "<f{c}> {col}"
    l0 = [l for l in ast.walk(ast.Module(body=first, type_ignores=[])) if isinstance(l, ast.For)]
    ok0 = len(l0) == 1 and src_of(l0[0].iter) == "enumerate(schema)" and [src_of(s) for s in l0[0].body] == ["columns[col] = f'sch0:f{c}'", "labs.append(f'<f{c}> {col}')"] and src_of(l0[0].target) == "(c, col)"
    ck.verdict(ok0, "C16.c", pd, "input schema: columns[col] = sch0:f{c}; label <f{c}>", "input column c is declared as port f{c} of sch0 and referred to by the same port", "the port declared for an input column and the port recorded for its edges differ")
    # --- other lines: order of statements in the else-branch
    order = []
    for s in rest:
        t = src_of(s)
        if isinstance(s, ast.If) and "line['type']" in src_of(s.test):
            order.append("build-node")
        elif t == "exp.append(node)":
            order.append("emit-node" if "build-node" in order and "emit-node" not in order else "emit-schema")
        elif isinstance(s, ast.For) and src_of(s.iter) == "line['inputs']":
            order.append("input-edges")
        elif isinstance(s, ast.For) and src_of(s.iter) == "enumerate(line['outputs'])":
            order.append("update-columns")
        elif isinstance(s, ast.For) and src_of(s.iter) == "line['outputs']":
            order.append("output-edges")
        elif isinstance(s, ast.Assign) and src_of(s.targets[0]) == "node" and "sch{0}" in t:
            order.append("build-schema")
    want = ["build-node", "emit-node", "input-edges", "update-columns", "build-schema", "emit-schema", "output-edges"]
    ck.verdict(order == want, "C16.c", pd, f"order {order}", "node declared, then its input edges, then its outputs are registered, declared and linked", f"statement order in the node branch is {order}; expected {want}: an edge may refer to a node/port that is not declared yet, or an input edge may resolve to the node's own output (cycle)")
    # node templates
    nodes_decl = [src_of(s.value) for s in ast.walk(ast.Module(body=rest, type_ignores=[])) if isinstance(s, ast.Assign) and src_of(s.targets[0]) == "node"]
    ok = len(nodes_decl) == 3 and all(("node{0}[label" in d and f".format({iv}," in d.replace("\n", "")) or ("sch{0}[label" in d) for d in nodes_decl)
    ck.verdict(ok, "C16.c", pd, "node{i} / sch{i} declarations", "one node and one schema are declared per step with the step's index", "node/schema declarations do not use the step index")
    # edges
    in_loop = [l for l in rest if isinstance(l, ast.For) and src_of(l.iter) == "line['inputs']"]
    if in_loop:
        t = [src_of(s) for s in in_loop[0].body if isinstance(s, (ast.Assign, ast.Expr))]
        ok = "nc = columns.get(inp, inp)" in t and f"edge = f'  {{nc}} -> node{{{iv}}};'" in t and "exp.append(edge)" in t
        ck.verdict(ok, "C16.c", pd, "input edge: columns.get(inp, inp) -> node{i}", "inputs are resolved through the columns table (earlier schemas) and point to this step's node", "input edges do not go from the registered port of the input to node{i}")
    up = [l for l in rest if isinstance(l, ast.For) and src_of(l.iter) == "enumerate(line['outputs'])"]
    if up:
        t = [src_of(s) for s in up[0].body]
        ok = t == [f"columns[out] = f'sch{{{iv}}}:f{{c}}'", "labs.append(f'<f{c}> {out}')"] and src_of(up[0].target) == "(c, out)"
        ck.verdict(ok, "C16.c", pd, "outputs: columns[out] = sch{i}:f{c}; label <f{c}>", "output c is declared as port f{c} of sch{i} and registered under the same port", "the port declared for an output and the port registered for later edges differ")
    oe = [l for l in rest if isinstance(l, ast.For) and src_of(l.iter) == "line['outputs']"]
    if oe:
        t = [src_of(s) for s in ast.walk(oe[0]) if isinstance(s, (ast.Assign, ast.Expr))]
        ok = "nc = columns[out]" in t and f"edge = f'  node{{{iv}}} -> {{nc}};'" in t and "exp.append(edge)" in t
        ck.verdict(ok, "C16.c", pd, "output edge: node{i} -> columns[out]", "each output port is linked from its node", "output edges do not go from node{i} to the port just registered")
    # graph delimiters
    st = [src_of(s) for s in own_nodes(pd.node) if isinstance(s, (ast.Assign, ast.Expr, ast.Return))]
    ck.verdict("exp = ['digraph{']" in st and "exp.append('}')" in st and "return '\\n'.join(exp)" in st, "C16.c", pd, "digraph{ ... }", "the text is one digraph block", "graph delimiters changed")
    # the data->port table of the inputs handed to _pipeline_info
    d0 = [src_of(s) for s in own_nodes(pd.node) if isinstance(s, ast.Assign) and src_of(s.targets[0]).startswith("data[")]
    ck.verdict(sorted(d0) == sorted(["data[c] = 'sch0:f%d' % k", "data['X%d' % i] = 'sch0:f%d' % i"]), "C16.c", pd, f"{d0}", "input columns are numbered by their position", "input ports are not numbered by column position")
    ck.verdict("info.extend(_pipeline_info(pipe, data, context=dict(n=0, names=names)))" in st and "info = [dict(schema_after=data)]" in st, "C16.c", pd, "info = [schema] + _pipeline_info(...)", "line 0 is the input schema, the steps follow in pipeline order", "the list of lines is not [input schema] + steps")


def run(ck):
    repo = ck.repo
    for k, v in RULES.items():
        ck.rule(k, v)
    check_a(ck, repo)
    check_b(ck, repo)
    check_c(ck, repo)
    ck.require_count("C16.a", 10, "4 wrappers x (body, signature), table, installation, 4 saved originals")
    ck.require_count("C16.b", 12, "yields, recursive calls, container kinds x2 functions, pipeline2str")
    ck.require_count("C16.c", 5, "schema 0, order, declarations, input/output edges, ports, delimiters, input table, line list")


_H = "mlinsights/helpers/pipeline.py"
_V = "mlinsights/plotting/visualize.py"
WITNESSES = [
    {"name": "wrapper-key-mismatch", "file": _H, "rule": "C16.a", "old": '        self._debug.outputs["predict_proba"] = y\n', "new": '        self._debug.outputs["predict"] = y\n'},
    {"name": "wrapper-calls-other-method", "file": _H, "rule": "C16.a", "old": '        y = self._debug.methods["decision_function"](self, X, *args, **kwargs)\n', "new": '        y = self._debug.methods["predict"](self, X, *args, **kwargs)\n'},
    {"name": "wrapper-returns-copy", "file": _H, "rule": "C16.a", "old": '        self._debug.outputs["transform"] = y\n        return y\n', "new": '        self._debug.outputs["transform"] = y\n        return y[:]\n'},
    {"name": "table-crossed", "file": _H, "rule": "C16.a", "old": '        "predict": predict,\n        "predict_proba": predict_proba,\n', "new": '        "predict": predict_proba,\n        "predict_proba": predict,\n'},
    {"name": "lambda-other-saved-attr", "file": _H, "rule": "C16.a", "old": "lambda model, X: model._debug_predict(X)", "new": "lambda model, X: model._debug_transform(X)"},
    {"name": "hook-chained-elif", "file": _H, "rule": "C16.a", "old": "        if hasattr(model, \"decision_function\") and callable(model.decision_function):", "new": "        elif hasattr(model, \"decision_function\") and callable(model.decision_function):"},
    {"name": "enumerate-child-first", "file": _H, "rule": "C16.b", "old": "            for i, (_, model) in enumerate(pipe.steps):\n                for couple in enumerate_pipeline_models(model, coor + (i,)):\n                    yield couple\n", "new": "            for i, (_, model) in enumerate(pipe.steps):\n                for couple in enumerate_pipeline_models(model, coor + (0,)):\n                    yield couple\n"},
    {"name": "enumerate-coordinate-not-extended", "file": _H, "rule": "C16.b", "old": "                for couple in enumerate_pipeline_models(model, coor + (i,)):\n                    yield couple\n        elif isinstance(pipe, TransformedTargetRegressor):", "new": "                for couple in enumerate_pipeline_models(model, coor):\n                    yield couple\n        elif isinstance(pipe, TransformedTargetRegressor):"},
    {"name": "enumerate-feature-union-dropped", "file": _H, "rule": "C16.b", "old": "        elif isinstance(pipe, FeatureUnion):\n            for i, (_, model) in enumerate(pipe.transformer_list):\n                for couple in enumerate_pipeline_models(model, coor + (i,)):\n                    yield couple\n", "new": ""},
    {"name": "str-indent-depth", "file": _V, "rule": "C16.b", "old": 'spaces = " " * indent * (len(coor) - 1)', "new": 'spaces = " " * indent * len(coor)'},
    {"name": "str-skips-none-vs", "file": _V, "rule": "C16.b", "old": "            msg = f\"{spaces}{model.__class__.__name__}({v})\"\n        rows.append(msg)\n", "new": "            msg = f\"{spaces}{model.__class__.__name__}({v})\"\n            rows.append(msg)\n"},
    {"name": "dot-columns-updated-before-inputs", "file": _V, "rule": "C16.c", "old": "            for inp in line[\"inputs\"]:", "new": "            for c, out in enumerate(line[\"outputs\"]):\n                columns[out] = f\"sch{i}:f{c}\"\n            for inp in line[\"inputs\"]:"},
    {"name": "dot-port-offset", "file": _V, "rule": "C16.c", "old": '                columns[out] = f"sch{i}:f{c}"\n', "new": '                columns[out] = f"sch{i}:f{c + 1}"\n'},
    {"name": "dot-edge-wrong-node", "file": _V, "rule": "C16.c", "old": '                edge = f"  {nc} -> node{i};"\n', "new": '                edge = f"  {nc} -> node{i - 1};"\n'},
    {"name": "dot-input-port-by-name-order", "file": _V, "rule": "C16.c", "old": '                columns[col] = f"sch0:f{c}"\n', "new": '                columns[col] = f"sch0:f{len(schema) - 1 - c}"\n'},
]
TWINS = []
MIN_WITNESSES = 12
