"""C02 — fit/predict never alter hyper-parameters or caller data.

  C02.a  fit returns self on every normal exit
  C02.b  hyper-parameters are written only by __init__/set_params, or as a
         temporary override restored on EVERY exit (normal and exceptional)
  C02.c  no write reaches the caller's X / y / sample_weight (flow-sensitive
         may-alias analysis with interprocedural write summaries)
  C02.d  an estimator held in a hyper-parameter is cloned before being fitted
         (frozen table of documented wrappers excepted)
  C02.e  an inner estimator trained on an alias of the caller's data is built
         with its copy flag on (or with the caller's own copy flag)
"""

from __future__ import annotations

import ast
from typing import Dict, List, Optional, Set, Tuple

from engine.src import ClassInfo, FunctionInfo, own_nodes, own_nodes_incl_lambda, src_of, AnalysisError
from engine.cfg import build_cfg, paths_avoiding, fmt_path, Node
from engine.dataflow import ReachingDefs, defs_of_node
from engine.effects import Effects
from engine.util import is_self_attr, assign_targets, const_value, names_in
from .common import estimator_classes, hyper_params, resolve_call, reachable_functions, is_sklearn_estimator, explicit_parent_call
from .c01 import returns_self_on_all_paths

RULES = {
    "C02.a": "fit returns self on every normal exit",
    "C02.b": "a write of self.<hyper-parameter> outside __init__/set_params is a temporary override: every path from the write to any exit, exceptional ones included, passes a restore of the saved value",
    "C02.c": "no in-place write reaches an object that may alias a data parameter of a public method (may-alias dataflow + callee write summaries)",
    "C02.d": "the receiver of .fit on a fit path is a clone, not the estimator stored in a hyper-parameter (documented wrappers excepted)",
    "C02.e": "an inner estimator fitted on an alias of a data parameter is constructed with copy_X/copy True or with the outer estimator's own copy flag, on every consistent combination of branch facts",
}

PUBLIC_METHODS = (
    "fit", "predict", "predict_proba", "predict_log_proba", "decision_function", "transform", "score", "fit_transform",
    "fit_predict", "predict_all", "predict_sorted", "transform_bins", "decision_path", "predict_leaves", "transform_features",
    "inverse_transform", "get_fct_inv", "partial_fit", "kneighbors", "score_samples",
)

# (class, attribute): why an override of a hyper-parameter on a fit path is accepted
B_EXEMPT = {
    ("PipelineCache", "steps"): "PipelineCache._fit rebinds self.steps to a list and stores each fitted step back, exactly as sklearn.pipeline.Pipeline._fit does; mlbatch is outside the property's anchors",
}

# (class, hyper-parameter): documented wrappers that by contract train the wrapped object in place
D_EXEMPT = {
    ("ClassifierAfterKMeans", "estimator"): "property C03 lists 'fits the estimator it was given in place' as the mechanism",
    ("ARTimeSeriesRegressor", "estimator"): "auto-regressor wraps and trains the estimator it was given",
    ("SkBaseTransformLearner", "model"): "wrapper whose purpose is to train the wrapped learner",
    ("SkBaseTransformStacking", "models"): "wrapper whose purpose is to train the wrapped learners",
    ("TransferTransformer", "estimator"): "trains the wrapped estimator only when trainable; with copy_estimator the copy is trained (checked by C15)",
    ("PipelineCache", "steps"): "pipelines fit their steps in place, like sklearn.pipeline.Pipeline",
    ("SearchEngineVectors", "pknn"): "not a scikit-learn estimator parameter",
}

DATA_PARAM_HINTS = {"self", "cls"}
NON_DATA = {"random_state", "state", "check_input", "deep", "return_distances", "method", "parallelized", "dimout", "n_neighbors", "exc", "verbose", "fLOG"}


def _entry_points(repo):
    out = []
    for ci in estimator_classes(repo):
        for m in PUBLIC_METHODS:
            _, fi = repo.find_method(ci, m)
            if fi is not None and fi not in [x for _, x in out]:
                out.append((ci, fi))
    return out


# ------------------------------------------------------------------ C02.a
def check_a(ck, repo):
    seen = set()
    for ci in estimator_classes(repo):
        fit = ci.methods.get("fit")
        if fit is None or fit.qualname in seen:
            continue
        seen.add(fit.qualname)
        cfg = build_cfg(fit.node)
        if not any(n.kind in ("return", "implicit_return") and n.id in cfg.reachable() for n in cfg.nodes):
            ck.holds("C02.a", fit, "<no normal exit>", "abstract fit: every path raises", nontrivial=False)
            continue
        returns_self_on_all_paths(ck, "C02.a", fit, repo, f"{ci.name}.fit")


# ------------------------------------------------------------------ C02.b
def _class_reachable(repo, ci: ClassInfo) -> List[FunctionInfo]:
    roots = []
    for m in PUBLIC_METHODS:
        _, fi = repo.find_method(ci, m)
        if fi is not None:
            roots.append(fi)
    # private hooks that the external parent's fit/predict call
    for name, fi in ci.methods.items():
        if name.startswith("_") and not name.startswith("__"):
            roots.append(fi)
    return [f for f in reachable_functions(repo, roots) if f.name not in ("__init__", "set_params")]


def _self_name(fi: FunctionInfo) -> Optional[str]:
    ps = fi.params
    return ps[0] if ps and fi.cls is not None and fi.parent is None else ("self" if "self" in ps else None)


def check_b(ck, repo):
    n_sites = 0
    done = set()
    for ci in estimator_classes(repo):
        hp = hyper_params(repo, ci)
        if not hp:
            continue
        for fi in _class_reachable(repo, ci):
            if fi.cls is None or fi.cls.qualname != ci.qualname and ci.qualname not in [c.qualname for c in repo.mro(ci) if isinstance(c, ClassInfo)]:
                continue
            # only methods of classes in ci's MRO (self is a ci)
            if fi.cls is None or fi.cls.qualname not in [c.qualname for c in repo.mro(ci) if isinstance(c, ClassInfo)]:
                continue
            key = (fi.qualname,)
            cfg = build_cfg(fi.node)
            reach = cfg.reachable()
            rd = None
            for n in cfg.nodes:
                if n.id not in reach or n.kind not in ("stmt", "for") or n.ast is None:
                    continue
                attrs = []
                if isinstance(n.ast, (ast.Assign, ast.AugAssign, ast.AnnAssign, ast.For)):
                    for t in assign_targets(n.ast):
                        if is_self_attr(t) and t.attr in hp:
                            attrs.append(t.attr)
                if isinstance(n.ast, ast.Delete):
                    for t in n.ast.targets:
                        if is_self_attr(t) and t.attr in hp:
                            attrs.append(t.attr)
                for c in ast.walk(n.ast) if n.kind == "stmt" and not isinstance(n.ast, (ast.FunctionDef, ast.ClassDef)) else []:
                    if isinstance(c, ast.Call) and isinstance(c.func, ast.Name) and c.func.id == "setattr" and len(c.args) >= 2 and isinstance(c.args[0], ast.Name) and c.args[0].id == "self":
                        k = const_value(c.args[1])
                        if isinstance(k, str) and k in hp:
                            attrs.append(k)
                    if isinstance(c, ast.Call) and isinstance(c.func, ast.Attribute) and c.func.attr == "set_params" and isinstance(c.func.value, ast.Name) and c.func.value.id == "self":
                        attrs.append("*set_params*")
                for attr in attrs:
                    if rd is None:
                        rd = ReachingDefs(fi.node)
                    if _is_restore(rd, n, attr):
                        continue
                    k2 = (fi.qualname, n.id, attr)
                    if k2 in done:
                        continue
                    done.add(k2)
                    n_sites += 1
                    ex = B_EXEMPT.get((fi.cls.name, attr))
                    if ex:
                        ck.holds("C02.b", fi, n.ast, f"exempt: {ex}", nontrivial=False)
                        continue
                    if attr == "*set_params*":
                        ck.violated("C02.b", fi, n.ast, "self.set_params(...) on a fit/predict path changes what get_params reports")
                        continue
                    if rd is None:
                        rd = ReachingDefs(fi.node)
                    _check_override(ck, fi, cfg, rd, n, attr)
    return n_sites


def _is_restore(rd: ReachingDefs, n: Node, attr: str) -> bool:
    """`self.attr = v` where v can only hold a value previously read from
    self.attr (other reaching definitions being the constant None)."""
    a = n.ast
    if not (isinstance(a, ast.Assign) and isinstance(a.value, ast.Name)):
        return False
    return _only_old_value(rd, n, a.value.id, attr, 0) is True


def _only_old_value(rd: ReachingDefs, at: Node, name: str, attr: str, depth: int) -> Optional[bool]:
    """True: `name` at `at` holds a value read from self.attr (directly or through
    copies between locals) or None, and not only None; False: something else"""
    if depth > 4:
        return False
    ds = rd.reaching(name, at)
    if not ds:
        return False
    some = False
    for d in ds:
        if d < 0:
            return False
        dn = rd.node_by_id[d]
        da = dn.ast
        if not (isinstance(da, ast.Assign) and len(da.targets) == 1 and isinstance(da.targets[0], ast.Name)):
            return False
        if is_self_attr(da.value, attr):
            some = True
        elif isinstance(da.value, ast.Constant) and da.value.value is None:
            continue
        elif isinstance(da.value, ast.Name):
            r = _only_old_value(rd, dn, da.value.id, attr, depth + 1)
            if r is not True:
                return False
            some = True
        else:
            return False
    return some


def _saved_vars(fi, rd: ReachingDefs, w: Node, attr: str) -> Set[str]:
    """locals whose unique reaching definition at the write is `v = self.attr`"""
    out = set()
    names = {nm for (nm, d) in rd.IN.get(w.id, ())}
    for nm in names:
        ds = rd.reaching(nm, w)
        if len(ds) != 1 or ds[0] < 0:
            continue
        dn = rd.node_by_id[ds[0]]
        a = dn.ast
        if isinstance(a, ast.Assign) and len(a.targets) == 1 and isinstance(a.targets[0], ast.Name) and is_self_attr(a.value, attr):
            out.add(nm)
    return out


def _check_override(ck, fi, cfg, rd, w: Node, attr: str):
    saved = _saved_vars(fi, rd, w, attr)
    if isinstance(w.ast, ast.AugAssign) or True:
        pass
    if not saved:
        ck.violated(
            "C02.b",
            fi,
            w.ast,
            f"hyper-parameter self.{attr} is written on a fit/predict path and its previous value is not saved: get_params() changes",
        )
        return
    # locals that receive a copy of a saved variable after the override (`replace = name`):
    # they hold the old value too, provided every definition of theirs that can be
    # met after the write is such a copy (or None)
    carriers: Dict[str, Set[int]] = {}
    reach_w = _reachable_from(w)
    for n in cfg.nodes:
        if n.id in reach_w and n.kind == "stmt" and isinstance(n.ast, ast.Assign) and len(n.ast.targets) == 1 and isinstance(n.ast.targets[0], ast.Name) and isinstance(n.ast.value, ast.Name) and n.ast.value.id in saved:
            carriers.setdefault(n.ast.targets[0].id, set()).add(n.id)
    for g in list(carriers):
        for n in cfg.nodes:
            if n.id in reach_w and g in defs_of_node(n) and n.id not in carriers[g]:
                if not (isinstance(n.ast, ast.Assign) and isinstance(n.ast.value, ast.Constant) and n.ast.value.value is None):
                    carriers.pop(g, None)
                    break
    # restores: self.attr = v for v in saved (or a carrier of a saved value)
    restores = set()
    for n in cfg.nodes:
        if n.kind == "stmt" and isinstance(n.ast, ast.Assign) and n is not w:
            if any(is_self_attr(t, attr) for t in assign_targets(n.ast)) and isinstance(n.ast.value, ast.Name) and (n.ast.value.id in saved or n.ast.value.id in carriers):
                restores.add(n.id)
    # later redefinitions of a saved variable invalidate it
    reach_from_w = _reachable_from(w)
    for n in cfg.nodes:
        if n.id in reach_from_w and n is not w and (defs_of_node(n) & saved):
            ck.unknown("C02.b", fi, n.ast, f"saved value of self.{attr} is rebound after the override; cannot follow")
            return

    # facts that hold at the write (E-GUARD) and whose names are not rebound afterwards
    # keep holding on every path from the write: a later test on the same fact
    # can only take the consistent edge
    from .sem import conds_at
    from engine.guards import atoms

    try:
        facts = dict(conds_at(ck.repo, fi, w.ast))
    except Exception:
        facts = {}
    redefined = set()
    for n in cfg.nodes:
        if n.id in reach_from_w and n is not w:
            redefined |= defs_of_node(n)
    if is_self_attr(w.ast.targets[0] if isinstance(w.ast, ast.Assign) else getattr(w.ast, "target", None)):
        pass

    _hs_cache: Dict[Tuple[str, int], bool] = {}

    def holds_saved(g: str, test: Node) -> bool:
        """every path from the write to this test passes a copy `g = <saved>`"""
        key = (g, test.id)
        if key not in _hs_cache:
            ok = g in carriers and paths_avoiding(cfg, w, {test.id}, set(carriers[g]), follow=lambda a_, lab_, b_: lab_ != "exc" or True) is None
            _hs_cache[key] = ok
        return _hs_cache[key]

    def follow(a: Node, lab: str, b: Node) -> bool:
        # path correlation: the saved variable holds the (truthy) old value on
        # every path from the write, so `if saved:` cannot take its false edge
        if a.kind == "test" and a.ast is not None and facts and lab in ("true", "false"):
            try:
                at = list(atoms(a.ast, True))
            except Exception:
                at = []
            if len(at) == 1:
                txt, pol_true = at[0]
                names = {x.id for x in ast.walk(a.ast) if isinstance(x, ast.Name)}
                mentions_attr = any(is_self_attr(x, attr) for x in ast.walk(a.ast))
                if txt in facts and not (names & redefined) and not mentions_attr:
                    holds_true_edge = facts[txt] == pol_true
                    return (lab == "true") == holds_true_edge
        if a.kind == "test" and a.ast is not None:
            t = a.ast
            pol = True
            while isinstance(t, ast.UnaryOp) and isinstance(t.op, ast.Not):
                t, pol = t.operand, not pol
            if isinstance(t, ast.Name) and (t.id in saved or holds_saved(t.id, a)):
                return (lab == "true") == pol or lab == "exc"
            if isinstance(t, ast.Compare) and len(t.ops) == 1 and isinstance(t.left, ast.Name) and (t.left.id in saved or holds_saved(t.left.id, a)) and isinstance(t.comparators[0], ast.Constant) and t.comparators[0].value is None:
                if isinstance(t.ops[0], (ast.IsNot, ast.NotEq)):
                    return (lab == "true") == pol or lab == "exc"
                if isinstance(t.ops[0], (ast.Is, ast.Eq)):
                    return (lab == "false") == pol or lab == "exc"
        return True

    # the write itself may raise before taking effect: start from its normal successors only
    p = paths_avoiding(cfg, w, {cfg.exit.id, cfg.raise_exit.id}, restores, follow=follow, start_labels={"next", "iter"})
    if p is None:
        ck.holds("C02.b", fi, w.ast, f"temporary override of self.{attr}: every path to an exit (normal or exceptional) restores the saved value")
    else:
        kind = "exceptional" if p[-1] is cfg.raise_exit else "normal"
        ck.violated(
            "C02.b",
            fi,
            w.ast,
            f"hyper-parameter self.{attr} is overridden and NOT restored on an {kind} exit: after a failing call get_params() reports the altered value",
            path=fmt_path(p),
        )


def _reachable_from(n: Node) -> Set[int]:
    seen = set()
    st = [m for _, m in n.succ]
    while st:
        x = st.pop()
        if x.id in seen:
            continue
        seen.add(x.id)
        st.extend(m for _, m in x.succ)
    return seen


# ------------------------------------------------------------------ C02.c
_effects_cache = {}


def effects_for(repo) -> Effects:
    e = _effects_cache.get(id(repo))
    if e is None:
        e = Effects(repo, resolve_call)
        e.solve()
        _effects_cache.clear()
        _effects_cache[id(repo)] = e
    return e


def check_c(ck, repo):
    eff = effects_for(repo)
    n = 0
    for ci, fi in _entry_points(repo):
        params = [p for p in fi.named_params if p not in ("self", "cls") and p not in NON_DATA]
        if not params:
            continue
        sites, _ = eff.writes_in(fi)
        by_param: Dict[str, list] = {}
        for w in sites:
            for r in w.roots:
                by_param.setdefault(r, []).append(w)
        # objects held in hyper-parameters must not be mutated on a fit/predict path
        hp = hyper_params(repo, ci)
        for root, ws in sorted(by_param.items()):
            if root.startswith("self.") and root[5:] in hp:
                attr = root[5:]
                if attr in ("random_state",):
                    continue  # a generator instance given as random_state is consumed by design (scikit-learn convention)
                if D_EXEMPT.get((ci.name, attr)) or (fi.cls is not None and D_EXEMPT.get((fi.cls.name, attr))) or B_EXEMPT.get((ci.name, attr)):
                    continue
                if fi.name in ("__init__", "set_params"):
                    continue
                w = ws[0]
                ck.violated(
                    "C02.b",
                    fi,
                    w.node,
                    f"{ci.name}.{fi.name}: the object held in hyper-parameter '{attr}' is modified in place ({w.how}{' -> ' + w.via if w.via else ''}): get_params(deep=True) changes and the caller's object is altered",
                )
        for p in params:
            n += 1
            ws = by_param.get(p)
            label = f"{fi.cls.name if fi.cls else ''}.{fi.name}({p})"
            if not ws:
                ck.holds("C02.c", fi, label, f"no in-place write reaches an alias of '{p}' (callees included)")
            else:
                w = ws[0]
                ck.violated(
                    "C02.c",
                    fi,
                    w.node,
                    f"{label}: caller's '{p}' may be written in place: {w.how}" + (f" -> {w.via}" if w.via else ""),
                )
    ck.extra["functions_summarised"] = len(eff.summaries)
    ck.extra["functions_writing_a_parameter"] = sorted(q.split(":", 1)[1] for q, s in eff.summaries.items() if s.writes)[:80]
    return n


# ------------------------------------------------------------------ C02.d
FIT_METHODS = {"fit", "fit_transform", "fit_predict", "partial_fit"}


def check_d(ck, repo, rule="C02.d"):
    n_clone = 0
    eff = effects_for(repo)
    done = set()
    for ci in estimator_classes(repo):
        hp = hyper_params(repo, ci)
        _, fit = repo.find_method(ci, "fit")
        if fit is None:
            continue
        funcs = [f for f in reachable_functions(repo, [fit]) if f.name not in ("__init__", "set_params", "get_params")]
        mro_names = [c.qualname for c in repo.mro(ci) if isinstance(c, ClassInfo)]
        # call sites inside the reachable set, for parameter origins
        callers: Dict[str, list] = {}
        for g in funcs:
            for c in [x for x in own_nodes_incl_lambda(g.node) if isinstance(x, ast.Call)]:
                c2 = eff._unwrap_delayed(c)
                callee = resolve_call(repo, g, c2)
                if callee is not None:
                    callers.setdefault(callee.qualname, []).append((g, c2, c))
        ctx = {"repo": repo, "hp": hp, "mro": mro_names, "callers": callers, "eff": eff, "rds": {}}
        for fi in funcs:
            for c in [x for x in own_nodes_incl_lambda(fi.node) if isinstance(x, ast.Call)]:
                f = c.func
                if not (isinstance(f, ast.Attribute) and f.attr in FIT_METHODS):
                    continue
                recv = f.value
                # Parent.fit(self, ...) / super().fit(...) are not nested estimators
                if explicit_parent_call(repo, fi, c, f.attr) is not None:
                    continue
                if isinstance(recv, ast.Name) and recv.id == "self":
                    continue
                origin = _origin(ctx, fi, recv, c, set())
                if origin is None:
                    continue
                kind, attr = origin
                key = (fi.qualname, c.lineno, c.col_offset, kind, attr)
                if key in done:
                    continue
                done.add(key)
                if kind == "clone":
                    n_clone += 1
                    ck.holds(rule, fi, c, "receiver of .fit is a clone / fresh object")
                elif kind == "hyper":
                    ex = D_EXEMPT.get((ci.name, attr)) or (D_EXEMPT.get((fi.cls.name, attr)) if fi.cls else None)
                    if ex:
                        ck.holds(rule, fi, c, f"exempt ({ci.name}.{attr}): {ex}", nontrivial=False)
                    else:
                        ck.violated(
                            rule,
                            fi,
                            c,
                            f"{ci.name}: the estimator stored in hyper-parameter '{attr}' is fitted in place (no clone): fit changes what get_params reports and a failing fit leaves it half-trained",
                        )
    return n_clone


def _rd(ctx, fi):
    r = ctx["rds"].get(fi.qualname)
    if r is None:
        r = ctx["rds"][fi.qualname] = ReachingDefs(fi.node)
    return r


def _origin(ctx, fi, recv: ast.AST, at_ast: ast.AST, seen, depth=0) -> Optional[Tuple[str, str]]:
    """('hyper', attr) when the receiver may be the object stored in
    self.<hyper-parameter>; ('clone', '') when it is produced by clone()/a
    constructor; None when unknown.  Parameters are followed to the call
    sites inside the fit-reachable set (delayed(f)(...) included)."""
    repo, hp = ctx["repo"], ctx["hp"]
    if depth > 8:
        return None
    if is_self_attr(recv):
        if fi.cls is not None and fi.cls.qualname in ctx["mro"] and recv.attr in hp:
            return ("hyper", recv.attr)
        if fi.cls is not None and fi.cls.qualname not in ctx["mro"]:
            # an attribute of a helper object (a tree node, ...): follow the
            # constructor parameter it was stored from to the construction sites
            init = fi.cls.methods.get("__init__")
            if init is None or ("hattr", fi.cls.qualname, recv.attr) in seen:
                return None
            seen.add(("hattr", fi.cls.qualname, recv.attr))
            res = None
            for n in own_nodes(init.node):
                if isinstance(n, ast.Assign) and any(is_self_attr(t, recv.attr) for t in assign_targets(n)):
                    o = _origin(ctx, init, n.value, n, seen, depth + 1)
                    if o and o[0] == "hyper":
                        return o
                    res = res or o
            return res
        if fi.cls is None or fi.cls.qualname not in ctx["mro"] or ("attr", recv.attr) in seen:
            return None
        seen.add(("attr", recv.attr))
        # a fitted attribute: where was it assigned?  same function first
        res = None
        cands = [fi] + [m for m in fi.cls.methods.values() if m is not fi and m.name not in ("__init__",)]
        for m in cands:
            found = False
            for n in own_nodes(m.node):
                if isinstance(n, ast.Assign) and any(is_self_attr(t, recv.attr) for t in assign_targets(n)):
                    found = True
                    o = _origin(ctx, m, n.value, n, seen, depth + 1)
                    if o and o[0] == "hyper":
                        return o
                    res = res or o
            if found and m is fi:
                break
        return res
    if isinstance(recv, ast.Subscript):
        return _origin(ctx, fi, recv.value, at_ast, seen, depth)
    if isinstance(recv, ast.Call):
        fn = recv.func
        if isinstance(fn, ast.Attribute) and fn.attr in FIT_METHODS and fn.attr == "fit":
            # x = clone(e).fit(...) returns the fitted clone itself
            return _origin(ctx, fi, fn.value, at_ast, seen, depth)
        callee = resolve_call(repo, fi, recv)
        if callee is not None and callee.name != "__init__":
            res = None
            for n in own_nodes(callee.node):
                if isinstance(n, ast.Return) and n.value is not None:
                    o = _origin(ctx, callee, n.value, n, seen, depth + 1)
                    if o and o[0] == "hyper":
                        return o
                    res = res or o
            if res is not None:
                return res
            # parameters of the callee bound at THIS call site
            binding = ctx["eff"]._bind(recv, callee, fi)
            for n in own_nodes(callee.node):
                if isinstance(n, ast.Return) and isinstance(n.value, ast.Name) and n.value.id in binding:
                    o = _origin(ctx, fi, binding[n.value.id], at_ast, seen, depth + 1)
                    if o and o[0] == "hyper":
                        return o
                    res = res or o
            return res
        if isinstance(fn, ast.Name) and fn.id in ("clone", "clone_with_fitted_parameters", "deepcopy"):
            return ("clone", "")
        if isinstance(fn, ast.Attribute) and fn.attr in ("clone", "deepcopy"):
            return ("clone", "")
        if isinstance(fn, ast.Name) and fn.id[:1].isupper():
            return ("clone", "")
        if isinstance(fn, ast.Attribute) and fn.attr[:1].isupper():
            return ("clone", "")
        if isinstance(fn, ast.Name) and fn.id in ("list", "tuple", "sorted", "reversed") and recv.args:
            return _origin(ctx, fi, recv.args[0], at_ast, seen, depth)
        return None
    if isinstance(recv, (ast.ListComp, ast.GeneratorExp)):
        # [clone(e) for ...] / [m for m in self.models]
        o = _origin(ctx, fi, recv.elt, at_ast, seen, depth)
        if o is None and isinstance(recv.elt, ast.Name):
            for gen in recv.generators:
                if recv.elt.id in names_in(gen.target):
                    return _origin(ctx, fi, gen.iter, at_ast, seen, depth)
        return o
    if isinstance(recv, (ast.List, ast.Tuple)):
        res = None
        for e in recv.elts:
            o = _origin(ctx, fi, e, at_ast, seen, depth)
            if o and o[0] == "hyper":
                return o
            res = res or o
        return res
    if isinstance(recv, ast.IfExp):
        a = _origin(ctx, fi, recv.body, at_ast, seen, depth)
        b = _origin(ctx, fi, recv.orelse, at_ast, seen, depth)
        for x in (a, b):
            if x and x[0] == "hyper":
                return x
        return a or b
    if isinstance(recv, ast.Name):
        rd = _rd(ctx, fi)
        at = rd.node_of(at_ast)
        if at is None:
            return None
        res = None
        for d in rd.reaching(recv.id, at):
            if (fi.qualname, recv.id, d) in seen:
                continue
            seen.add((fi.qualname, recv.id, d))
            if d < 0:
                # a parameter: look at the call sites in the reachable set
                for g, c2, c in ctx["callers"].get(fi.qualname, []):
                    binding = ctx["eff"]._bind(c2, fi, g)
                    if recv.id in binding:
                        o = _origin(ctx, g, binding[recv.id], c, seen, depth + 1)
                        if o and o[0] == "hyper":
                            return o
                        res = res or o
                continue
            dn = rd.node_by_id[d]
            a = dn.ast
            val = None
            if dn.kind == "for":
                it = a.iter
                cands = [it]
                if isinstance(it, ast.Call) and isinstance(it.func, ast.Name) and it.func.id in ("enumerate", "zip", "list", "sorted", "reversed"):
                    cands = list(it.args)
                if isinstance(it, ast.Call) and isinstance(it.func, ast.Attribute) and it.func.attr in ("items", "values"):
                    cands = [it.func.value]
                for cnd in cands:
                    o = _origin(ctx, fi, cnd, a, seen, depth)
                    if o and o[0] == "hyper":
                        return o
                    res = res or o
                continue
            if isinstance(a, ast.Assign):
                val = a.value
                for t in a.targets:
                    if isinstance(t, (ast.Tuple, ast.List)) and isinstance(val, (ast.Tuple, ast.List)) and len(t.elts) == len(val.elts):
                        for te, ve in zip(t.elts, val.elts):
                            if isinstance(te, ast.Name) and te.id == recv.id:
                                val = ve
            if val is None:
                continue
            o = _origin(ctx, fi, val, a, seen, depth)
            if o and o[0] == "hyper":
                return o
            res = res or o
        return res
    return None


# ------------------------------------------------------------------ C02.e
COPY_FLAGS = {"copy_X", "copy_x", "copy"}


def _bool_to_ifexp(e: ast.AST) -> ast.AST:
    """`a and b` -> `b if a else a`, `a or b` -> `a if a else b` (value semantics)"""
    if isinstance(e, ast.BoolOp) and len(e.values) >= 2:
        head, rest = e.values[0], e.values[1:]
        tail = _bool_to_ifexp(ast.BoolOp(op=e.op, values=rest)) if len(rest) > 1 else _bool_to_ifexp(rest[0])
        if isinstance(e.op, ast.And):
            return ast.IfExp(test=head, body=tail, orelse=head)
        return ast.IfExp(test=head, body=head, orelse=tail)
    if isinstance(e, ast.IfExp):
        return ast.IfExp(test=e.test, body=_bool_to_ifexp(e.body), orelse=_bool_to_ifexp(e.orelse))
    return e


def check_e(ck, repo):
    from . import sem

    eff = effects_for(repo)
    n = 0
    for fi in sorted(repo.all_functions.values(), key=lambda f: f.qualname):
        if fi.cls is None or not fi.named_params:
            continue
        ctor_sites = []
        for st in own_nodes(fi.node):
            if not (isinstance(st, ast.Assign) and len(st.targets) == 1 and isinstance(st.targets[0], ast.Name) and isinstance(st.value, ast.Call)):
                continue
            c = st.value
            tail = c.func.attr if isinstance(c.func, ast.Attribute) else (c.func.id if isinstance(c.func, ast.Name) else "")
            if not tail[:1].isupper():
                continue
            flags = [k for k in c.keywords if k.arg in COPY_FLAGS]
            if flags:
                ctor_sites.append((st, st.targets[0].id, flags[0]))
        if not ctor_sites:
            continue
        data_params = [p for p in fi.named_params if p not in ("self", "cls") and p not in NON_DATA]
        st0 = {p: frozenset({p}) for p in data_params}
        for cst, var, kw in ctor_sites:
            fits = [
                c
                for c in own_nodes(fi.node)
                if isinstance(c, ast.Call) and isinstance(c.func, ast.Attribute) and c.func.attr in FIT_METHODS and isinstance(c.func.value, ast.Name) and c.func.value.id == var and c.args
            ]
            for fc in fits:
                n += 1
                at = sem.stmt_of(fc)
                data_alts = sem.guarded_values(repo, fi, fc.args[0], at)
                flag_alts = sem.guarded_values(repo, fi, _bool_to_ifexp(kw.value), cst)
                bad = None
                for dc, dv, _ in data_alts:
                    roots = {r for r in eff.alias(dv, st0, fi) if r in data_params}
                    if not roots:
                        continue
                    for fc_, fv, _ in flag_alts:
                        conds = frozenset(dc) | frozenset(fc_)
                        if not sem.consistent(conds):
                            continue
                        txt = sem.xt(fv)
                        ok = (
                            const_value(fv) is True
                            or (is_self_attr(fv) and fv.attr in COPY_FLAGS)
                            or (isinstance(fv, ast.Name) and fv.id in COPY_FLAGS)
                            or sem.truth_of(conds, txt) is True
                        )
                        if not ok:
                            bad = (sorted(roots)[0], txt, sorted(t if pol else f"not ({t})" for t, pol in conds))
                            break
                    if bad:
                        break
                label = f"{fi.cls.name}.{fi.name}: {src_of(fc)[:60]} with {kw.arg}={src_of(kw.value)}"
                if bad is None:
                    ck.holds("C02.e", fi, cst, f"{label}: wherever the data aliases a data parameter the flag is on or the caller's own")
                else:
                    ck.violated(
                        "C02.e",
                        fi,
                        cst,
                        f"{label}: when {' and '.join(bad[2]) or 'always'}, the inner estimator is fitted on the caller's '{bad[0]}' itself with {kw.arg}={bad[1]}: scikit-learn then rescales/centres the data in place although the outer copy flag asks for a copy",
                    )
    # call-time flags: `obj.method(<the caller's array>, copy=False)` asks the callee to work in place
    for fi in sorted(repo.all_functions.values(), key=lambda f: f.qualname):
        if fi.cls is None or not fi.named_params:
            continue
        data_params = [p for p in fi.named_params if p not in ("self", "cls") and p not in NON_DATA]
        if not data_params:
            continue
        st0 = {p: frozenset({p}) for p in data_params}
        for c in own_nodes(fi.node):
            if not (isinstance(c, ast.Call) and isinstance(c.func, ast.Attribute) and c.args):
                continue
            flags = [k for k in c.keywords if k.arg in COPY_FLAGS or k.arg == "inplace"]
            if not flags:
                continue
            kw = flags[0]
            at = sem.stmt_of(c)
            n += 1
            off = (const_value(kw.value) is False) if kw.arg != "inplace" else (const_value(kw.value) is True)
            roots = set()
            for dc, dv, _ in sem.guarded_values(repo, fi, c.args[0], at) or [(frozenset(), c.args[0], None)]:
                roots |= {r for r in eff.alias(dv, st0, fi) if r in data_params}
            if isinstance(c.args[0], ast.Name) and c.args[0].id in data_params:
                # a parameter not rebound before the call is the caller's object
                rebound = any(isinstance(s_, ast.Assign) and s_.lineno < at.lineno and any(isinstance(t_, ast.Name) and t_.id == c.args[0].id for t_ in ast.walk(s_) if isinstance(t_, ast.Name) and isinstance(t_.ctx, ast.Store)) for s_ in own_nodes(fi.node))
                if not rebound:
                    roots.add(c.args[0].id)
            if off and roots:
                ck.violated("C02.e", fi, at, f"{fi.cls.name}.{fi.name}: {src_of(c)[:70]} hands the caller's '{sorted(roots)[0]}' to {src_of(c.func)} with {kw.arg}={src_of(kw.value)}: the callee is asked to transform the array in place, so the caller's data are overwritten")
            else:
                ck.holds("C02.e", fi, at, f"{src_of(c)[:60]}: " + ("the flag keeps the copy" if not off else "the argument is not the caller's array"), nontrivial=False)
    return n


def run(ck):
    repo = ck.repo
    for k, v in RULES.items():
        ck.rule(k, v)
    check_a(ck, repo)
    nb = check_b(ck, repo)
    nc = check_c(ck, repo)
    nd = check_d(ck, repo)
    ck.extra["copy_flag_sites"] = check_e(ck, repo)
    ck.extra["hyper_parameter_write_sites"] = nb
    ck.extra["clone_sites"] = nd
    from engine import effects as _e

    ck.extra["externals_table"] = {
        "view_attrs": sorted(_e.VIEW_ATTRS),
        "view_methods": sorted(_e.VIEW_METHODS),
        "view_funcs": sorted(_e.VIEW_FUNCS),
        "validators": sorted(_e.VALIDATORS_1 | _e.VALIDATORS_2),
        "inplace_methods": sorted(_e.INPLACE_METHODS),
        "inplace_funcs": sorted(_e.INPLACE_FUNCS_ARG0),
    }
    ck.require_count("C02.a", 12, "fit methods of estimator classes")
    ck.require_count("C02.b", 1, "ConstraintKMeans.max_iter, PiecewiseTreeRegressor.criterion x2 (+ PipelineCache.steps)")
    ck.require_count("C02.c", 48, "data parameters of public methods")
    ck.require_count("C02.d", 7, "clone sites + documented wrappers")
    ck.require_count("C02.e", 1, "QuantileLinearRegression.fit: inner LinearRegression(copy_X=self.copy_X)")


# ---------------------------------------------------------------- self-test
_KC = "mlinsights/mlmodel/kmeans_constraint.py"
_PT = "mlinsights/mlmodel/piecewise_tree_regression.py"
_QR = "mlinsights/mlmodel/quantile_regression.py"
_IR = "mlinsights/mlmodel/interval_regressor.py"
_PE = "mlinsights/mlmodel/piecewise_estimator.py"
_TP = "mlinsights/mlmodel/target_predictors.py"
WITNESSES = [
    {"name": "ckm-restore-not-in-finally", "file": _KC, "rule": "C02.b", "old": "        finally:\n            self.max_iter = max_iter\n", "new": "        except KeyError:\n            pass\n        self.max_iter = max_iter\n"},
    {"name": "ckm-never-restored", "file": _KC, "rule": "C02.b", "old": "        finally:\n            self.max_iter = max_iter\n", "new": "        finally:\n            pass\n"},
    {"name": "ptr-restore-after-try", "file": _PT, "rule": "C02.b", "old": "        finally:\n            if replace:\n                self.criterion = replace\n", "new": "        except KeyError:\n            raise\n        if replace:\n            self.criterion = replace\n"},
    {"name": "ptr-restore-wrong-guard", "file": _PT, "rule": "C02.b", "old": "            if replace:\n                self.criterion = replace\n", "new": "            if check_input:\n                self.criterion = replace\n"},
    {"name": "interval-permanent-write", "file": _IR, "rule": "C02.b", "old": "        self.estimators_ = []\n", "new": "        self.estimators_ = []\n        self.alpha = min(self.alpha, 1.0)\n"},
    {"name": "quantile-weights-in-place", "file": _QR, "rule": "C02.c", "old": "            clr.fit(Xm, y, W)\n", "new": "            W *= 1.0\n            clr.fit(Xm, y, W)\n"},
    {"name": "quantile-epsilon-out-y", "file": _QR, "rule": "C02.c", "old": "        epsilon = numpy.abs(diff)\n", "new": "        epsilon = numpy.abs(diff, out=y_true)\n"},
    {"name": "quantile-X-ones-in-place", "file": _QR, "rule": "C02.c", "old": "            Xm = X\n", "new": "            Xm = X\n            Xm[:, 0] = 1.0\n"},
    {"name": "piecewise-y-ravel-write", "file": _PE, "rule": "C02.c", "old": "                y = y.ravel()\n", "new": "                y = y.ravel()\n                y[0] = 0\n"},
    {"name": "piecewise-association-sort-X", "file": _PE, "rule": "C02.c", "old": "    Xi = X[ind, :]\n    yi = y[ind]\n    sw = sample_weight[ind] if sample_weight is not None else None\n\n    if nb_classes", "new": "    Xi = X[ind, :]\n    yi = y[ind]\n    y.sort()\n    sw = sample_weight[ind] if sample_weight is not None else None\n\n    if nb_classes"},
    {"name": "interval-no-clone", "file": _IR, "rule": "C02.d", "old": "estimators = [clone(self.estimator) for i in range(self.n_estimators)]", "new": "estimators = [self.estimator for i in range(self.n_estimators)]"},
    {"name": "piecewise-no-clone-binner", "file": _PE, "rule": "C02.d", "old": "        binner = clone(self.binner)\n", "new": "        binner = self.binner\n"},
    {"name": "piecewise-no-clone-estimators", "file": _PE, "rule": "C02.d", "old": "estimators = [clone(self.estimator) for i in self.mapping_]", "new": "estimators = [self.estimator for i in self.mapping_]"},
    {"name": "ttr-no-clone", "file": _TP, "rule": "C02.d", "old": "            self.regressor_ = clone(self.regressor)\n", "new": "            self.regressor_ = self.regressor\n"},
    {"name": "tsne-mutates-transformer-param", "file": "mlinsights/mlmodel/predictable_tsne.py", "rule": "C02.b", "old": "        self.transformer_ = clone(self.transformer)\n", "new": "        self.transformer.set_params(perplexity=5)\n        self.transformer_ = clone(self.transformer)\n"},
    {"name": "tsdiff-view-of-y-written", "file": "mlinsights/timeseries/preprocessing.py", "rule": "C02.c", "old": "        self.y_ = y[: self.degree].copy()\n", "new": "        self.y_ = numpy.asarray(y[: self.degree])\n"},
    {"name": "permutation-fit-no-return", "file": "mlinsights/mlmodel/sklearn_transform_inv_fct.py", "rule": "C02.a", "old": "        self.permutation_ = perm\n        return self\n", "new": "        self.permutation_ = perm\n"},
    {"name": "tsne-normalizer-in-place", "file": "mlinsights/mlmodel/predictable_tsne.py", "rule": "C02.e", "old": "            X = self.normalizer_.transform(X)\n        pred = self.estimator_.predict(X)", "new": "            X = self.normalizer_.transform(X, copy=False)\n        pred = self.estimator_.predict(X)"},
    {"name": "quantile-inner-copy-off-when-aliased", "file": _QR, "rule": "C02.e", "old": "            copy_X=self.copy_X,\n            n_jobs=self.n_jobs,", "new": "            copy_X=self.copy_X if self.fit_intercept else False,\n            n_jobs=self.n_jobs,"},
    {"name": "quantile-inner-copy-and-intercept", "file": _QR, "rule": "C02.e", "old": "            copy_X=self.copy_X,\n            n_jobs=self.n_jobs,", "new": "            copy_X=self.copy_X and self.fit_intercept,\n            n_jobs=self.n_jobs,"},
    {"name": "quantile-inner-copy-off", "file": _QR, "rule": "C02.e", "old": "            copy_X=self.copy_X,\n            n_jobs=self.n_jobs,", "new": "            copy_X=False,\n            n_jobs=self.n_jobs,"},
    {"name": "interval-fit-returns-list", "file": _IR, "rule": "C02.a", "old": "            for i in loop\n        )\n\n        return self\n", "new": "            for i in loop\n        )\n\n        return self.estimators_\n"},
]
TWINS = [
    {"name": "ckm-restore-helper-var", "file": _KC, "old": "        max_iter = self.max_iter\n        self.max_iter //= 2\n", "new": "        max_iter = self.max_iter\n        self.max_iter = max_iter // 2\n"},
    {"name": "ptr-guard-is-not-none", "file": _PT, "old": "            if replace:\n                self.criterion = replace\n", "new": "            if replace is not None:\n                self.criterion = replace\n"},
    {"name": "quantile-copy-then-write", "file": _QR, "old": "        W = numpy.ones(X.shape[0]) if sample_weight is None else sample_weight\n", "new": "        W = numpy.ones(X.shape[0]) if sample_weight is None else sample_weight.copy()\n        W *= 1.0\n"},
    {"name": "piecewise-fancy-index-then-write", "file": _PE, "old": "    Xi = X[ind, :]\n    yi = y[ind]\n    sw = sample_weight[ind] if sample_weight is not None else None\n\n    if nb_classes", "new": "    Xi = X[ind, :]\n    yi = y[ind]\n    yi.sort()\n    sw = sample_weight[ind] if sample_weight is not None else None\n\n    if nb_classes"},
    {"name": "quantile-inner-copy-forced-when-aliased", "file": _QR, "old": "            copy_X=self.copy_X,\n            n_jobs=self.n_jobs,", "new": "            copy_X=self.copy_X if self.fit_intercept else True,\n            n_jobs=self.n_jobs,"},
    {"name": "quantile-inner-copy-via-local", "file": _QR, "old": "            copy_X=self.copy_X,\n            n_jobs=self.n_jobs,", "new": "            copy_X=getattr(self, \"copy_X\"),\n            n_jobs=self.n_jobs,"},
    {"name": "interval-clone-via-local", "file": _IR, "old": "estimators = [clone(self.estimator) for i in range(self.n_estimators)]", "new": "base = self.estimator\n        estimators = [clone(base) for i in range(self.n_estimators)]"},
]
MIN_WITNESSES = 12
