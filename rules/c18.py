"""C18 — correlation and comparable-score metrics (structural part).

  C18.a  range: interval analysis of the cell update (var >= 0 => c <= 1 =>
         max(c, 0) in [0, 1] => co in [0, 1]); the accumulator is zero-
         initialised, receives += co exactly once per draw and is divided by the
         same `draws` that bounds the loop
  C18.b  mini/maxi are initialised with co at the first draw and updated with
         min/max of the same co; the DataFrame branch and the ndarray branch are
         isomorphic after erasing .iloc; the input is never written
  C18.c  _known_functions maps "exp"/"log" to numpy.exp/numpy.log; in every
         return branch tr is applied to y_true and inv_tr to y_pred; the
         both-None case raises before use
"""

from __future__ import annotations

import ast
from engine.util import clone_ast
import copy
import math
from typing import Dict, Optional, Tuple

from engine.src import FunctionInfo, own_nodes, own_nodes_incl_lambda, src_of, AnalysisError
from engine import norm
from engine.util import const_value, kwarg, enclosing_tests
from engine.effects import Effects
from .common import resolve_call
from .sem import expander, ctext, want, bind, calls, paths, block_paths, split_ifexp, inline_helpers, complement_norm, truth_of, consistent, RAISE

RULES = {
    "C18.a": "interval analysis: every accumulated term lies in [0, 1]; zero-initialised accumulator, one += per draw, division by the loop bound",
    "C18.b": "min/max bookkeeping on the same term; DataFrame and ndarray branches isomorphic modulo .iloc; input not written",
    "C18.c": "name table exp/log -> numpy.exp/numpy.log; tr on y_true, inv_tr on y_pred in all branches; both None refused first",
}

CM = "mlinsights.metrics.correlations"
SM = "mlinsights.metrics.scoring_metrics"
INF = math.inf
Iv = Tuple[float, float]

NONNEG_FUNCS = {"numpy.var", "numpy.std", "numpy.abs", "numpy.square", "abs"}


def interval(e: ast.AST, env: Dict[str, Iv]) -> Optional[Iv]:
    if isinstance(e, ast.Constant) and isinstance(e.value, (int, float)) and not isinstance(e.value, bool):
        return (float(e.value), float(e.value))
    if isinstance(e, ast.Name):
        return env.get(e.id)
    if isinstance(e, ast.Call):
        f = src_of(e.func)
        if f in NONNEG_FUNCS:
            return (0.0, INF)
        if f in ("max", "numpy.maximum") and len(e.args) == 2:
            a, b = interval(e.args[0], env), interval(e.args[1], env)
            if a and b:
                return (max(a[0], b[0]), max(a[1], b[1]))
        if f in ("min", "numpy.minimum") and len(e.args) == 2:
            a, b = interval(e.args[0], env), interval(e.args[1], env)
            if a and b:
                return (min(a[0], b[0]), min(a[1], b[1]))
        if f in ("numpy.sqrt", "math.sqrt") and len(e.args) == 1:
            a = interval(e.args[0], env)
            if a and a[0] >= 0:
                return (math.sqrt(a[0]), math.sqrt(a[1]) if a[1] != INF else INF)
        return None
    if isinstance(e, ast.BinOp):
        a, b = interval(e.left, env), interval(e.right, env)
        if a is None or b is None:
            return None
        if isinstance(e.op, ast.Sub):
            return (a[0] - b[1], a[1] - b[0])
        if isinstance(e.op, ast.Add):
            return (a[0] + b[0], a[1] + b[1])
        if isinstance(e.op, ast.Pow) and b[0] == b[1] and a[0] >= 0:
            p = b[0]
            if p > 0:
                return (a[0] ** p, a[1] ** p if a[1] != INF else INF)
        if isinstance(e.op, ast.Mult) and a[0] >= 0 and b[0] >= 0:
            return (a[0] * b[0], (a[1] * b[1]) if INF not in (a[1], b[1]) else INF)
    if isinstance(e, ast.UnaryOp) and isinstance(e.op, ast.USub):
        a = interval(e.operand, env)
        if a:
            return (-a[1], -a[0])
    return None


def _t(x) -> str:
    return ast.unparse(x) if isinstance(x, ast.AST) else str(x)


def _nest(fi: FunctionInfo):
    """the (draw, row, column) loop nest: three nested For loops"""
    for l1 in [x for x in own_nodes(fi.node) if isinstance(x, ast.For)]:
        for l2 in [x for x in l1.body if isinstance(x, ast.For)]:
            for l3 in [x for x in l2.body if isinstance(x, ast.For)]:
                return l1, l2, l3
    return None


def _analyse(repo, fi: FunctionInfo):
    """function-level paths (loops opaque) and, for each, the paths of the
    innermost loop body evaluated in that path's environment"""
    from engine.patheval import PathEval

    nest = _nest(fi)
    if nest is None:
        raise AnalysisError("anchor vanished: the (draw, i, j) loop nest of non_linear_correlations")
    l1, l2, l3 = nest
    out = []
    for minmax in (True, False):
        top = [p for p in split_ifexp(paths(fi, {fi.named_params[3] if len(fi.named_params) > 3 else "minmax": minmax})) if p.ret != RAISE]
        for p in top:
            env = dict(p.env)
            # the environment before the loops: evaluate the prefix only
            pre = PathEval(fi.node, {fi.named_params[3]: ast.Constant(minmax)}, post=complement_norm)
            body = [s for s in fi.node.body if s.lineno < l1.lineno]
            pres = [q for q in pre.run(body) if set(q.conds) <= set(p.conds)]
            for q in pres:
                e2 = dict(q.env)
                e2[fi.named_params[3]] = ast.Constant(minmax)
                # bindings made by the enclosing loop bodies before the innermost loop
                skips = []
                al = dict(q.alias)
                for blk, loop in ((l1.body, l2), (l2.body, l3)):
                    pe = PathEval(fi.node, e2, post=complement_norm)
                    pe.init_alias = al
                    r = pe.run([s for s in blk if s.lineno < loop.lineno])
                    skips += [x for x in r if x.ret is not None and x.ret != RAISE]
                    r = [x for x in r if x.ret is None] or r
                    if r:
                        e2 = dict(r[0].env)
                        al = dict(r[0].alias)
                pe_in = PathEval(fi.node, e2, post=complement_norm)
                pe_in.init_alias = al
                inner = pe_in.run(l3.body)
                for x in inner:
                    # `continue` as the last step of the innermost body, after the cell was updated on
                    # that path, ends the iteration as falling off the end does
                    if x.ret == "<continue>" and any(k.replace(".iloc", "").startswith("cor[") for k in x.named_stores):
                        x.ret = None
                skips += [x for x in inner if x.ret is not None and x.ret != RAISE]
                out.append((minmax, p, q, e2, inner, skips))
    return nest, out


def check_a(ck, repo):
    fi = repo.func(CM, "non_linear_correlations")
    nest, runs = _analyse(repo, fi)
    l1, l2, l3 = nest
    df, model, draws = fi.named_params[0], fi.named_params[1], fi.named_params[2]
    kv, iv, jv = [src_of(l.target) for l in nest]
    ex = expander(repo)
    # the loop nest: draws x rows x columns of the result container
    with ex.lenient():
        its = [ex.text(l.iter, fi, l) for l in nest]
    ck.verdict(its[0] in (f"range(0, {draws})", f"range({draws})") and its[1] in ("range(cor.shape[0])", "range(0, cor.shape[0])") and its[2] in ("range(cor.shape[1])", "range(0, cor.shape[1])") or (its[0] in (f"range(0, {draws})", f"range({draws})") and its[1].endswith(".shape[0])") and its[2].endswith(".shape[1])")), "C18.a", fi, f"loop nest {its}", "one update per (draw, row, column) of the result matrix", f"the loop nest is {its}: the cell update is not executed once per (draw, i, j)")
    seen_terms = set()
    for minmax, top, pre, env, inner, skips in runs:
        cor = _t(env.get("cor")) if "cor" in env else None
        label = f"[minmax={minmax}, {' and '.join(t if pol else 'not ' + t for t, pol in pre.conds) or 'always'}]"
        # zero-initialised accumulator
        z = [(k, _t(v)) for k, v in pre.named_stores.items() if k.replace(".iloc", "") == "cor[:, :]"]
        born_zero = cor is not None and cor.replace(" ", "").startswith(("numpy.zeros(", "numpy.zeros_like(")) and not z
        ck.verdict(born_zero or (len(z) == 1 and z[0][1] in ("0.0", "0")), "C18.a", fi, f"{label} accumulator {cor} zero-filled: {z}", "accumulator zero-initialised", "the accumulator does not start from zero")
        normal = [p for p in inner if p.ret is None]
        if skips:
            sk = skips[0]
            where = " and ".join(t if pol else f"not ({t})" for t, pol in sk.conds) or "always"
            ck.violated("C18.a", fi, f"{label} skipped cells ({sk.ret if isinstance(sk.ret, str) else 'return'} when {where[:120]})", f"when {where[:160]}, the loop nest leaves before the cell update ({sk.ret if isinstance(sk.ret, str) else 'return'}): for that draw the cell is neither accumulated nor entered into min/max, so the mean is still divided by the number of draws and min <= mean <= max can fail")
        else:
            ck.holds("C18.a", fi, f"{label} every (draw, i, j) reaches the cell update", "no continue/break/return before the update on a non-raising path")
        if not normal:
            ck.unknown("C18.a", fi, f"{label} cell update", "no path through the innermost loop body")
            continue
        vectorised = False
        for p in normal:
            cell = [(k, v) for k, v in p.named_stores.items() if k.replace(".iloc", "") == f"cor[{iv}, {jv}]"]
            if not cell and not any(k.replace(".iloc", "").startswith("cor[") for k in p.named_stores):
                # the accumulator is not touched cell by cell in the loop body (e.g. a whole matrix of
                # terms is added once per draw): another bookkeeping, which this rule does not follow
                vectorised = True
                ck.unknown("C18.a", fi, f"{label} cell update", "the innermost loop body does not update the accumulator: the terms are accumulated in another way than `cell += term` per (draw, i, j)")
                continue
            if len(cell) != 1 or not (isinstance(cell[0][1], ast.BinOp) and isinstance(cell[0][1].op, ast.Add) and _t(cell[0][1].left).replace(".iloc", "") == f"{cor}[{iv}, {jv}]"):
                ck.violated("C18.a", fi, f"{label} cell update {[(k, _t(v)[:40]) for k, v in cell]}", "the cell update is not `cell += term` exactly once per (draw, i, j)")
                continue
            term = inline_helpers(repo, fi, cell[0][1].right)
            tt = _t(term)
            if tt in seen_terms:
                continue
            seen_terms.add(tt)
            ivl = interval(term, {})
            if ivl is None:
                ck.unknown("C18.a", fi, f"accumulated term {tt[:80]}", "cannot bound the accumulated term")
            else:
                ck.verdict(ivl[0] >= 0.0 and ivl[1] <= 1.0, "C18.a", fi, f"accumulated term {tt[:90]}", f"accumulated term lies in [{ivl[0]}, {ivl[1]}] (var >= 0)", f"the accumulated term {tt[:90]} lies in [{ivl[0]}, {ivl[1]}], not within [0, 1]: entries of the matrix can leave [0, 1]")
            # the residual: prediction of column j from column i on the test half minus the test target
            var = [c for c in ast.walk(term) if isinstance(c, ast.Call) and _t(c.func) == "numpy.var"]
            okr = False
            if len(var) == 1 and var[0].args and isinstance(var[0].args[0], ast.BinOp) and isinstance(var[0].args[0].op, ast.Sub):
                a, b = var[0].args[0].left, var[0].args[0].right
                S = f"train_test_split(scale({df}), test_size=0.5)"
                I, J = iv, jv
                okr = _t(a) == f"clone({model}).predict({S}[1][:, {I}:{I} + 1])" and _t(b) == f"{S}[1][:, {J}:{J} + 1].ravel()"
                # trained on the train half: a fit call clone(model).fit(train_i, train_j.ravel()) in the cell's body
                allcalls = list(p.calls)
                rr = cell[0][1].right
                if isinstance(rr, ast.Call):
                    callee = resolve_call(repo, fi, rr)
                    if callee is not None:
                        for q in paths(callee, bind(rr, callee.named_params)):
                            allcalls += q.calls
                fits = [_t(c) for c in allcalls if isinstance(c.func, ast.Attribute) and c.func.attr == "fit"]
                okr = okr and fits == [f"clone({model}).fit({S}[0][:, {I}:{I} + 1], {S}[0][:, {J}:{J} + 1].ravel())"]
                n_clone = sum(1 for c in allcalls if _t(c) == f"clone({model})")
                ck.verdict(n_clone >= 1, "C18.b", fi, f"clone({model}) in the cell body", "a fresh clone per cell: the caller's model is untouched and no fit carries over to another cell", f"the model is not cloned once per cell: the caller's model is fitted in place, or a model that keeps state between fits (warm_start) carries the fit for another target into this cell")
            ck.verdict(okr, "C18.a", fi, f"term residual: {tt[:100]}", "c = 1 - variance of (prediction of column j from column i - column j) on the test half, model trained on the train half of the same split of the standardised data", "the term is not 1 - var(prediction - target) with the model trained on (x_i train, x_j train) and evaluated on x_i test of the same split")
        if vectorised:
            continue
        # mean over the draws
        r = top.ret
        first = r.elts[0] if isinstance(r, ast.Tuple) and r.elts else r
        okm = isinstance(first, ast.BinOp) and isinstance(first.op, ast.Div) and _t(first.right) == draws and _t(first.left) == cor
        if minmax:
            okm = okm and isinstance(r, ast.Tuple) and len(r.elts) == 3
        else:
            okm = okm and not isinstance(r, ast.Tuple)
        div_ok = isinstance(first, ast.BinOp) and isinstance(first.op, ast.Div) and _t(first.right) == draws
        if not okm and div_ok and _t(first.left) != cor and (isinstance(r, ast.Tuple) and len(r.elts) == 3) == bool(minmax):
            ck.unknown("C18.a", fi, f"{label} returns {_t(r)[:60]}", f"the value divided by `draws` is {_t(first.left)[:50]}, not the accumulator itself (a conversion or relabelling in between is not followed)")
        else:
            ck.verdict(okm, "C18.a", fi, f"{label} returns {_t(r)[:60]}", "sum of `draws` terms divided by `draws`: the mean stays in [0, 1] and between min and max", "the accumulator is not divided by the number of draws that were added")


def _parents(n):
    p = getattr(n, "_parent", None)
    while p is not None:
        yield p
        p = getattr(p, "_parent", None)


def check_b(ck, repo):
    fi = repo.func(CM, "non_linear_correlations")
    nest, runs = _analyse(repo, fi)
    l1, l2, l3 = nest
    df = fi.named_params[0]
    kv, iv, jv = [src_of(l.target) for l in nest]
    K, I, J = kv, iv, jv
    by_kind = {}
    for minmax, top, pre, env, inner, skips in runs:
        if not minmax:
            continue
        cor = _t(env.get("cor")) if "cor" in env else None
        mini, maxi = _t(env.get("mini", "")), _t(env.get("maxi", ""))
        ck.verdict(mini == maxi == f"{cor}.copy()", "C18.b", fi, f"mini/maxi = {mini[:40]}", "min and max matrices are separate copies of the zeroed container", "mini/maxi are not separate copies of the result container")
        frame = (f"hasattr({df}, 'iloc')", True) in pre.conds
        sig = []
        vector_b = False
        mm_seen = False
        for p in [p for p in inner if p.ret is None]:
            first = None
            for t, pol in p.conds:
                if t in (f"{K} == 0", f"0 == {K}"):
                    first = pol
            st = {k.replace(".iloc", ""): v for k, v in p.named_stores.items()}
            cell = f"[{I}, {J}]"
            acc = st.get(f"cor{cell}")
            tm = _t(acc.right) if isinstance(acc, ast.BinOp) else None
            mn, mx = st.get(f"mini{cell}"), st.get(f"maxi{cell}")
            mcur, xcur = f"{mini}{cell}", f"{maxi}{cell}"
            if acc is None and mn is None and mx is None and not any(k.startswith(("cor[", "mini[", "maxi[")) for k in st):
                vector_b = True
                continue
            for v__ in (mn, mx):
                if v__ is not None and tm is not None and _t(v__) != tm and _t(v__).startswith(("min(", "max(", "numpy.minimum(", "numpy.maximum(", "numpy.fmin(", "numpy.fmax(")):
                    mm_seen = True
            if tm is None or mn is None or mx is None:
                ok = False
            elif first is True:
                ok = _t(mn) == tm and _t(mx) == tm
            elif first is False:
                ok = _t(mn).replace(".iloc", "") in (f"min({mcur}, {tm})", f"min({tm}, {mcur})") and _t(mx).replace(".iloc", "") in (f"max({xcur}, {tm})", f"max({tm}, {xcur})")
            else:
                ok = False
            sig.append((first, ok, tuple(sorted((k, _t(v).replace(".iloc", "").replace(cor or "?", "COR")) for k, v in st.items()))))
        if vector_b and not sig:
            ck.unknown("C18.b", fi, f"min/max bookkeeping ({'frame' if frame else 'array'})", "min and max are not kept cell by cell in the loop body: another bookkeeping than the one this rule reads")
            continue
        okall = bool(sig) and all(ok for _, ok, _ in sig) and {f for f, _, _ in sig} == {True, False}
        uses_minmax = mm_seen
        compares = any(("<" in t_ or ">" in t_) and ("mini" in t_ or "maxi" in t_ or "COR" in t_ or ".copy()" in t_) for p in inner if p.ret is None for t_, _p in p.conds)
        if not okall and not uses_minmax and compares:
            ck.unknown("C18.b", fi, f"min/max bookkeeping ({'frame' if frame else 'array'})", "the extrema are kept by comparison-guarded assignments (if term < cell: cell = term) instead of min()/max(): the cases of that spelling are not enumerated by this rule")
            by_kind[frame] = sorted(s_[2] for s_ in sig)
            continue
        ck.verdict(okall, "C18.b", fi, f"min/max bookkeeping ({'frame' if frame else 'array'})", "min and max start at the first draw's term and are updated with min/max of the same term", "min/max bookkeeping changed: min <= mean <= max can fail (not initialised at the first draw, or not updated with min/max of the accumulated term)")
        by_kind[frame] = sorted(s_[2] for s_ in sig)
    # the running extremum of a cell is updated from that very cell: `maxi` and `mini` start as
    # equal copies, so the evaluation above cannot tell them apart - the statements can
    def _local_value(name_, st_):
        body_ = getattr(st_, "_parent", None)
        seq = None
        for fld in ("body", "orelse", "finalbody"):
            if st_ in getattr(body_, fld, []):
                seq = getattr(body_, fld)
        if seq is None:
            return None
        for prev in reversed(seq[: seq.index(st_)]):
            if isinstance(prev, ast.Assign):
                for t_ in prev.targets:
                    if isinstance(t_, ast.Name) and t_.id == name_:
                        return prev.value
                    if isinstance(t_, (ast.Tuple, ast.List)) and isinstance(prev.value, (ast.Tuple, ast.List)) and len(t_.elts) == len(prev.value.elts):
                        for te_, ve_ in zip(t_.elts, prev.value.elts):
                            if isinstance(te_, ast.Name) and te_.id == name_:
                                return ve_
        return None

    n_upd = 0
    ext_names = {t_.id for a_ in own_nodes(fi.node) if isinstance(a_, ast.Assign) and isinstance(a_.value, ast.Call) and isinstance(a_.value.func, ast.Attribute) and a_.value.func.attr == "copy" for t_ in a_.targets if isinstance(t_, ast.Name)}
    for st_ in ast.walk(nest[-1]):
        if not (isinstance(st_, ast.Assign) and len(st_.targets) == 1 and isinstance(st_.targets[0], ast.Subscript) and isinstance(st_.value, ast.Call) and src_of(st_.value.func) in ("min", "max", "numpy.minimum", "numpy.maximum", "numpy.fmin", "numpy.fmax") and len(st_.value.args) == 2):
            continue
        tgt = src_of(st_.targets[0])
        base_ = st_.targets[0].value
        while isinstance(base_, ast.Attribute):
            base_ = base_.value
        if not (isinstance(base_, ast.Name) and base_.id in ext_names):
            continue
        n_upd += 1
        args_ = []
        for a_ in st_.value.args:
            v_ = a_
            if isinstance(a_, ast.Name):
                v_ = _local_value(a_.id, st_) or a_
            args_.append(src_of(v_))
        others = [x for x in args_ if x.replace(".iloc", "").split("[")[0] in ext_names and x != tgt]
        ck.verdict(tgt in args_ and not others, "C18.b", fi, st_, f"{tgt} is updated from its own previous value", f"{tgt} is rebuilt from {others or args_}, not from its own previous value: the running {'maximum' if 'max' in src_of(st_.value.func) else 'minimum'} forgets earlier draws (or takes the other matrix's), so min <= mean <= max can fail")
    if set(by_kind) == {True, False}:
        ck.verdict(by_kind[True] == by_kind[False], "C18.b", fi, "frame vs array updates", "DataFrame and ndarray updates are the same modulo .iloc", "the DataFrame branch and the ndarray branch of the cell update differ: a frame and its array give different matrices under the same seed")
        cf = {}
        for minmax, top, pre, env, inner, skips in runs:
            cf[(f"hasattr({df}, 'iloc')", True) in pre.conds] = _t(env.get("cor", ""))
        sq = (f"{df}.corr()", f"numpy.corrcoef({df}, rowvar=False)")
        shaped = [f"numpy.zeros({t_}.shape)" for t_ in sq] + [f"numpy.zeros_like({t_})" for t_ in sq]
        if cf.get(True) in shaped or cf.get(False) in shaped:
            # an array with the shape of the correlation matrix; the labels of a frame are put back
            # by code this rule does not follow
            ck.unknown("C18.b", fi, f"containers {cf}", "the result container is an unlabelled array shaped like the correlation matrix: whether the labels of a DataFrame are restored is not decided")
        else:
          ck.verdict(cf.get(True) == f"{df}.corr()" and cf.get(False) == f"numpy.corrcoef({df}, rowvar=False)", "C18.b", fi, f"containers {cf}", "square matrix with one row/column per variable (labels kept for frames)", "the result container is not a square per-variable matrix in both branches")
    else:
        ck.unknown("C18.b", fi, "frame / array", f"branches found: {sorted(by_kind)}")
    # input never written
    eff = Effects(repo, resolve_call)
    eff.solve()
    sites, _ = eff.writes_in(fi)
    w = [x for x in sites if df in x.roots]
    ck.verdict(not w, "C18.b", fi, w[0].node if w else "non_linear_correlations(df)", "no in-place write reaches the caller's table", f"the caller's table may be written in place ({w[0].how if w else ''})")
    sc = [c for c in own_nodes_incl_lambda(fi.node) if isinstance(c, ast.Call) and src_of(c.func) == "scale"]
    ck.verdict(len(sc) == 1 and (kwarg(sc[0], "copy") is None or src_of(kwarg(sc[0], "copy")) == "True"), "C18.b", fi, sc[0] if sc else "scale(df)", "scale copies by default", "scale is asked to work in place on the caller's data")


def check_c(ck, repo):
    mi = repo.modules.get(SM)
    if mi is None:
        raise AnalysisError("anchor vanished: mlinsights.metrics.scoring_metrics")
    kf = [s for s in mi.tree.body if isinstance(s, ast.Assign) and src_of(s.targets[0]) == "_known_functions"]
    if len(kf) != 1 or not isinstance(kf[0].value, ast.Dict):
        ck.unknown("C18.c", None, "_known_functions = {...}", "table not found", file=mi.relpath, function="-", line=0)
    else:
        tab = {const_value(k): src_of(v) for k, v in zip(kf[0].value.keys, kf[0].value.values)}
        ck.verdict(tab == {"exp": "numpy.exp", "log": "numpy.log"}, "C18.c", None, f"_known_functions = {tab}", "'exp' and 'log' denote the NumPy functions", f"the name table is {tab}: 'log'/'exp' do not denote numpy.log/numpy.exp", file=mi.relpath, function="-", line=kf[0].lineno)
    cm = repo.func(SM, "comparable_metric")
    from engine.patheval import PathEval

    mf, yt, yp, ptr, pinv = cm.named_params[:5]
    pe = PathEval(cm.node, {}, post=lambda x: complement_norm(inline_helpers(repo, cm, x)))
    ps = [p for p in split_ifexp(pe.run()) if consistent(p.conds)]
    T, V = f"_known_functions.get({ptr}, {ptr})", f"_known_functions.get({pinv}, {pinv})"
    kw = cm.node.args.kwarg.arg if cm.node.args.kwarg else "kwargs"
    table = {
        (True, False): f"{mf}({yt}, {V}({yp}), **{kw})",
        (False, True): f"{mf}({T}({yt}), {yp}, **{kw})",
        (False, False): f"{mf}({T}({yt}), {V}({yp}), **{kw})",
    }
    seen = {}
    bad = []
    both_none_ok = True
    for p in ps:
        tn, vn = truth_of(p.conds, f"{T} is None"), truth_of(p.conds, f"{V} is None")
        if p.ret == RAISE:
            continue
        if tn is None or vn is None:
            # a path on which a missing transformation has not been told apart
            bad.append((sorted(p.conds), p.ret_text()))
            continue
        if tn and vn:
            both_none_ok = False
            continue
        rt = p.ret_text()
        seen[(tn, vn)] = rt
        if rt != table[(tn, vn)]:
            bad.append(((tn, vn), rt))
    for p in ps:
        if truth_of(p.conds, f"{T} is None") is True and truth_of(p.conds, f"{V} is None") is True and any(isinstance(c, ast.Call) and ast.unparse(c.func) == mf for c in p.calls):
            both_none_ok = False
    undecided = not seen and bad and all(isinstance(b_[0], list) for b_ in bad)
    if undecided:
        ck.unknown("C18.c", cm, "comparable_metric: cases by missing transformation", f"no path tells a missing tr / inv_tr apart by a test `... is None` on the resolved functions (the cases are handled by data, e.g. a table walked by loops): the rule reading the three cases does not apply ({len(bad)} paths)")
    else:
        ck.verdict(not bad and set(seen) == set(table), "C18.c", cm, f"{sorted(seen.items())}", "names resolved through the table; tr is applied to y_true and inv_tr to y_pred in every case, a missing one means identity", f"return values are {sorted(seen.items())} {bad}: a transformation is applied to the wrong argument, skipped, or a name is not resolved into its own variable")
    if not undecided:
        ck.verdict(both_none_ok and any(p.ret == RAISE and truth_of(p.conds, f"{T} is None") is True and truth_of(p.conds, f"{V} is None") is True for p in ps), "C18.c", cm, "tr is None and inv_tr is None -> raise", "the call is refused when both are missing, before anything is computed", "the both-None case is not refused before the metric is computed")
    r2 = repo.func(SM, "r2_score_comparable")
    c = [x for x in own_nodes_incl_lambda(r2.node) if isinstance(x, ast.Call) and src_of(x.func) == "comparable_metric"]
    ok = False
    if len(c) == 1:
        b_ = {k: src_of(v) for k, v in bind(c[0], cm.named_params).items()}
        p0 = cm.named_params
        # (metric, y_true, y_pred, tr, inv_tr): each reaches the parameter of the same role, by position or keyword
        extra_bound = {}
        mexp = bind(c[0], cm.named_params).get(p0[0])
        if mexp is not None:
            # options bound to the metric beforehand (functools.partial) reach it as keyword arguments do
            try:
                from .sem import stmt_of as _so
                mt = ast.parse(expander(repo).text(mexp, r2, _so(c[0])), mode="eval").body
            except SyntaxError:
                mt = None
            if isinstance(mt, ast.Call) and src_of(mt.func) in ("functools.partial", "partial") and len(mt.args) == 1 and all(k.arg for k in mt.keywords):
                b_[p0[0]] = src_of(mt.args[0])
                extra_bound = {k.arg: src_of(k.value) for k in mt.keywords}
        ok = b_.get(p0[0]) == "r2_score" and b_.get(p0[1]) == r2.named_params[0] and b_.get(p0[2]) == r2.named_params[1] and b_.get(ptr) == "tr" and b_.get(pinv) == "inv_tr" and {"tr", "inv_tr"} <= set(r2.named_params)
        extra = {k.arg: src_of(k.value) for k in c[0].keywords if k.arg not in p0}
        extra.update(extra_bound)
        ok = ok and extra == {"sample_weight": "sample_weight", "multioutput": "multioutput"}
    ck.verdict(ok, "C18.c", r2, c[0] if c else "comparable_metric(r2_score, y_true, y_pred, ...)", "r2_score_comparable = comparable_metric(r2_score, y_true, y_pred, tr=tr, inv_tr=inv_tr, ...)", "r2_score_comparable does not forward (y_true, y_pred, tr, inv_tr) in order")
    d = {a.arg: src_of(v) for a, v in zip(r2.node.args.kwonlyargs, r2.node.args.kw_defaults)}
    ck.verdict(d.get("tr") == "None" and d.get("inv_tr") == "None", "C18.c", r2, f"defaults tr={d.get('tr')}, inv_tr={d.get('inv_tr')}", "no transformation by default, so the both-None call is refused", "defaults of tr/inv_tr changed")


def run(ck):
    repo = ck.repo
    for k, v in RULES.items():
        ck.rule(k, v)
    check_a(ck, repo)
    check_b(ck, repo)
    check_c(ck, repo)
    ck.require_count("C18.a", 4, "term interval, c, init, updates, loop/returns, nests, scaling")
    ck.require_count("C18.b", 8, "branch isomorphism, min/max, set-up, effects, clone, fit/predict, four column slices")
    ck.require_count("C18.c", 3, "table, resolution, branches, refusal, forwarding, defaults")


_C = "mlinsights/metrics/correlations.py"
_S = "mlinsights/metrics/scoring_metrics.py"
WITNESSES = [
    {"name": "skip-constant-training-column", "file": _C, "rule": "C18.a", "old": "            xi_test = df_test[:, i : i + 1]\n", "new": "            xi_test = df_test[:, i : i + 1]\n            if xi_train.min() == xi_train.max():\n                continue\n"},
    {"name": "skip-cell-when-negative", "file": _C, "rule": "C18.a", "old": "                co = max(c, 0) ** 0.5\n", "new": "                if c <= 0:\n                    continue\n                co = c ** 0.5\n"},
    {"name": "term-not-clipped", "file": _C, "rule": "C18.a", "old": "                co = max(c, 0) ** 0.5\n", "new": "                co = abs(c) ** 0.5\n"},
    {"name": "term-r2-like", "file": _C, "rule": "C18.a", "old": "                c = 1 - numpy.var(v - xj_test.ravel())\n", "new": "                c = 1 + numpy.var(v - xj_test.ravel())\n"},
    {"name": "mean-over-draws-plus-one", "file": _C, "rule": "C18.a", "old": "    return cor / draws\n", "new": "    return cor / (draws - 1)\n"},
    {"name": "frame-accumulates-c", "file": _C, "rule": "C18.a", "old": "                    cor.iloc[i, j] += co\n", "new": "                    cor.iloc[i, j] += c\n"},
    {"name": "frame-max-from-min-cell", "file": _C, "rule": "C18.b", "old": "                            maxi.iloc[i, j] = max(maxi.iloc[i, j], co)\n", "new": "                            maxi.iloc[i, j] = max(mini.iloc[i, j], co)\n"},
    {"name": "array-branch-max-only", "file": _C, "rule": "C18.b", "old": "                            mini[i, j] = min(mini[i, j], co)\n", "new": "                            mini[i, j] = max(mini[i, j], co)\n"},
    {"name": "frame-branch-transposed", "file": _C, "rule": "C18.b", "old": "                    cor.iloc[i, j] += co\n", "new": "                    cor.iloc[j, i] += co\n"},
    {"name": "minmax-init-zero", "file": _C, "rule": "C18.b", "old": "                        if k == 0:\n                            mini[i, j] = co\n", "new": "                        if k == 1:\n                            mini[i, j] = co\n"},
    {"name": "scale-in-place", "file": _C, "rule": "C18.b", "old": "    df = scale(df)\n", "new": "    df = scale(df, copy=False)\n"},
    {"name": "model-not-cloned", "file": _C, "rule": "C18.b", "old": "                mod = clone(model)\n", "new": "                mod = model\n"},
    {"name": "clone-per-row", "file": _C, "rule": "C18.b", "old": "            for j in range(cor.shape[1]):\n                xj_train = df_train[:, j : j + 1]\n                xj_test = df_test[:, j : j + 1]\n                assert (\n                    len(xj_test) > 0 and len(xi_test) > 0\n                ), f\"One column is empty i={i} j={j}.\"\n                mod = clone(model)\n", "new": "            mod = clone(model)\n            for j in range(cor.shape[1]):\n                xj_train = df_train[:, j : j + 1]\n                xj_test = df_test[:, j : j + 1]\n                assert (\n                    len(xj_test) > 0 and len(xi_test) > 0\n                ), f\"One column is empty i={i} j={j}.\"\n"},
    {"name": "test-half-is-train", "file": _C, "rule": "C18.a", "old": "                xj_test = df_test[:, j : j + 1]\n", "new": "                xj_test = df_train[:, j : j + 1]\n"},
    {"name": "log-is-log1p", "file": _S, "rule": "C18.c", "old": '"log": numpy.log}', "new": '"log": numpy.log1p}'},
    {"name": "tr-on-pred", "file": _S, "rule": "C18.c", "old": "        return metric_function(tr(y_true), y_pred, **kwargs)\n", "new": "        return metric_function(y_true, tr(y_pred), **kwargs)\n"},
    {"name": "both-none-allowed", "file": _S, "rule": "C18.c", "old": "    if tr is None and inv_tr is None:\n        raise ValueError", "new": "    if tr is None and inv_tr is None and kwargs:\n        raise ValueError"},
    {"name": "r2-swaps-tr", "file": _S, "rule": "C18.c", "old": "        tr=tr,\n        inv_tr=inv_tr,\n", "new": "        tr=inv_tr,\n        inv_tr=tr,\n"},
]
TWINS = [
    {"name": "term-sqrt", "file": _C, "old": "                co = max(c, 0) ** 0.5\n", "new": "                co = numpy.sqrt(max(c, 0))\n"},
]
MIN_WITNESSES = 12
