"""C18 — correlation and comparable-score metrics (structural part).

  C18.a  range: interval analysis of the cell update (var >= 0 => c <= 1 =>
         max(c, 0) in [0, 1] => co in [0, 1]); the accumulator is zero-
         initialised, receives += co exactly once per draw and is divided by the
         same `draws` that bounds the loop
  C18.b  mini/maxi are initialised with co at the first draw and updated with
         min/max of the same co; the DataFrame branch and the ndarray branch are
         isomorphic after erasing .iloc; the input is never written
  C18.c  _known_functions maps "exp"/"log" to numpy.exp/numpy.log; in every
         return branch tr is applied to y_true and inv_tr to y_pred; the
         both-None case raises before use
"""

from __future__ import annotations

import ast
from engine.util import clone_ast
import copy
import math
from typing import Dict, Optional, Tuple

from engine.src import FunctionInfo, own_nodes, own_nodes_incl_lambda, src_of, AnalysisError
from engine import norm
from engine.util import const_value, kwarg, enclosing_tests
from engine.effects import Effects
from .common import resolve_call

RULES = {
    "C18.a": "interval analysis: every accumulated term lies in [0, 1]; zero-initialised accumulator, one += per draw, division by the loop bound",
    "C18.b": "min/max bookkeeping on the same term; DataFrame and ndarray branches isomorphic modulo .iloc; input not written",
    "C18.c": "name table exp/log -> numpy.exp/numpy.log; tr on y_true, inv_tr on y_pred in all branches; both None refused first",
}

CM = "mlinsights.metrics.correlations"
SM = "mlinsights.metrics.scoring_metrics"
INF = math.inf
Iv = Tuple[float, float]

NONNEG_FUNCS = {"numpy.var", "numpy.std", "numpy.abs", "numpy.square", "abs"}


def interval(e: ast.AST, env: Dict[str, Iv]) -> Optional[Iv]:
    if isinstance(e, ast.Constant) and isinstance(e.value, (int, float)) and not isinstance(e.value, bool):
        return (float(e.value), float(e.value))
    if isinstance(e, ast.Name):
        return env.get(e.id)
    if isinstance(e, ast.Call):
        f = src_of(e.func)
        if f in NONNEG_FUNCS:
            return (0.0, INF)
        if f in ("max", "numpy.maximum") and len(e.args) == 2:
            a, b = interval(e.args[0], env), interval(e.args[1], env)
            if a and b:
                return (max(a[0], b[0]), max(a[1], b[1]))
        if f in ("min", "numpy.minimum") and len(e.args) == 2:
            a, b = interval(e.args[0], env), interval(e.args[1], env)
            if a and b:
                return (min(a[0], b[0]), min(a[1], b[1]))
        if f in ("numpy.sqrt", "math.sqrt") and len(e.args) == 1:
            a = interval(e.args[0], env)
            if a and a[0] >= 0:
                return (math.sqrt(a[0]), math.sqrt(a[1]) if a[1] != INF else INF)
        return None
    if isinstance(e, ast.BinOp):
        a, b = interval(e.left, env), interval(e.right, env)
        if a is None or b is None:
            return None
        if isinstance(e.op, ast.Sub):
            return (a[0] - b[1], a[1] - b[0])
        if isinstance(e.op, ast.Add):
            return (a[0] + b[0], a[1] + b[1])
        if isinstance(e.op, ast.Pow) and b[0] == b[1] and a[0] >= 0:
            p = b[0]
            if p > 0:
                return (a[0] ** p, a[1] ** p if a[1] != INF else INF)
        if isinstance(e.op, ast.Mult) and a[0] >= 0 and b[0] >= 0:
            return (a[0] * b[0], (a[1] * b[1]) if INF not in (a[1], b[1]) else INF)
    if isinstance(e, ast.UnaryOp) and isinstance(e.op, ast.USub):
        a = interval(e.operand, env)
        if a:
            return (-a[1], -a[0])
    return None


def check_a(ck, repo):
    fi = repo.func(CM, "non_linear_correlations")
    env: Dict[str, Iv] = {}
    stmts = sorted((s for s in own_nodes(fi.node) if isinstance(s, ast.Assign) and len(s.targets) == 1 and isinstance(s.targets[0], ast.Name)), key=lambda s: s.lineno)
    term = None
    for s in stmts:
        if s.targets[0].id in ("c", "co"):
            iv = interval(s.value, env)
            if iv is not None:
                env[s.targets[0].id] = iv
            if s.targets[0].id == "co":
                term = (s, iv)
    if term is None or term[1] is None:
        ck.unknown("C18.a", fi, "co = max(c, 0) ** 0.5", "cannot bound the accumulated term")
    else:
        s, iv = term
        ck.verdict(iv[0] >= 0.0 and iv[1] <= 1.0, "C18.a", fi, s, f"accumulated term co lies in [{iv[0]}, {iv[1]}] (var >= 0)", f"the accumulated term lies in [{iv[0]}, {iv[1]}], not within [0, 1]: entries of the matrix can leave [0, 1]")
    cdef = [s for s in stmts if s.targets[0].id == "c"]
    ck.verdict(len(cdef) == 1 and src_of(cdef[0].value) == "1 - numpy.var(v - xj_test.ravel())", "C18.a", fi, cdef[0] if cdef else "c = 1 - var(residual)", "c = 1 - variance of the residual on the test half", "c is not 1 - var(prediction - target) on the test half")
    # accumulator: zero-init in both branches, += co once in each, divide by draws
    inits = [src_of(s) for s in own_nodes(fi.node) if isinstance(s, ast.Assign) and src_of(s.targets[0]) in ("cor.iloc[:, :]", "cor[:, :]")]
    ck.verdict(sorted(inits) == sorted(["cor.iloc[:, :] = 0.0", "cor[:, :] = 0.0"]), "C18.a", fi, f"{inits}", "accumulator zero-initialised (frame and array)", "the accumulator does not start from zero in both branches")
    adds = [s for s in own_nodes(fi.node) if isinstance(s, ast.AugAssign) and src_of(s.target) in ("cor.iloc[i, j]", "cor[i, j]")]
    ok = len(adds) == 2 and all(isinstance(s.op, ast.Add) and src_of(s.value) == "co" for s in adds)
    ck.verdict(ok, "C18.a", fi, f"{[src_of(s) for s in adds]}", "cell (i, j) receives += co once per draw in each branch", "the cell update is not `+= co` exactly once per branch")
    loops = [l for l in own_nodes(fi.node) if isinstance(l, ast.For) and src_of(l.target) == "k"]
    rets = sorted(src_of(r.value) for r in own_nodes(fi.node) if isinstance(r, ast.Return))
    ck.verdict(len(loops) == 1 and src_of(loops[0].iter) in ("range(0, draws)", "range(draws)") and rets == sorted(["(cor / draws, mini, maxi)", "cor / draws"]), "C18.a", fi, f"loop {src_of(loops[0].iter) if loops else None}; returns {rets}", "sum of `draws` terms divided by `draws`: the mean stays in [0, 1] and between min and max", "the accumulator is not divided by the number of draws that were added")
    for s in adds:
        inner = [p for p in _parents(s) if isinstance(p, ast.For)]
        ck.verdict([src_of(p.target) for p in inner] == ["j", "i", "k"], "C18.a", fi, s, "update sits in the (draw, i, j) loop nest", "the cell update is not executed once per (draw, i, j)")
    # same split for every coefficient; scaled data
    st = [src_of(s) for s in own_nodes(fi.node) if isinstance(s, ast.Assign)]
    ck.verdict("df = scale(df)" in st and "df_train, df_test = train_test_split(df, test_size=0.5)" in st, "C18.a", fi, "df = scale(df); train/test split per draw", "unit-variance columns (so 1 - var(residual) <= 1 is a share of variance)", "data are not standardised / split as assumed by the [0, 1] argument")


def _parents(n):
    p = getattr(n, "_parent", None)
    while p is not None:
        yield p
        p = getattr(p, "_parent", None)


class _EraseIloc(ast.NodeTransformer):
    def visit_Attribute(self, node):
        self.generic_visit(node)
        if node.attr == "iloc":
            return node.value
        return node


def check_b(ck, repo):
    fi = repo.func(CM, "non_linear_correlations")
    br = [s for s in own_nodes(fi.node) if isinstance(s, ast.If) and src_of(s.test) == "iloc"]
    if len(br) != 1:
        ck.unknown("C18.b", fi, "if iloc:", "frame/array branch not found")
    else:
        a = ast.Module(body=clone_ast(br[0].body), type_ignores=[])
        b = ast.Module(body=clone_ast(br[0].orelse), type_ignores=[])
        a = _EraseIloc().visit(a)
        ck.verdict(norm.dump(a, rename=False) == norm.dump(b, rename=False), "C18.b", fi, "if iloc: ... else: ...", "DataFrame and ndarray updates are the same code modulo .iloc", "the DataFrame branch and the ndarray branch of the cell update differ: a frame and its array give different matrices under the same seed")
        # min/max bookkeeping in the array branch (the frame branch is isomorphic)
        t = [src_of(s) for s in ast.walk(b) if isinstance(s, ast.Assign)]
        ok = t == ["mini[i, j] = co", "maxi[i, j] = co", "mini[i, j] = min(mini[i, j], co)", "maxi[i, j] = max(maxi[i, j], co)"]
        ck.verdict(ok, "C18.b", fi, " ; ".join(t), "min and max start at the first draw's co and are updated with min/max of co", f"min/max bookkeeping is {t}: min <= mean <= max can fail")
        first = [s for s in ast.walk(b) if isinstance(s, ast.If) and src_of(s.test) == "k == 0"]
        ck.verdict(len(first) == 1, "C18.b", fi, "if k == 0", "initialisation happens at the first draw", "min/max are not initialised at the first draw")
    # set-up branches isomorphic too
    setup = [s for s in own_nodes(fi.node) if isinstance(s, ast.If) and src_of(s.test) == "hasattr(df, 'iloc')"]
    if len(setup) == 1:
        a = [src_of(s) for s in setup[0].body if isinstance(s, ast.Assign)]
        b = [src_of(s) for s in setup[0].orelse if isinstance(s, ast.Assign)]
        ck.verdict(a == ["cor = df.corr()", "cor.iloc[:, :] = 0.0", "iloc = True"] and b == ["cor = numpy.corrcoef(df, rowvar=False)", "cor[:, :] = 0.0", "iloc = False"], "C18.b", fi, f"{a} / {b}", "square matrix with one row/column per variable (labels kept for frames)", "the result container is not a square per-variable matrix in both branches")
        mm_a = [src_of(s) for s in ast.walk(ast.Module(body=setup[0].body, type_ignores=[])) if isinstance(s, ast.Assign) and src_of(s.targets[0]) in ("mini", "maxi")]
        mm_b = [src_of(s) for s in ast.walk(ast.Module(body=setup[0].orelse, type_ignores=[])) if isinstance(s, ast.Assign) and src_of(s.targets[0]) in ("mini", "maxi")]
        ck.verdict(mm_a == mm_b == ["mini = cor.copy()", "maxi = cor.copy()"], "C18.b", fi, f"{mm_a}", "min and max matrices are separate copies", "mini/maxi are not separate copies of the result container")
    # input never written
    eff = Effects(repo, resolve_call)
    eff.solve()
    sites, _ = eff.writes_in(fi)
    w = [x for x in sites if "df" in x.roots]
    ck.verdict(not w, "C18.b", fi, w[0].node if w else "non_linear_correlations(df)", "no in-place write reaches the caller's table", f"the caller's table may be written in place ({w[0].how if w else ''})")
    sc = [c for c in own_nodes_incl_lambda(fi.node) if isinstance(c, ast.Call) and src_of(c.func) == "scale"]
    ck.verdict(len(sc) == 1 and (kwarg(sc[0], "copy") is None or src_of(kwarg(sc[0], "copy")) == "True"), "C18.b", fi, sc[0] if sc else "scale(df)", "scale copies by default", "scale is asked to work in place on the caller's data")
    # the model is cloned for every cell
    cl = [s for s in own_nodes(fi.node) if isinstance(s, ast.Assign) and src_of(s.targets[0]) == "mod"]
    ck.verdict(len(cl) == 1 and src_of(cl[0].value) == "clone(model)", "C18.b", fi, cl[0] if cl else "mod = clone(model)", "a fresh clone per cell: the caller's model is untouched", "the caller's model is fitted in place")
    if cl:
        loops_cl = [src_of(p_.target) for p_ in _parents(cl[0]) if isinstance(p_, ast.For)]
        ck.verdict(loops_cl[:1] == ["j"], "C18.b", fi, f"clone inside loops {loops_cl}", "one fresh clone per cell (i, j)", f"the model is cloned once per {loops_cl[:1] or 'call'}, not once per cell: a model that keeps state between fits (warm_start) carries the fit for another target into this cell")
    fit = [c for c in own_nodes_incl_lambda(fi.node) if isinstance(c, ast.Call) and src_of(c.func) == "mod.fit"]
    pr = [s for s in own_nodes(fi.node) if isinstance(s, ast.Assign) and src_of(s.targets[0]) == "v"]
    ck.verdict(len(fit) == 1 and [src_of(a) for a in fit[0].args] == ["xi_train", "xj_train.ravel()"] and len(pr) == 1 and src_of(pr[0].value) == "mod.predict(xi_test)", "C18.b", fi, "mod.fit(xi_train, xj_train); v = mod.predict(xi_test)", "column j is predicted from column i: trained on the train half, scored on the test half", "the model is not trained on (x_i train, x_j train) and evaluated on x_i test")
    for nm, want in (("xi_train", "df_train[:, i:i + 1]"), ("xi_test", "df_test[:, i:i + 1]"), ("xj_train", "df_train[:, j:j + 1]"), ("xj_test", "df_test[:, j:j + 1]")):
        d = [s for s in own_nodes(fi.node) if isinstance(s, ast.Assign) and src_of(s.targets[0]) == nm]
        ck.verdict(len(d) == 1 and src_of(d[0].value) == want, "C18.b", fi, d[0] if d else f"{nm} = {want}", f"{nm} is column {nm[1]} of the {nm.split('_')[1]} half", f"{nm} is not {want}")


def check_c(ck, repo):
    mi = repo.modules.get(SM)
    if mi is None:
        raise AnalysisError("anchor vanished: mlinsights.metrics.scoring_metrics")
    kf = [s for s in mi.tree.body if isinstance(s, ast.Assign) and src_of(s.targets[0]) == "_known_functions"]
    if len(kf) != 1 or not isinstance(kf[0].value, ast.Dict):
        ck.unknown("C18.c", None, "_known_functions = {...}", "table not found", file=mi.relpath, function="-", line=0)
    else:
        tab = {const_value(k): src_of(v) for k, v in zip(kf[0].value.keys, kf[0].value.values)}
        ck.verdict(tab == {"exp": "numpy.exp", "log": "numpy.log"}, "C18.c", None, f"_known_functions = {tab}", "'exp' and 'log' denote the NumPy functions", f"the name table is {tab}: 'log'/'exp' do not denote numpy.log/numpy.exp", file=mi.relpath, function="-", line=kf[0].lineno)
    cm = repo.func(SM, "comparable_metric")
    st = [src_of(s) for s in own_nodes(cm.node) if isinstance(s, ast.Assign)]
    ck.verdict("tr = _known_functions.get(tr, tr)" in st and "inv_tr = _known_functions.get(inv_tr, inv_tr)" in st, "C18.c", cm, "tr = _known_functions.get(tr, tr); inv_tr = ...get(inv_tr, inv_tr)", "each name is resolved into its own variable", "names are not resolved as tr -> tr and inv_tr -> inv_tr")
    rets = [r for r in sorted((x for x in own_nodes(cm.node) if isinstance(x, ast.Return)), key=lambda x: x.lineno)]
    got = [(([src_of(t) + ("" if pol else " [else]") for t, pol in enclosing_tests(r, cm.node)] or ["<always>"])[0], src_of(r.value)) for r in rets]
    want = [("tr is None", "metric_function(y_true, inv_tr(y_pred), **kwargs)"), ("inv_tr is None", "metric_function(tr(y_true), y_pred, **kwargs)"), ("<always>", "metric_function(tr(y_true), inv_tr(y_pred), **kwargs)")]
    ck.verdict(got == want, "C18.c", cm, f"{got}", "tr is applied to y_true and inv_tr to y_pred in every branch", f"return branches are {got}: a transformation is applied to the wrong argument or skipped")
    raises = [s for s in own_nodes(cm.node) if isinstance(s, ast.If) and src_of(s.test) == "tr is None and inv_tr is None" and isinstance(s.body[0], ast.Raise)]
    ck.verdict(len(raises) == 1 and all(raises[0].lineno < r.lineno for r in rets), "C18.c", cm, "if tr is None and inv_tr is None: raise", "the call is refused when both are missing, before anything is computed", "the both-None case is not refused before the metric is computed")
    r2 = repo.func(SM, "r2_score_comparable")
    c = [x for x in own_nodes_incl_lambda(r2.node) if isinstance(x, ast.Call) and src_of(x.func) == "comparable_metric"]
    ok = len(c) == 1 and [src_of(a) for a in c[0].args] == ["r2_score", "y_true", "y_pred"] and {k.arg: src_of(k.value) for k in c[0].keywords} == {"sample_weight": "sample_weight", "multioutput": "multioutput", "tr": "tr", "inv_tr": "inv_tr"}
    ck.verdict(ok, "C18.c", r2, c[0] if c else "comparable_metric(r2_score, y_true, y_pred, ...)", "r2_score_comparable = comparable_metric(r2_score, y_true, y_pred, tr=tr, inv_tr=inv_tr, ...)", "r2_score_comparable does not forward (y_true, y_pred, tr, inv_tr) in order")
    d = {a.arg: src_of(v) for a, v in zip(r2.node.args.kwonlyargs, r2.node.args.kw_defaults)}
    ck.verdict(d.get("tr") == "None" and d.get("inv_tr") == "None", "C18.c", r2, f"defaults tr={d.get('tr')}, inv_tr={d.get('inv_tr')}", "no transformation by default, so the both-None call is refused", "defaults of tr/inv_tr changed")


def run(ck):
    repo = ck.repo
    for k, v in RULES.items():
        ck.rule(k, v)
    check_a(ck, repo)
    check_b(ck, repo)
    check_c(ck, repo)
    ck.require_count("C18.a", 4, "term interval, c, init, updates, loop/returns, nests, scaling")
    ck.require_count("C18.b", 8, "branch isomorphism, min/max, set-up, effects, clone, fit/predict, four column slices")
    ck.require_count("C18.c", 3, "table, resolution, branches, refusal, forwarding, defaults")


_C = "mlinsights/metrics/correlations.py"
_S = "mlinsights/metrics/scoring_metrics.py"
WITNESSES = [
    {"name": "term-not-clipped", "file": _C, "rule": "C18.a", "old": "                co = max(c, 0) ** 0.5\n", "new": "                co = abs(c) ** 0.5\n"},
    {"name": "term-r2-like", "file": _C, "rule": "C18.a", "old": "                c = 1 - numpy.var(v - xj_test.ravel())\n", "new": "                c = 1 + numpy.var(v - xj_test.ravel())\n"},
    {"name": "mean-over-draws-plus-one", "file": _C, "rule": "C18.a", "old": "    return cor / draws\n", "new": "    return cor / (draws - 1)\n"},
    {"name": "frame-accumulates-c", "file": _C, "rule": "C18.a", "old": "                    cor.iloc[i, j] += co\n", "new": "                    cor.iloc[i, j] += c\n"},
    {"name": "array-branch-max-only", "file": _C, "rule": "C18.b", "old": "                            mini[i, j] = min(mini[i, j], co)\n", "new": "                            mini[i, j] = max(mini[i, j], co)\n"},
    {"name": "frame-branch-transposed", "file": _C, "rule": "C18.b", "old": "                    cor.iloc[i, j] += co\n", "new": "                    cor.iloc[j, i] += co\n"},
    {"name": "minmax-init-zero", "file": _C, "rule": "C18.b", "old": "                        if k == 0:\n                            mini[i, j] = co\n", "new": "                        if k == 1:\n                            mini[i, j] = co\n"},
    {"name": "scale-in-place", "file": _C, "rule": "C18.b", "old": "    df = scale(df)\n", "new": "    df = scale(df, copy=False)\n"},
    {"name": "model-not-cloned", "file": _C, "rule": "C18.b", "old": "                mod = clone(model)\n", "new": "                mod = model\n"},
    {"name": "clone-per-row", "file": _C, "rule": "C18.b", "old": "            for j in range(cor.shape[1]):\n", "new": "            mod = clone(model)\n            for j in range(cor.shape[1]):\n"},
    {"name": "test-half-is-train", "file": _C, "rule": "C18.b", "old": "                xj_test = df_test[:, j : j + 1]\n", "new": "                xj_test = df_train[:, j : j + 1]\n"},
    {"name": "log-is-log1p", "file": _S, "rule": "C18.c", "old": '"log": numpy.log}', "new": '"log": numpy.log1p}'},
    {"name": "tr-on-pred", "file": _S, "rule": "C18.c", "old": "        return metric_function(tr(y_true), y_pred, **kwargs)\n", "new": "        return metric_function(y_true, tr(y_pred), **kwargs)\n"},
    {"name": "both-none-allowed", "file": _S, "rule": "C18.c", "old": "    if tr is None and inv_tr is None:\n        raise ValueError", "new": "    if tr is None and inv_tr is None and kwargs:\n        raise ValueError"},
    {"name": "r2-swaps-tr", "file": _S, "rule": "C18.c", "old": "        tr=tr,\n        inv_tr=inv_tr,\n", "new": "        tr=inv_tr,\n        inv_tr=tr,\n"},
]
TWINS = [
    {"name": "term-sqrt", "file": _C, "old": "                co = max(c, 0) ** 0.5\n", "new": "                co = numpy.sqrt(max(c, 0))\n"},
]
MIN_WITNESSES = 12
