"""C05 — QuantileLinearRegression fits and scores the same pinball loss.

  C05.a  orientation: abstract interpretation of `_epsilon` and of its
         consumers over the domain {over-prediction, under-prediction} ->
         linear polynomials in q.  The property's loss needs weight (1-q) on
         over-predictions and q on under-predictions, in fit (IRLS weights and
         error) and in score (times 2, divided by n).
  C05.b  fit_intercept=False => intercept_ is the literal 0 and no ones column;
         the inner LinearRegression gets fit_intercept=False, positive=self.positive
"""

from __future__ import annotations

import ast
from fractions import Fraction
from typing import Dict, Optional, Tuple

from engine.src import FunctionInfo, own_nodes, own_nodes_incl_lambda, src_of, AnalysisError
from engine.util import is_self_attr, kwarg, const_value, enclosing_tests, assign_targets
from engine.dataflow import ReachingDefs

RULES = {
    "C05.a": "loss orientation: _epsilon's multiplier and every consumer's transform give weight (1-q) to over-predictions and q to under-predictions (abstract domain: sign -> linear polynomial in q)",
    "C05.c": "IRLS bookkeeping as monomial degrees: weight = sample_weight^1 * |residual|^-1, monitored error = sample_weight^1 * |residual|^1; clipping threshold depends on delta only",
    "C05.b": "fit_intercept=False: zero intercept, no ones column; inner LinearRegression(fit_intercept=False, positive=self.positive)",
}

MOD = "mlinsights.mlmodel.quantile_regression"
CLS = "QuantileLinearRegression"

Poly = Tuple[Fraction, Fraction]  # c0 + c1*q


class Unsupported(Exception):
    pass


def p_const(c) -> Poly:
    return (Fraction(c), Fraction(0))


Q: Poly = (Fraction(0), Fraction(1))


def p_sub(a: Poly, b: Poly) -> Poly:
    return (a[0] - b[0], a[1] - b[1])


def p_add(a: Poly, b: Poly) -> Poly:
    return (a[0] + b[0], a[1] + b[1])


def p_mul(a: Poly, b: Poly) -> Poly:
    if a[1] != 0 and b[1] != 0:
        raise Unsupported("quadratic in q")
    return (a[0] * b[0], a[0] * b[1] + a[1] * b[0])


def p_fmt(a: Poly) -> str:
    c0, c1 = a
    if c1 == 0:
        return str(c0)
    s = f"{c1}*q" if c1 != 1 else "q"
    if c0 != 0:
        s = f"{c0}{'+' if c1 > 0 else ''}{s}" if c1 != 1 else f"{c0}+q"
    return s


Orient = Dict[str, Poly]  # {'over': poly, 'under': poly}


def o_fmt(o: Orient) -> str:
    return f"(over: {p_fmt(o['over'])}, under: {p_fmt(o['under'])})"


def _scalar(e: ast.AST, qnames) -> Poly:
    """scalar expression in the quantile"""
    if isinstance(e, ast.Constant) and isinstance(e.value, (int, float)) and not isinstance(e.value, bool):
        return p_const(Fraction(str(e.value)))
    if isinstance(e, ast.Name) and e.id in qnames:
        return Q
    if is_self_attr(e, "quantile"):
        return Q
    if isinstance(e, ast.BinOp):
        a, b = _scalar(e.left, qnames), _scalar(e.right, qnames)
        if isinstance(e.op, ast.Sub):
            return p_sub(a, b)
        if isinstance(e.op, ast.Add):
            return p_add(a, b)
        if isinstance(e.op, ast.Mult):
            return p_mul(a, b)
    if isinstance(e, ast.UnaryOp) and isinstance(e.op, ast.USub):
        a = _scalar(e.operand, qnames)
        return (-a[0], -a[1])
    raise Unsupported(f"scalar {src_of(e)}")


def interpret_epsilon(fn: ast.FunctionDef) -> Tuple[Orient, str]:
    """orientation of the second value returned by _epsilon; 'over' means
    y_pred > y_true."""
    params = [a.arg for a in fn.args.args]
    if "y_true" not in params or "y_pred" not in params or "quantile" not in params:
        raise AnalysisError("_epsilon: parameters y_true/y_pred/quantile not found")
    diff_name = sign_name = mult_name = None
    diff_pos_is_over = None
    orient: Optional[Orient] = None
    stmts = [s for s in ast.walk(fn) if isinstance(s, (ast.Assign, ast.AugAssign))]
    stmts.sort(key=lambda s: (s.lineno, s.col_offset))
    for s in stmts:
        if isinstance(s, ast.Assign) and len(s.targets) == 1 and isinstance(s.targets[0], ast.Name):
            v = s.value
            t = s.targets[0].id
            if isinstance(v, ast.BinOp) and isinstance(v.op, ast.Sub) and isinstance(v.left, ast.Name) and isinstance(v.right, ast.Name) and {v.left.id, v.right.id} == {"y_true", "y_pred"}:
                diff_name = t
                diff_pos_is_over = v.left.id == "y_pred"
            elif isinstance(v, ast.Call) and src_of(v.func).endswith("sign") and v.args and isinstance(v.args[0], ast.Name) and v.args[0].id == diff_name:
                sign_name = t
            elif isinstance(v, ast.Call) and src_of(v.func).endswith("ones"):
                mult_name = t
                orient = {"over": p_const(1), "under": p_const(1)}
        elif isinstance(s, ast.AugAssign) and isinstance(s.target, ast.Subscript) and isinstance(s.target.value, ast.Name) and s.target.value.id == mult_name and orient is not None:
            idx = s.target.slice
            if not (isinstance(idx, ast.Compare) and len(idx.ops) == 1 and isinstance(idx.left, ast.Name) and idx.left.id in (sign_name, diff_name) and isinstance(idx.comparators[0], ast.Constant) and idx.comparators[0].value == 0):
                raise Unsupported(f"mask {src_of(idx)}")
            pos = isinstance(idx.ops[0], (ast.Gt, ast.GtE))
            neg = isinstance(idx.ops[0], (ast.Lt, ast.LtE))
            if not (pos or neg):
                raise Unsupported(f"mask {src_of(idx)}")
            side = "over" if (pos == diff_pos_is_over) else "under"
            f = _scalar(s.value, {"quantile"})
            if isinstance(s.op, ast.Mult):
                orient[side] = p_mul(orient[side], f)
            else:
                raise Unsupported("mult update is not a multiplication")
        elif isinstance(s, ast.Assign) and len(s.targets) == 1 and isinstance(s.targets[0], ast.Subscript) and isinstance(s.targets[0].value, ast.Name) and s.targets[0].value.id == mult_name and orient is not None:
            idx = s.targets[0].slice
            if isinstance(idx, ast.Compare) and len(idx.ops) == 1 and isinstance(idx.left, ast.Name) and idx.left.id in (sign_name, diff_name):
                pos = isinstance(idx.ops[0], (ast.Gt, ast.GtE))
                side = "over" if (pos == diff_pos_is_over) else "under"
                orient[side] = _scalar(s.value, {"quantile"})
    if orient is None or diff_name is None:
        raise Unsupported("could not find diff / mult in _epsilon")
    # which position of the returned tuple is mult
    for r in ast.walk(fn):
        if isinstance(r, ast.Return) and isinstance(r.value, ast.Tuple) and len(r.value.elts) == 2:
            if not (isinstance(r.value.elts[1], ast.Name) and r.value.elts[1].id == mult_name):
                raise Unsupported("_epsilon does not return (epsilon, mult)")
    return orient, mult_name


def eval_orient(e: ast.AST, env: Dict[str, Orient]) -> Orient:
    """array expression over the orientation domain"""
    if isinstance(e, ast.Name) and e.id in env:
        return env[e.id]
    if isinstance(e, ast.BinOp):
        def side(x):
            try:
                return ("o", eval_orient(x, env))
            except Unsupported:
                return ("s", _scalar(x, set()))
        a, b = side(e.left), side(e.right)
        if a[0] == "s" and b[0] == "s":
            raise Unsupported("scalar")
        out = {}
        for k in ("over", "under"):
            x = a[1][k] if a[0] == "o" else a[1]
            y = b[1][k] if b[0] == "o" else b[1]
            if isinstance(e.op, ast.Sub):
                out[k] = p_sub(x, y)
            elif isinstance(e.op, ast.Add):
                out[k] = p_add(x, y)
            elif isinstance(e.op, ast.Mult):
                out[k] = p_mul(x, y)
            else:
                raise Unsupported("operator")
        return out
    raise Unsupported(src_of(e))


REQUIRED = {"over": p_sub(p_const(1), Q), "under": Q}


def _proportional(o: Orient, factor: Fraction) -> bool:
    return o["over"] == p_mul(REQUIRED["over"], p_const(factor)) and o["under"] == p_mul(REQUIRED["under"], p_const(factor))


def check_a(ck, repo):
    ci = repo.cls(MOD, CLS)
    eps = ci.methods.get("_epsilon")
    fit = ci.methods.get("fit")
    score = ci.methods.get("score")
    if eps is None or fit is None or score is None:
        raise AnalysisError("anchor vanished: QuantileLinearRegression._epsilon/fit/score")
    try:
        base, _ = interpret_epsilon(eps.node)
    except Unsupported as u:
        ck.unknown("C05.a", eps, "_epsilon", f"cannot interpret: {u}")
        return
    ck.holds("C05.a", eps, "_epsilon -> mult", f"multiplier orientation {o_fmt(base)} (over = y_pred > y_true)")
    consumers = []
    for fi in [fit, score] + [f for f in repo.all_functions.values() if f.parent is fit]:
        for s in own_nodes(fi.node):
            if isinstance(s, ast.Assign) and isinstance(s.value, ast.Call) and src_of(s.value.func).endswith("_epsilon"):
                consumers.append((fi, s))
    if len(consumers) < 2:
        ck.unknown("C05.a", fit, "consumers of _epsilon", f"expected the IRLS step and score to call _epsilon, found {len(consumers)}")
        return
    for fi, s in consumers:
        call = s.value
        tgt = s.targets[0]
        if not (isinstance(tgt, ast.Tuple) and len(tgt.elts) == 2 and all(isinstance(e, ast.Name) for e in tgt.elts)):
            ck.unknown("C05.a", fi, s, "result of _epsilon is not unpacked as (epsilon, mult)")
            continue
        eps_name, mult_name = tgt.elts[0].id, tgt.elts[1].id
        # argument roles: first = targets, second = predictions
        a0, a1 = (call.args + [None, None])[:2]
        role_ok, why = _roles(repo, fi, a0, a1)
        if not role_ok:
            ck.violated("C05.a", fi, s, f"_epsilon(y_true, y_pred, ...) is called with {why}: over/under-prediction are exchanged")
            continue
        # transforms applied afterwards to names that carry the loss / the weights
        env: Dict[str, Orient] = {mult_name: dict(base)}
        carried: Dict[str, Orient] = {}
        later = [x for x in own_nodes(fi.node) if isinstance(x, ast.AugAssign) and x.lineno > s.lineno and isinstance(x.target, ast.Name)]
        later.sort(key=lambda x: x.lineno)
        ok = True
        for x in later:
            if mult_name not in {n.id for n in ast.walk(x.value) if isinstance(n, ast.Name)}:
                continue
            if not isinstance(x.op, ast.Mult):
                ck.unknown("C05.a", fi, x, "multiplier is not applied by multiplication")
                ok = False
                continue
            try:
                o = eval_orient(x.value, env)
            except Unsupported as u:
                ck.unknown("C05.a", fi, x, f"cannot interpret {u}")
                ok = False
                continue
            prev = carried.get(x.target.id, {"over": p_const(1), "under": p_const(1)})
            try:
                carried[x.target.id] = {k: p_mul(prev[k], o[k]) for k in o}
            except Unsupported as u:
                ck.unknown("C05.a", fi, x, f"cannot interpret {u}")
                ok = False
                continue
            want = Fraction(2) if fi is score else Fraction(1)
            if _proportional(carried[x.target.id], want):
                ck.holds("C05.a", fi, x, f"'{x.target.id}' carries weights {o_fmt(carried[x.target.id])} = {want} x pinball loss of q")
            else:
                ck.violated(
                    "C05.a",
                    fi,
                    x,
                    f"'{x.target.id}' carries weights {o_fmt(carried[x.target.id])}; the pinball loss of quantile q needs {want} x (over: 1-q, under: q)"
                    + (" — this is the loss of the opposite quantile 1-q" if _is_opposite(carried[x.target.id], want) else ""),
                )
        if ok and not carried:
            ck.violated("C05.a", fi, s, "the multiplier returned by _epsilon is never applied: the asymmetric loss degenerates to the absolute error")
        if fi is score:
            _check_score_shape(ck, fi, eps_name)


def _is_opposite(o: Orient, factor: Fraction) -> bool:
    return o["over"] == p_mul(REQUIRED["under"], p_const(factor)) and o["under"] == p_mul(REQUIRED["over"], p_const(factor))


def _roles(repo, fi: FunctionInfo, a0, a1):
    def root(e):
        if isinstance(e, ast.Name):
            return e.id
        return None

    r0 = root(a0)
    # predictions: `X @ beta`, self.predict(X) or a local defined from them
    def is_pred(e, depth=0):
        if e is None:
            return False
        if isinstance(e, ast.BinOp) and isinstance(e.op, ast.MatMult):
            return True
        if isinstance(e, ast.Call) and src_of(e.func) in ("self.predict", "numpy.dot"):
            return True
        if isinstance(e, ast.Name) and depth < 2:
            for s in own_nodes(fi.node):
                if isinstance(s, ast.Assign) and any(isinstance(t, ast.Name) and t.id == e.id for t in s.targets):
                    return is_pred(s.value, depth + 1)
        return False

    def is_target(e):
        nm = root(e)
        if nm is None:
            return False
        if nm in ("y", "Y", "y_true"):
            return True
        return False

    if is_target(a0) and is_pred(a1):
        return True, ""
    if is_pred(a0) and is_target(a1):
        return False, f"predictions first and targets second ({src_of(a0)}, {src_of(a1)})"
    return False, f"arguments whose roles cannot be established ({src_of(a0) if a0 is not None else None}, {src_of(a1) if a1 is not None else None})"


def _check_score_shape(ck, score: FunctionInfo, eps_name: str):
    # return epsilon.sum() / X.shape[0]
    found = False
    for r in own_nodes(score.node):
        if isinstance(r, ast.Return) and isinstance(r.value, ast.BinOp) and isinstance(r.value.op, ast.Div):
            num, den = r.value.left, r.value.right
            if src_of(num) == f"{eps_name}.sum()":
                found = True
                if src_of(den) in ("X.shape[0]", "len(X)", "y.shape[0]", "len(y)"):
                    ck.holds("C05.a", score, r, "score = sum of weighted absolute errors / n (a mean)")
                else:
                    ck.violated("C05.a", score, r, f"score divides by {src_of(den)}, not by the number of samples: it is not the mean loss")
    if not found:
        ck.unknown("C05.a", score, "return epsilon.sum() / n", "mean-of-loss return not found")
    # q == 0.5 falls back to the mean absolute error (= 2 x pinball loss of 0.5)
    for r in own_nodes(score.node):
        if isinstance(r, ast.Return) and isinstance(r.value, ast.Call) and src_of(r.value.func).endswith("mean_absolute_error"):
            a = [src_of(x) for x in r.value.args[:2]]
            pred_names = {t.id for s in own_nodes(score.node) if isinstance(s, ast.Assign) and isinstance(s.value, ast.Call) and src_of(s.value.func) == "self.predict" for t in s.targets if isinstance(t, ast.Name)}
            if len(a) == 2 and a[0] == "y" and a[1] in pred_names:
                sw = kwarg(r.value, "sample_weight")
                ck.verdict(sw is not None and src_of(sw) == "sample_weight", "C05.a", score, r, "q = 0.5: mean absolute error of (y, prediction) with the caller's weights", "q = 0.5 branch ignores sample_weight")
            else:
                ck.violated("C05.a", score, r, f"q = 0.5 branch scores {a}, not (y, self.predict(X))")


def check_b(ck, repo):
    ci = repo.cls(MOD, CLS)
    fit = ci.methods["fit"]
    # inner LinearRegression(...)
    inner = [c for c in own_nodes_incl_lambda(fit.node) if isinstance(c, ast.Call) and src_of(c.func) == "LinearRegression"]
    if len(inner) != 1:
        ck.unknown("C05.b", fit, "LinearRegression(...)", f"expected one inner LinearRegression, found {len(inner)}")
    else:
        c = inner[0]
        fi_kw, pos_kw = kwarg(c, "fit_intercept"), kwarg(c, "positive")
        ck.verdict(fi_kw is not None and const_value(fi_kw) is False, "C05.b", fit, c, "inner solver has fit_intercept=False (the ones column carries the intercept)", "inner LinearRegression does not pass fit_intercept=False: the intercept is fitted twice")
        ck.verdict(pos_kw is not None and is_self_attr(pos_kw, "positive"), "C05.b", fit, f"positive={src_of(pos_kw) if pos_kw is not None else None}", "positive=self.positive forwarded", "positive=True would not constrain the coefficients: the option is not forwarded to the inner solver")
    # ones column only under self.fit_intercept; intercept_ = 0 otherwise
    for s in own_nodes(fit.node):
        if isinstance(s, ast.Assign) and any(isinstance(t, ast.Name) and t.id == "Xm" for t in s.targets):
            tests = enclosing_tests(s, fit.node)
            guarded = [(t, pol) for t, pol in tests if is_self_attr(t, "fit_intercept")]
            has_ones = any(isinstance(c, ast.Call) and src_of(c.func).endswith("ones") for c in ast.walk(s.value))
            if has_ones:
                ck.verdict(bool(guarded) and guarded[0][1], "C05.b", fit, s, "ones column appended only when fit_intercept", "a ones column is appended although fit_intercept may be False")
            else:
                ck.verdict(bool(guarded) and not guarded[0][1] and src_of(s.value) == "X", "C05.b", fit, s, "design matrix is X itself when fit_intercept is False", "without intercept the design matrix is not X itself")
        if isinstance(s, ast.Assign) and any(is_self_attr(t, "intercept_") for t in s.targets):
            tests = enclosing_tests(s, fit.node)
            guarded = [(t, pol) for t, pol in tests if is_self_attr(t, "fit_intercept")]
            if guarded and not guarded[0][1]:
                ck.verdict(isinstance(s.value, ast.Constant) and s.value.value in (0, 0.0), "C05.b", fit, s, "intercept_ is the literal 0 without intercept", f"fit_intercept=False stores intercept_ = {src_of(s.value)}")
            elif guarded and guarded[0][1]:
                ck.verdict(src_of(s.value) == "beta[-1]", "C05.b", fit, s, "intercept_ is the coefficient of the ones column (appended last)", f"with intercept, intercept_ = {src_of(s.value)} is not the coefficient of the appended ones column")
        if isinstance(s, ast.Assign) and any(is_self_attr(t, "coef_") for t in s.targets):
            tests = enclosing_tests(s, fit.node)
            guarded = [(t, pol) for t, pol in tests if is_self_attr(t, "fit_intercept")]
            if guarded and guarded[0][1]:
                ck.verdict(src_of(s.value) == "beta[:-1]", "C05.b", fit, s, "coef_ drops the last (intercept) coefficient", f"coef_ = {src_of(s.value)} does not drop exactly the ones column")
            elif guarded:
                ck.verdict(src_of(s.value) == "beta", "C05.b", fit, s, "coef_ is the full solution without intercept", f"coef_ = {src_of(s.value)}")


def check_c(ck, repo):
    """monomial degrees of sample_weight and |residual| in the IRLS weight and
    in the error that fit accumulates: W ~ sw^1 * eps^-1, error ~ sw^1 * eps^1;
    the clipping threshold depends on the hyper-parameter delta only."""
    ci = repo.cls(MOD, CLS)
    fit = ci.methods["fit"]
    eps_fn = ci.methods["_epsilon"]
    cz = None
    for f in repo.all_functions.values():
        if f.parent is fit and f.name == "compute_z":
            cz = f
    if cz is None:
        ck.unknown("C05.c", fit, "compute_z", "nested IRLS step not found")
        return
    # does _epsilon multiply epsilon by its sample_weight parameter?
    eps_sw = 0
    for s in own_nodes(eps_fn.node):
        if isinstance(s, ast.AugAssign) and isinstance(s.op, ast.Mult) and src_of(s.target) == "epsilon" and src_of(s.value) == "sample_weight":
            eps_sw = 1
    deg: Dict[str, Tuple[int, int]] = {}  # name -> (eps degree, sw degree)
    call = None
    stmts = sorted([s for s in own_nodes(cz.node) if isinstance(s, (ast.Assign, ast.AugAssign))], key=lambda s: s.lineno)
    problems = []
    for s in stmts:
        if isinstance(s, ast.Assign) and isinstance(s.value, ast.Call) and src_of(s.value.func).endswith("_epsilon") and isinstance(s.targets[0], ast.Tuple):
            call = s.value
            passed = len(call.args) >= 4 or kwarg(call, "sample_weight") is not None
            if passed:
                a = call.args[3] if len(call.args) >= 4 else kwarg(call, "sample_weight")
                passed = not (isinstance(a, ast.Constant) and a.value is None)
            deg[src_of(s.targets[0].elts[0])] = (1, eps_sw if passed else 0)
        elif isinstance(s, ast.Assign) and len(s.targets) == 1 and isinstance(s.targets[0], ast.Name) and isinstance(s.value, ast.Call) and src_of(s.value.func) == "numpy.reciprocal":
            inner = s.value.args[0]
            base = None
            if isinstance(inner, ast.Call) and src_of(inner.func) == "numpy.maximum":
                for a in inner.args:
                    if isinstance(a, ast.Name) and a.id in deg:
                        base = deg[a.id]
            if base is None:
                problems.append((s, "weights are not 1 / max(|residual|, delta)"))
            else:
                deg[s.targets[0].id] = (-base[0], -base[1])
        elif isinstance(s, ast.AugAssign) and isinstance(s.target, ast.Name) and s.target.id in deg and isinstance(s.op, ast.Mult):
            v = src_of(s.value)
            if v in ("sample_weight", "W"):
                deg[s.target.id] = (deg[s.target.id][0], deg[s.target.id][1] + 1)
    rets = [r for r in own_nodes(cz.node) if isinstance(r, ast.Return) and isinstance(r.value, ast.Tuple) and len(r.value.elts) == 2]
    if call is None or not rets:
        ck.unknown("C05.c", cz, "compute_z", "cannot follow the IRLS step")
        return
    rw, re_ = [src_of(e) for e in rets[0].value.elts]
    dW, dE = deg.get(rw), deg.get(re_)
    # loop in fit: W, epsilon = compute_z(...); W *= sample_weight; epsilon *= sample_weight
    loop_names = None
    for s in own_nodes(fit.node):
        if isinstance(s, ast.Assign) and isinstance(s.value, ast.Call) and src_of(s.value.func) == "compute_z" and isinstance(s.targets[0], ast.Tuple):
            loop_names = [src_of(e) for e in s.targets[0].elts]
            lstmt = s
    if loop_names is None or dW is None or dE is None:
        ck.unknown("C05.c", fit, "W, epsilon = compute_z(...)", "cannot follow the IRLS loop")
        return
    d = {loop_names[0]: dW, loop_names[1]: dE}
    for s in sorted([x for x in own_nodes(fit.node) if isinstance(x, ast.AugAssign) and x.lineno > lstmt.lineno], key=lambda x: x.lineno):
        if isinstance(s.target, ast.Name) and s.target.id in d and isinstance(s.op, ast.Mult) and src_of(s.value) == "sample_weight":
            guarded = any(src_of(t) == "sample_weight is not None" and pol for t, pol in enclosing_tests(s, fit.node))
            if guarded:
                d[s.target.id] = (d[s.target.id][0], d[s.target.id][1] + 1)
    for p_, msg in problems:
        ck.violated("C05.c", cz, p_, msg)
    wname, ename = loop_names
    ck.verdict(d[wname] == (-1, 1), "C05.c", fit, f"IRLS weight {wname}: |residual|^{d[wname][0]} * sample_weight^{d[wname][1]}", "least-squares weights are sample_weight / |residual| (weighted absolute loss)", f"the weight handed to the inner least squares is |residual|^{d[wname][0]} * sample_weight^{d[wname][1]}; minimising the weighted pinball loss needs sample_weight^1 / |residual|^1 — the caller's weights cancel or count twice after the first iteration")
    ck.verdict(d[ename] == (1, 1), "C05.c", fit, f"error {ename}: |residual|^{d[ename][0]} * sample_weight^{d[ename][1]}", "the monitored error is the weighted absolute loss", f"the error monitored for convergence is |residual|^{d[ename][0]} * sample_weight^{d[ename][1]}, not the weighted loss")
    # the weight used by the inner fit is that W
    fits = [c for c in own_nodes_incl_lambda(fit.node) if isinstance(c, ast.Call) and src_of(c.func) == "clr.fit"]
    ck.verdict(len(fits) == 1 and [src_of(a) for a in fits[0].args] == ["Xm", "y", wname], "C05.c", fit, fits[0] if fits else "clr.fit(Xm, y, W)", "inner least squares is fitted on (Xm, y) with the IRLS weights", "the inner least squares does not receive (Xm, y, IRLS weights)")
    # clipping threshold depends only on delta
    rd = ReachingDefs(cz.node)
    for s in stmts:
        if isinstance(s, ast.Assign) and src_of(s.targets[0]) == "deltas":
            at = rd.node_of(s)
            dep = at is not None and rd.depends_on(s.value, at, {"Y", "beta", "W", "Xm"})
            uses_delta = at is not None and rd.depends_on(s.value, at, {"delta"})
            ck.verdict(uses_delta and not dep, "C05.c", cz, s, "clipping threshold is the hyper-parameter delta (data-independent)", "the clipping threshold of the IRLS weights depends on the data (targets/residuals): for targets far from zero every residual is clipped and the fit becomes a least-squares (expectile) fit")
    dcall = [c for c in own_nodes_incl_lambda(fit.node) if isinstance(c, ast.Call) and src_of(c.func) == "compute_z"]
    for c in dcall:
        dk = kwarg(c, "delta")
        ck.verdict(dk is not None and src_of(dk) == "self.delta", "C05.c", fit, f"delta={src_of(dk) if dk is not None else None}", "delta hyper-parameter forwarded", "self.delta is not forwarded to the IRLS step")


def run(ck):
    repo = ck.repo
    for k, v in RULES.items():
        ck.rule(k, v)
    check_a(ck, repo)
    check_b(ck, repo)
    check_c(ck, repo)
    ck.require_count("C05.c", 3, "weight degree, error degree, inner fit, threshold, delta forwarding")
    ck.require_count("C05.a", 3, "_epsilon, two transforms in compute_z, one in score, score shape")
    ck.require_count("C05.b", 3, "inner solver options, design matrix x2, intercept_ x2, coef_ x2")


_F = "mlinsights/mlmodel/quantile_regression.py"
WITNESSES = [
    {"name": "score-opposite-quantile", "file": _F, "rule": "C05.a", "old": "epsilon *= (1 - mult) * 2", "new": "epsilon *= mult * 2"},
    {"name": "score-not-doubled", "file": _F, "rule": "C05.a", "old": "epsilon *= (1 - mult) * 2", "new": "epsilon *= 1 - mult"},
    {"name": "fit-opposite-quantile", "file": _F, "rule": "C05.a", "old": "                epsilon *= 1 - mult\n                r *= 1 - mult\n", "new": "                epsilon *= mult\n                r *= mult\n"},
    {"name": "fit-weights-only-half", "file": _F, "rule": "C05.a", "old": "                r *= 1 - mult\n", "new": "                r *= mult\n"},
    {"name": "epsilon-sides-swapped", "file": _F, "rule": "C05.a", "old": "            mult[sign > 0] *= quantile\n            mult[sign < 0] *= 1 - quantile\n", "new": "            mult[sign < 0] *= quantile\n            mult[sign > 0] *= 1 - quantile\n"},
    {"name": "epsilon-diff-reversed", "file": _F, "rule": "C05.a", "old": "        diff = y_pred - y_true\n", "new": "        diff = y_true - y_pred\n"},
    {"name": "score-args-swapped", "file": _F, "rule": "C05.a", "old": "                y, pred, self.quantile, sample_weight\n", "new": "                pred, y, self.quantile, sample_weight\n"},
    {"name": "score-wrong-denominator", "file": _F, "rule": "C05.a", "old": "return epsilon.sum() / X.shape[0]", "new": "return epsilon.sum() / X.shape[1]"},
    {"name": "inner-fit-intercept", "file": _F, "rule": "C05.b", "old": "            fit_intercept=False,\n            copy_X=self.copy_X,", "new": "            fit_intercept=self.fit_intercept,\n            copy_X=self.copy_X,"},
    {"name": "positive-not-forwarded", "file": _F, "rule": "C05.b", "old": "            positive=self.positive,\n        )\n\n        W =", "new": "            positive=False,\n        )\n\n        W ="},
    {"name": "intercept-nonzero", "file": _F, "rule": "C05.b", "old": "            self.intercept_ = 0\n", "new": "            self.intercept_ = beta[-1]\n"},
]
WITNESSES += [
    {"name": "weights-cancel", "file": _F, "rule": "C05.c", "old": "                Y, Xm @ beta, self.quantile\n", "new": "                Y, Xm @ beta, self.quantile, W\n"},
    {"name": "weights-never-applied", "file": _F, "rule": "C05.c", "old": "                W *= sample_weight\n                epsilon *= sample_weight\n", "new": "                epsilon *= sample_weight\n"},
    {"name": "delta-scaled-by-targets", "file": _F, "rule": "C05.c", "old": "            deltas = numpy.ones(X.shape[0]) * delta\n", "new": "            deltas = numpy.ones(X.shape[0]) * delta * max(1.0, numpy.abs(Y).max())\n"},
]
TWINS = [
    {"name": "score-factor-order", "file": _F, "old": "epsilon *= (1 - mult) * 2", "new": "epsilon *= 2 * (1 - mult)"},
    {"name": "epsilon-updates-reordered", "file": _F, "old": "            mult[sign > 0] *= quantile\n            mult[sign < 0] *= 1 - quantile\n", "new": "            mult[sign < 0] *= 1 - quantile\n            mult[sign > 0] *= quantile\n"},
    {"name": "epsilon-diff-reversed-consistently", "file": _F, "old": "        diff = y_pred - y_true\n        epsilon = numpy.abs(diff)\n        if quantile != 0.5:\n            sign = numpy.sign(diff)\n            mult = numpy.ones(y_true.shape[0])\n            mult[sign > 0] *= quantile\n            mult[sign < 0] *= 1 - quantile\n", "new": "        diff = y_true - y_pred\n        epsilon = numpy.abs(diff)\n        if quantile != 0.5:\n            sign = numpy.sign(diff)\n            mult = numpy.ones(y_true.shape[0])\n            mult[sign < 0] *= quantile\n            mult[sign > 0] *= 1 - quantile\n"},
]
MIN_WITNESSES = 9
