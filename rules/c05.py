"""C05 — QuantileLinearRegression fits and scores the same pinball loss.

Decided by an abstract interpretation of `fit` and `score` (and of every
repository function they call: `_epsilon`, the IRLS step wherever it lives),
not by matching statements.  Arrays are abstracted to

    value[i] = c(side_i) * |residual_i|^de * sample_weight_i^ds

where side_i is over-prediction (f > y) or under-prediction (f < y), c(side) is a
linear polynomial in the quantile q, and de, ds are integer degrees.  Targets,
predictions, signed residuals, signs, boolean side masks, data-independent
thresholds, sums/means and the inner least-squares solver are further abstract
values.  Branches on `q != 0.5`, on `x is None` and on `mult is not None` are
decided by the analysed configuration (q generic / q = 1/2, weights given /
absent); every other branch is explored on both sides and joined; loops run to
a steady state.  Local names, temporaries, helper extraction or inlining,
argument passing style and branch layout therefore do not matter.

  C05.a  loss orientation and scale
         fit:   the weights handed to the inner least squares are, in steady
                state, k * (over: 1-q, under: q) * sample_weight / |residual|
                (k > 0 constant): an IRLS step for the pinball loss of q;
                the monitored error is k * (1-q | q) * sample_weight * |residual|
         score: returns sum(2 * (1-q | q) * sample_weight * |residual|) / n,
                and the (weighted) mean absolute error of (y, prediction) at q = 0.5
  C05.c  IRLS bookkeeping: degrees of |residual| and sample_weight as above in
         both weight configurations; the clipping threshold of the residuals is
         data-independent (hyper-parameter delta); the inner solver is fitted on
         the targets given to fit
  C05.b  fit_intercept=False => intercept_ is the literal 0 and the design
         matrix is X itself; with intercept, the ones column and the coefficient
         taken as intercept_ agree; the inner LinearRegression gets
         fit_intercept=False and positive=self.positive
"""

from __future__ import annotations

import ast
import re
from dataclasses import dataclass
from fractions import Fraction
from typing import Dict, List, Optional, Tuple

from engine.src import FunctionInfo, own_nodes, own_nodes_incl_lambda, src_of, AnalysisError
from engine.guards import cond_text, atoms
from .common import resolve_call
from .sem import expander, ctext, conds_at, calls, bind, stmt_of, guarded_values, xt

RULES = {
    "C05.e": "fit never re-types y or sample_weight to a type other than float64 (not to the features' dtype, not to an integer type)",
    "C05.a": "loss orientation and scale by abstract interpretation (side -> polynomial in q): IRLS weights and monitored error proportional to (over: 1-q, under: q); score = 2 x mean pinball loss, MAE at q = 0.5",
    "C05.c": "IRLS bookkeeping by abstract interpretation (degrees of |residual| and sample_weight, with and without weights); clipping threshold data-independent; inner solver fitted on the given targets",
    "C05.b": "fit_intercept=False: zero intercept, design matrix X; ones column and intercept coefficient agree; inner LinearRegression(fit_intercept=False, positive=self.positive)",
}

MOD = "mlinsights.mlmodel.quantile_regression"
CLS = "QuantileLinearRegression"

# ---------------------------------------------------------------- polynomials
Poly = Tuple[Fraction, Fraction]  # c0 + c1*q


class Unsupported(Exception):
    pass


def P(c0, c1=0) -> Poly:
    return (Fraction(c0), Fraction(c1))


def p_add(a, b):
    return (a[0] + b[0], a[1] + b[1])


def p_sub(a, b):
    return (a[0] - b[0], a[1] - b[1])


def p_mul(a, b):
    if a[1] != 0 and b[1] != 0:
        raise Unsupported("quadratic in q")
    return (a[0] * b[0], a[0] * b[1] + a[1] * b[0])


def p_div(a, b):
    if b[1] != 0 or b[0] == 0:
        raise Unsupported("division by a polynomial in q")
    return (a[0] / b[0], a[1] / b[0])


def p_fmt(a) -> str:
    c0, c1 = a
    if c1 == 0:
        return str(c0)
    s = "q" if c1 == 1 else ("-q" if c1 == -1 else f"{c1}*q")
    if c0 != 0:
        return f"{c0}{'+' if c1 > 0 else ''}{s}"
    return s


# ------------------------------------------------------------ abstract values
@dataclass(frozen=True)
class Arr:
    over: Poly
    under: Poly
    de: int = 0  # degree of |residual|
    ds: int = 0  # degree of sample_weight
    clip: str = ""  # "", "hyper" (clipped by a data-independent threshold), "data"
    taint: bool = False  # scaled by something data-dependent the domain cannot express
    like: str = ""  # non-empty: allocated with the dtype of a data array (ones_like(y), ...)

    def fmt(self):
        s = f"(over: {p_fmt(self.over)}, under: {p_fmt(self.under)}) * |residual|^{self.de} * sample_weight^{self.ds}"
        if self.taint:
            s += " * <data-dependent factor>"
        return s


@dataclass(frozen=True)
class Diff:
    over_pos: bool  # True: positive where the prediction is above the target


@dataclass(frozen=True)
class Sign:
    over_pos: bool


@dataclass(frozen=True)
class Mask:
    side: str  # 'over' | 'under'


@dataclass(frozen=True)
class Scal:
    p: Poly


@dataclass(frozen=True)
class Hyper:  # data-independent scalar (hyper-parameter, size, literal string ...)
    name: str = ""


@dataclass(frozen=True)
class Thresh:  # array of a data-independent (or, tainted, data-dependent) threshold
    taint: bool = False


@dataclass(frozen=True)
class Role:
    kind: str  # 'X' | 'target' | 'pred'


@dataclass(frozen=True)
class NoneV:
    pass


@dataclass(frozen=True)
class Opaque:
    taint: bool = True
    text: str = ""


@dataclass(frozen=True)
class Tup:
    items: tuple


@dataclass(frozen=True)
class Sum:
    arr: Arr
    div: str = ""  # "" | "n" | "other"


@dataclass(frozen=True)
class Inner:  # the inner least-squares solver
    pass


@dataclass(frozen=True)
class MAE:
    a: object
    b: object
    sw: object


@dataclass(frozen=True)
class Closure:
    qualname: str


@dataclass(frozen=True)
class SelfV:
    pass


ONE = Arr(P(1), P(1))


def is_none(v) -> Optional[bool]:
    if isinstance(v, NoneV):
        return True
    if isinstance(v, (Arr, Diff, Sign, Mask, Scal, Hyper, Thresh, Role, Tup, Sum, Inner, MAE, SelfV)):
        return False
    return None


def join(a, b):
    if a == b:
        return a
    if isinstance(a, Tup) and isinstance(b, Tup) and len(a.items) == len(b.items):
        return Tup(tuple(join(x, y) for x, y in zip(a.items, b.items)))
    return Opaque(True, "join")


class Returned(Exception):
    pass


class Interp:
    """one configuration: q generic or q = 1/2; sample weights given or absent"""

    def __init__(self, repo, half: bool, sw_given: bool):
        self.repo = repo
        self.half = half
        self.sw_given = sw_given
        self.obs: List[Tuple[str, FunctionInfo, ast.AST, tuple, int]] = []  # kind, fi, node, values, loop iteration
        self.problems: List[Tuple[FunctionInfo, ast.AST, str]] = []
        self.iter = 0
        self.depth = 0
        self.visited = set()
        self.steady = 0

    # quantile
    def q(self) -> Scal:
        return Scal(P(Fraction(1, 2))) if self.half else Scal(P(0, 1))

    # ------------------------------------------------------------- functions
    def run_entry(self, fi: FunctionInfo):
        params = fi.named_params
        env: Dict[str, object] = {}
        if params and params[0] == "self":
            env["self"] = SelfV()
            rest = params[1:]
        else:
            rest = params
        roles = [Role("X"), Role("target"), (Arr(P(1), P(1), 0, 1) if self.sw_given else NoneV())]
        for name, v in zip(rest, roles):
            env[name] = v
        return self.run_body(fi, env)

    def run_body(self, fi: FunctionInfo, env):
        self.visited.add(fi.qualname)
        rets: List[object] = []
        self.exec_block(fi.node.body, env, fi, rets)
        if not rets:
            return NoneV()
        out = rets[0]
        for r in rets[1:]:
            out = join(out, r)
        return out

    def call_function(self, callee: FunctionInfo, call: ast.Call, fi: FunctionInfo, env, recv):
        if self.depth > 6:
            return Opaque(True, "depth")
        params = list(callee.named_params)
        is_static = any(isinstance(d, ast.Name) and d.id in ("staticmethod",) for d in callee.node.decorator_list)
        new: Dict[str, object] = {}
        if callee.parent is not None:
            new.update(env)  # closure: free variables of a nested function
        if callee.cls is not None and callee.parent is None and not is_static and params and params[0] in ("self", "cls"):
            new[params[0]] = SelfV()
            # Class.m(self, ...) passes self explicitly
            explicit = isinstance(call.func, ast.Attribute) and not isinstance(recv, SelfV)
            params = params[1:] if not explicit else params
        a_ = callee.node.args
        pos = [x.arg for x in a_.posonlyargs + a_.args]
        for name, d in zip(pos[len(pos) - len(a_.defaults):], a_.defaults):
            new[name] = self.eval(d, {}, callee)
        for x, d in zip(a_.kwonlyargs, a_.kw_defaults):
            if d is not None:
                new[x.arg] = self.eval(d, {}, callee)
        for i, a in enumerate(call.args):
            if isinstance(a, ast.Starred):
                return Opaque(True, "starred")
            if i < len(params):
                new[params[i]] = self.eval(a, env, fi)
        for kw in call.keywords:
            if kw.arg is None:
                return Opaque(True, "**kw")
            new[kw.arg] = self.eval(kw.value, env, fi)
        self.depth += 1
        try:
            return self.run_body(callee, new)
        finally:
            self.depth -= 1

    # ------------------------------------------------------------ statements
    def exec_block(self, body, env, fi, rets) -> bool:
        """returns True when the block always terminates (return/raise)"""
        for s in body:
            if self.exec_stmt(s, env, fi, rets):
                return True
        return False

    def exec_stmt(self, s, env, fi, rets) -> bool:
        if isinstance(s, ast.Expr):
            self.eval(s.value, env, fi)
        elif isinstance(s, ast.Assign):
            v = self.eval(s.value, env, fi)
            for t in s.targets:
                self.assign(t, v, env, fi, s)
        elif isinstance(s, ast.AnnAssign):
            if s.value is not None:
                self.assign(s.target, self.eval(s.value, env, fi), env, fi, s)
        elif isinstance(s, ast.AugAssign):
            self.augassign(s, env, fi)
        elif isinstance(s, ast.Return):
            rets.append(self.eval(s.value, env, fi) if s.value is not None else NoneV())
            return True
        elif isinstance(s, ast.Raise):
            return True
        elif isinstance(s, ast.If):
            t = self.truth(s.test, env, fi)
            if t is True:
                return self.exec_block(s.body, env, fi, rets)
            if t is False:
                return self.exec_block(s.orelse, env, fi, rets)
            e1, e2 = dict(env), dict(env)
            r1, r2 = [], []
            d1 = self.exec_block(s.body, e1, fi, r1)
            d2 = self.exec_block(s.orelse, e2, fi, r2)
            # a branch that only raises contributes nothing; returned values are kept
            rets.extend(r1)
            rets.extend(r2)
            if d1 and d2:
                return True
            if d1:
                env.clear(); env.update(e2)
            elif d2:
                env.clear(); env.update(e1)
            else:
                keys = set(e1) | set(e2)
                merged = {}
                for k in keys:
                    if k in e1 and k in e2:
                        merged[k] = join(e1[k], e2[k])
                    else:
                        merged[k] = Opaque(True, "maybe-unbound")
                env.clear(); env.update(merged)
        elif isinstance(s, (ast.For, ast.While)):
            saved = self.iter
            prev = None
            for it in range(1, 5):
                self.iter = it
                if isinstance(s, ast.For):
                    self.assign(s.target, Hyper("loop"), env, fi, s)
                r_ = []
                self.exec_block(s.body, env, fi, r_)
                rets.extend(r_)
                snap = {k: v for k, v in env.items()}
                if prev is not None and snap == prev:
                    break
                prev = snap
            else:
                self.problems.append((fi, s, "the loop does not reach a steady state in the abstract domain after 4 rounds: the quantities it updates change their dependence on the residuals / weights at every round"))
            self.steady = self.iter
            self.iter = saved
            self.exec_block(s.orelse, env, fi, rets)
        elif isinstance(s, (ast.With,)):
            return self.exec_block(s.body, env, fi, rets)
        elif isinstance(s, ast.Try):
            d = self.exec_block(s.body, env, fi, rets)
            self.exec_block(s.finalbody, env, fi, rets)
            return d
        elif isinstance(s, (ast.FunctionDef, ast.AsyncFunctionDef)):
            f = getattr(s, "_finfo", None)
            if f is not None:
                env[s.name] = Closure(f.qualname)
        # Pass, Assert, Break, Continue, Import, Global ...: no effect in the domain
        return False

    def assign(self, t, v, env, fi, s):
        if isinstance(t, ast.Name):
            env[t.id] = v
        elif isinstance(t, (ast.Tuple, ast.List)):
            if isinstance(v, Tup) and len(v.items) == len(t.elts):
                for e, x in zip(t.elts, v.items):
                    self.assign(e, x, env, fi, s)
            else:
                for e in t.elts:
                    self.assign(e, Opaque(True, "unpack"), env, fi, s)
        elif isinstance(t, ast.Attribute):
            env[src_of(t)] = v
        elif isinstance(t, ast.Subscript) and isinstance(t.value, ast.Name):
            base = env.get(t.value.id)
            m = self.eval(t.slice, env, fi)
            if isinstance(base, Arr) and base.like and isinstance(m, Mask):
                self.problems.append((fi, s, f"the multiplier is allocated with the dtype of `{base.like}` and then receives q / 1-q: with integer targets both are truncated to 0 and the asymmetric loss degenerates"))
            if isinstance(base, Arr) and isinstance(m, Mask):
                x = self.as_factor(v)
                if x is None or not isinstance(x, Scal):
                    env[t.value.id] = Opaque(True, "masked store")
                else:
                    env[t.value.id] = Arr(x.p if m.side == "over" else base.over, x.p if m.side == "under" else base.under, base.de, base.ds, base.clip, base.taint, base.like)
            elif isinstance(base, (Arr,)):
                env[t.value.id] = Opaque(True, "partial store")

    def augassign(self, s: ast.AugAssign, env, fi):
        t = s.target
        v = self.eval(s.value, env, fi)
        if isinstance(t, ast.Name):
            cur = env.get(t.id, Opaque(True, t.id))
            env[t.id] = self.binop(s.op, cur, v, s, fi)
        elif isinstance(t, ast.Subscript) and isinstance(t.value, ast.Name):
            base = env.get(t.value.id)
            m = self.eval(t.slice, env, fi)
            if isinstance(base, Arr) and base.like and isinstance(m, Mask):
                self.problems.append((fi, s, f"the multiplier is allocated with the dtype of `{base.like}` and then scaled by q / 1-q: with integer targets the update is truncated or refused"))
            if isinstance(base, Arr) and isinstance(m, Mask) and isinstance(v, Scal) and isinstance(s.op, (ast.Mult, ast.Div)):
                f = p_mul if isinstance(s.op, ast.Mult) else p_div
                try:
                    if m.side == "over":
                        env[t.value.id] = Arr(f(base.over, v.p), base.under, base.de, base.ds, base.clip, base.taint)
                    else:
                        env[t.value.id] = Arr(base.over, f(base.under, v.p), base.de, base.ds, base.clip, base.taint)
                except Unsupported:
                    env[t.value.id] = Opaque(True, "masked update")
            elif isinstance(base, Arr):
                env[t.value.id] = Opaque(True, f"partial update {src_of(s)}")
        elif isinstance(t, ast.Attribute):
            env[src_of(t)] = Opaque(True, "attr update")

    # ----------------------------------------------------------- expressions
    def truth(self, test, env, fi) -> Optional[bool]:
        if isinstance(test, ast.UnaryOp) and isinstance(test.op, ast.Not):
            t = self.truth(test.operand, env, fi)
            return None if t is None else (not t)
        if isinstance(test, ast.BoolOp):
            vals = [self.truth(v, env, fi) for v in test.values]
            if isinstance(test.op, ast.And):
                if any(v is False for v in vals):
                    return False
                return True if all(v is True for v in vals) else None
            if any(v is True for v in vals):
                return True
            return False if all(v is False for v in vals) else None
        if isinstance(test, ast.Compare) and len(test.ops) == 1:
            l = self.eval(test.left, env, fi)
            r = self.eval(test.comparators[0], env, fi)
            op = test.ops[0]
            if isinstance(op, (ast.Is, ast.IsNot)):
                other = l if isinstance(r, NoneV) else (r if isinstance(l, NoneV) else None)
                if other is not None or (isinstance(l, NoneV) and isinstance(r, NoneV)):
                    n = True if (isinstance(l, NoneV) and isinstance(r, NoneV)) else is_none(other)
                    if n is None:
                        return None
                    return n if isinstance(op, ast.Is) else (not n)
                return None
            if isinstance(op, (ast.Eq, ast.NotEq)) and isinstance(l, Scal) and isinstance(r, Scal):
                # q generic: q == c is false for the generic quantile
                if l.p[1] == 0 and r.p[1] == 0:
                    eq = l.p == r.p
                elif (l.p[1] != 0) != (r.p[1] != 0):
                    eq = False
                else:
                    eq = l.p == r.p
                return eq if isinstance(op, ast.Eq) else (not eq)
            return None
        v = self.eval(test, env, fi)
        if isinstance(v, NoneV):
            return False
        if isinstance(v, Hyper) and v.name in ("True", "False"):
            return v.name == "True"  # a local holding the result of a decided test
        return None

    def as_factor(self, v):
        return v

    def eval(self, e, env, fi):
        if e is None:
            return NoneV()
        if isinstance(e, ast.Constant):
            if e.value is None:
                return NoneV()
            if isinstance(e.value, bool):
                return Hyper(str(e.value))
            if isinstance(e.value, (int, float)):
                return Scal(P(Fraction(str(e.value))))
            return Hyper("const")
        if isinstance(e, ast.Name):
            if e.id in env:
                return env[e.id]
            return Opaque(False, e.id) if e.id in ("numpy", "np", "True", "False") else Opaque(True, e.id)
        if isinstance(e, ast.Attribute):
            key = src_of(e)
            if key in env:
                return env[key]
            base = self.eval(e.value, env, fi)
            if isinstance(base, SelfV):
                if e.attr == "quantile":
                    return self.q()
                return Hyper(e.attr)
            if isinstance(base, Role):
                if e.attr in ("shape", "ndim", "size", "dtype"):
                    return Hyper("shape")
                return base if e.attr in ("values", "T", "A") or base.kind == "X" else Opaque(True, key)
            if isinstance(base, Arr) and e.attr in ("shape", "size", "ndim", "dtype"):
                return Hyper("shape")
            if isinstance(base, Hyper):
                return Hyper(base.name + "." + e.attr)
            if isinstance(base, Inner):
                return Opaque(True, "solution of the inner solver")
            return Opaque(getattr(base, "taint", True), key)
        if isinstance(e, ast.Subscript):
            base = self.eval(e.value, env, fi)
            if isinstance(base, Hyper):
                i = e.slice.value if isinstance(e.slice, ast.Constant) else "?"
                return Hyper(f"{base.name}[{i}]")
            if isinstance(base, Tup):
                i = e.slice.value if isinstance(e.slice, ast.Constant) and isinstance(e.slice.value, int) else None
                if i is not None and -len(base.items) <= i < len(base.items):
                    return base.items[i]
            if isinstance(base, Role) and base.kind == "X":
                return base
            return Opaque(True, src_of(e))
        if isinstance(e, ast.Tuple):
            return Tup(tuple(self.eval(x, env, fi) for x in e.elts))
        if isinstance(e, ast.List):
            vals = [self.eval(x, env, fi) for x in e.elts]
            if any(isinstance(v, Role) and v.kind == "X" for v in vals):
                return Role("X")
            return Opaque(any(getattr(v, "taint", True) for v in vals), "list")
        if isinstance(e, ast.IfExp):
            t = self.truth(e.test, env, fi)
            if t is True:
                return self.eval(e.body, env, fi)
            if t is False:
                return self.eval(e.orelse, env, fi)
            return join(self.eval(e.body, env, fi), self.eval(e.orelse, env, fi))
        if isinstance(e, ast.UnaryOp):
            v = self.eval(e.operand, env, fi)
            if isinstance(e.op, ast.USub):
                return self.binop(ast.Mult(), Scal(P(-1)), v, e, fi)
            if isinstance(e.op, ast.Invert) and isinstance(v, Mask):
                # the complement of a strict side mask also holds exact fits; treated as the other side
                return Mask("under" if v.side == "over" else "over")
            return Opaque(getattr(v, "taint", True), src_of(e))
        if isinstance(e, ast.BinOp):
            return self.binop(e.op, self.eval(e.left, env, fi), self.eval(e.right, env, fi), e, fi)
        if isinstance(e, (ast.Compare, ast.BoolOp)) or (isinstance(e, ast.UnaryOp) and isinstance(e.op, ast.Not)):
            # `weighted = sample_weight is not None`: a test decided by the configuration is a constant
            t_ = self.truth(e, env, fi) if not (isinstance(e, ast.Compare) and not isinstance(e.ops[0], (ast.Is, ast.IsNot))) else None
            if t_ is not None:
                return Hyper(str(t_))
        if isinstance(e, ast.Compare) and len(e.ops) == 1:
            l = self.eval(e.left, env, fi)
            r = self.eval(e.comparators[0], env, fi)
            op = e.ops[0]
            flip = False
            if isinstance(r, (Sign, Diff)) and isinstance(l, Scal):
                l, r, flip = r, l, True
            if isinstance(l, (Sign, Diff)) and isinstance(r, Scal) and r.p == P(0):
                pos = isinstance(op, (ast.Gt, ast.GtE))
                neg = isinstance(op, (ast.Lt, ast.LtE))
                if pos or neg:
                    if flip:
                        pos = not pos
                    return Mask("over" if pos == l.over_pos else "under")
            if isinstance(l, Role) and isinstance(r, Role) and {l.kind, r.kind} == {"pred", "target"}:
                gt = isinstance(op, (ast.Gt, ast.GtE))
                lt = isinstance(op, (ast.Lt, ast.LtE))
                if gt or lt:
                    pred_left = l.kind == "pred"
                    return Mask("over" if (gt == pred_left) else "under")
            t = self.truth(e, env, fi)
            return Hyper(str(t)) if t is not None else Opaque(True, src_of(e))
        if isinstance(e, ast.Call):
            return self.call(e, env, fi)
        if isinstance(e, ast.JoinedStr):
            return Hyper("str")
        if isinstance(e, ast.BoolOp):
            return Opaque(True, src_of(e))
        return Opaque(True, type(e).__name__)

    def binop(self, op, a, b, node, fi):
        # residuals
        if isinstance(op, ast.Sub) and isinstance(a, Role) and isinstance(b, Role):
            if (a.kind, b.kind) == ("pred", "target"):
                return Diff(True)
            if (a.kind, b.kind) == ("target", "pred"):
                return Diff(False)
        if isinstance(op, ast.MatMult):
            if isinstance(a, Role) and a.kind == "X":
                return Role("pred")
            return Opaque(True, "matmul")
        if isinstance(op, ast.Mult) and isinstance(a, Diff) and isinstance(b, Sign) or isinstance(op, ast.Mult) and isinstance(a, Sign) and isinstance(b, Diff):
            return Arr(P(1), P(1), 1, 0) if a.over_pos == b.over_pos else Opaque(True, "-|r|")
        if isinstance(a, Scal) and isinstance(b, Scal):
            try:
                if isinstance(op, ast.Add):
                    return Scal(p_add(a.p, b.p))
                if isinstance(op, ast.Sub):
                    return Scal(p_sub(a.p, b.p))
                if isinstance(op, ast.Mult):
                    return Scal(p_mul(a.p, b.p))
                if isinstance(op, ast.Div):
                    return Scal(p_div(a.p, b.p))
            except Unsupported:
                return Opaque(False, "polynomial")
            return Hyper("arith")
        if isinstance(a, (Hyper, Scal)) and isinstance(b, (Hyper, Scal)):
            return Hyper("arith")
        # thresholds: data-independent array times data-independent scalar
        def plain(x):
            return isinstance(x, Arr) and x.de == 0 and x.ds == 0 and x.over == x.under and x.over[1] == 0 and not x.taint
        if isinstance(op, (ast.Mult, ast.Div, ast.Add)):
            for x, y in ((a, b), (b, a)):
                if plain(x) and isinstance(y, Hyper):
                    return Thresh(False)
                if isinstance(x, Thresh) and isinstance(y, (Hyper, Scal)):
                    return x
                if isinstance(x, Thresh) and isinstance(y, (Opaque, Role, Sum)):
                    return Thresh(True)
                if plain(x) and isinstance(y, (Opaque, Role)) and getattr(y, "taint", True):
                    return Thresh(True)
        # arrays
        if isinstance(a, Arr) or isinstance(b, Arr):
            try:
                return self.arr_op(op, a, b)
            except Unsupported as u:
                return Opaque(True, f"{type(op).__name__}: {u}")
        if isinstance(op, ast.Div) and isinstance(a, Sum):
            if isinstance(b, Hyper) and b.name in ("shape[0]", "len"):
                return Sum(a.arr, "n" if a.div == "" else "other")
            if isinstance(b, Scal) and b.p[1] == 0 and b.p[0] != 0:
                return Sum(Arr(p_div(a.arr.over, b.p), p_div(a.arr.under, b.p), a.arr.de, a.arr.ds, a.arr.clip, a.arr.taint), a.div)
            return Sum(a.arr, "other")
        if isinstance(op, ast.Mult) and (isinstance(a, Sum) and isinstance(b, Scal) or isinstance(b, Sum) and isinstance(a, Scal)):
            s, k = (a, b) if isinstance(a, Sum) else (b, a)
            try:
                return Sum(Arr(p_mul(s.arr.over, k.p), p_mul(s.arr.under, k.p), s.arr.de, s.arr.ds, s.arr.clip, s.arr.taint), s.div)
            except Unsupported:
                return Opaque(True, "sum scale")
        ta = getattr(a, "taint", not isinstance(a, (Hyper, Scal)))
        tb = getattr(b, "taint", not isinstance(b, (Hyper, Scal)))
        return Opaque(bool(ta or tb), "binop")

    def arr_op(self, op, a, b):
        def lift(x):
            if isinstance(x, Arr):
                return x
            if isinstance(x, Scal):
                return Arr(x.p, x.p)
            return None
        A, B = lift(a), lift(b)
        if A is None or B is None:
            other = b if A is not None else a
            arr = A if A is not None else B
            if isinstance(other, (Hyper,)) and isinstance(op, (ast.Mult, ast.Div)):
                # scaling by a data-independent constant: proportionality is kept, exact scale is lost
                return Arr(arr.over, arr.under, arr.de, arr.ds, arr.clip, True)
            if isinstance(other, Thresh) and isinstance(op, ast.Add) and arr.de >= 1:
                return Arr(arr.over, arr.under, arr.de, arr.ds, "data" if other.taint else "hyper", arr.taint)
            raise Unsupported(f"array with {type(other).__name__}")
        clip = A.clip or B.clip
        taint = A.taint or B.taint
        if isinstance(op, ast.Mult):
            return Arr(p_mul(A.over, B.over), p_mul(A.under, B.under), A.de + B.de, A.ds + B.ds, clip, taint)
        if isinstance(op, ast.Div):
            return Arr(p_div(A.over, B.over), p_div(A.under, B.under), A.de - B.de, A.ds - B.ds, clip, taint)
        if isinstance(op, (ast.Add, ast.Sub)):
            if (A.de, A.ds) != (B.de, B.ds):
                raise Unsupported("sum of terms of different degrees")
            f = p_add if isinstance(op, ast.Add) else p_sub
            return Arr(f(A.over, B.over), f(A.under, B.under), A.de, A.ds, clip, taint)
        if isinstance(op, ast.Pow) and isinstance(b, Scal) and b.p[1] == 0 and b.p[0].denominator == 1:
            k = int(b.p[0])
            if k == 1:
                return A
            if k == -1:
                return Arr(p_div(P(1), A.over), p_div(P(1), A.under), -A.de, -A.ds, clip, taint)
        raise Unsupported(type(op).__name__)

    def call(self, e: ast.Call, env, fi):
        f = e.func
        name = src_of(f)
        short = name.split(".")[-1]
        args = [self.eval(a, env, fi) for a in e.args if not isinstance(a, ast.Starred)]
        kws = {k.arg: self.eval(k.value, env, fi) for k in e.keywords if k.arg}
        a0 = args[0] if args else None
        is_np = isinstance(f, ast.Attribute) and isinstance(f.value, ast.Name) and f.value.id in ("numpy", "np")
        if is_np or isinstance(f, ast.Name):
            if short in ("abs", "absolute", "fabs"):
                if isinstance(a0, Diff):
                    return Arr(P(1), P(1), 1, 0)
                if isinstance(a0, Arr):
                    return a0
                return Opaque(True, "abs")
            if short == "sign" and isinstance(a0, Diff):
                return Sign(a0.over_pos)
            if short == "ones":
                return ONE
            if short in ("ones_like", "full_like", "zeros_like", "empty_like"):
                dt = kws.get("dtype")
                floating = dt is not None and src_of(next(k.value for k in e.keywords if k.arg == "dtype")).split(".")[-1] in ("float", "float64", "float32", "double")
                src0 = src_of(e.args[0]) if e.args else "?"
                return Arr(P(1), P(1), 0, 0, "", False, "" if floating else src0)
            if short in ("full", "full_like") and len(args) >= 2 and isinstance(args[1], Scal):
                return Arr(args[1].p, args[1].p)
            if short == "reciprocal" and isinstance(a0, Arr):
                try:
                    return Arr(p_div(P(1), a0.over), p_div(P(1), a0.under), -a0.de, -a0.ds, a0.clip, a0.taint)
                except Unsupported:
                    return Opaque(True, "reciprocal")
            if short in ("maximum", "fmax", "clip", "minimum", "fmin") and len(args) >= 2:
                arrs = [x for x in args if isinstance(x, Arr) and x.de != 0]
                others = [x for x in args if not (isinstance(x, Arr) and x.de != 0) and not isinstance(x, NoneV)]
                if len(arrs) == 1:
                    a = arrs[0]
                    data = any(isinstance(o, Thresh) and o.taint or isinstance(o, (Opaque, Role, Sum, Diff)) and getattr(o, "taint", True) for o in others)
                    return Arr(a.over, a.under, a.de, a.ds, "data" if data else "hyper", a.taint)
            if short == "where" and len(args) == 3 and isinstance(a0, Mask):
                x, y = args[1], args[2]
                def sides(v):
                    if isinstance(v, Scal):
                        return Arr(v.p, v.p)
                    return v if isinstance(v, Arr) else None
                X, Y = sides(x), sides(y)
                if X is not None and Y is not None and (X.de, X.ds) == (Y.de, Y.ds):
                    if a0.side == "over":
                        return Arr(X.over, Y.under, X.de, X.ds, X.clip or Y.clip, X.taint or Y.taint)
                    return Arr(Y.over, X.under, X.de, X.ds, X.clip or Y.clip, X.taint or Y.taint)
            if short in ("sum", "nansum") and isinstance(a0, Arr):
                self.obs.append(("sum", fi, e, (a0,), self.iter))
                return Sum(a0)
            if short in ("mean", "average") and isinstance(a0, Arr):
                return Sum(a0, "n")
            if short in ("dot", "matmul") and isinstance(a0, Role) and a0.kind == "X":
                return Role("pred")
            if short in ("hstack", "column_stack", "concatenate", "asarray", "array", "ascontiguousarray", "c_") and a0 is not None:
                if isinstance(a0, Role):
                    return a0
                return a0 if isinstance(a0, (Arr,)) else Opaque(True, short)
            if short in ("range", "len", "isinstance", "hasattr", "print", "min", "max", "float", "int", "str"):
                if short in ("max", "min", "float") and any(getattr(x, "taint", False) or isinstance(x, (Role, Sum, Arr, Diff)) for x in args):
                    return Opaque(True, short)
                return Hyper(short)
        if short == "mean_absolute_error":
            return MAE(a0, args[1] if len(args) > 1 else kws.get("y_pred"), kws.get("sample_weight", args[2] if len(args) > 2 else NoneV()))
        if short == "LinearRegression" and not (isinstance(f, ast.Attribute) and f.attr != "LinearRegression"):
            self.obs.append(("inner_ctor", fi, e, (), self.iter))
            return Inner()
        if isinstance(f, ast.Attribute):
            recv = self.eval(f.value, env, fi)
            if isinstance(recv, Inner):
                if f.attr == "fit":
                    b = bind(e, ["X", "y", "sample_weight"])
                    vals = tuple(self.eval(b[k], env, fi) if k in b else NoneV() for k in ("X", "y", "sample_weight"))
                    self.obs.append(("inner_fit", fi, e, vals, self.iter))
                    return recv
                return Opaque(True, "inner." + f.attr)
            if isinstance(recv, Arr):
                if f.attr == "sum":
                    self.obs.append(("sum", fi, e, (recv,), self.iter))
                    return Sum(recv)
                if f.attr == "mean":
                    return Sum(recv, "n")
                if f.attr in ("copy", "ravel", "flatten", "astype", "reshape", "squeeze"):
                    return recv
            if isinstance(recv, (Role, Diff, Sign, Mask)) and f.attr in ("copy", "ravel", "flatten", "astype", "reshape", "squeeze"):
                return recv
            if isinstance(recv, SelfV) and f.attr == "predict" and args and isinstance(a0, Role) and a0.kind == "X":
                return Role("pred")
            if isinstance(recv, Hyper):
                return Hyper("call")
            if isinstance(recv, (Opaque, Role, Diff, Sum)) and not isinstance(self.repo, type(None)) and f.attr in ("max", "min", "mean", "std", "sum", "ptp", "var"):
                return Opaque(True, f"{f.attr} of data")
        else:
            recv = None
        # repository functions
        callee = None
        if isinstance(f, ast.Name) and isinstance(env.get(f.id), Closure):
            callee = self.repo.all_functions.get(env[f.id].qualname)
        if callee is None:
            callee = resolve_call(self.repo, fi, e)
        if callee is None and isinstance(f, ast.Name):
            # a local alias of a function of the package: g = Cls.helper; g(..)
            defs_ = [s_ for s_ in own_nodes(fi.node) if isinstance(s_, ast.Assign) and len(s_.targets) == 1 and isinstance(s_.targets[0], ast.Name) and s_.targets[0].id == f.id]
            if len(defs_) == 1 and isinstance(defs_[0].value, (ast.Name, ast.Attribute)):
                fake = ast.Call(func=defs_[0].value, args=e.args, keywords=e.keywords)
                ast.copy_location(fake, e)
                fake._parent = getattr(e, "_parent", None)
                callee = resolve_call(self.repo, fi, fake)
        if callee is not None and callee.name != "__init__":
            return self.call_function(callee, e, fi, env, recv)
        return Opaque(True, name)


# -------------------------------------------------------------- obligations
def _req(half: bool):
    if half:
        return P(Fraction(1, 2)), P(Fraction(1, 2))
    return P(1, -1), P(0, 1)


def _proportional(a: Arr, half: bool) -> Optional[Fraction]:
    """k > 0 with (over, under) == k * (1-q, q); None otherwise"""
    ro, ru = _req(half)
    if half:
        if a.over == a.under and a.over[1] == 0 and a.over[0] > 0:
            return a.over[0] / ro[0]
        return None
    k = a.under[1]
    if k > 0 and a.under == (Fraction(0), k) and a.over == (k, -k):
        return k
    return None


def _opposite(a: Arr) -> bool:
    k = a.over[1]
    return k > 0 and a.over == (Fraction(0), k) and a.under == (k, -k)


def _cfg_name(half, sw):
    return f"q {'= 0.5' if half else 'generic'}, sample_weight {'given' if sw else 'None'}"


def check_fit_score(ck, repo):
    ci = repo.cls(MOD, CLS)
    fit, score = ci.methods.get("fit"), ci.methods.get("score")
    if fit is None or score is None:
        raise AnalysisError("anchor vanished: QuantileLinearRegression.fit/score")
    n_fit = n_sum = 0
    for half in (False, True):
        for sw in (True, False):
            cfg = _cfg_name(half, sw)
            it = Interp(repo, half, sw)
            it.steady = 0
            it.run_entry(fit)
            for qn in sorted(it.visited):
                if qn in repo.all_functions:
                    ck.touch(repo.all_functions[qn])
            for f_, node, msg in it.problems:
                ck.violated("C05.a" if "dtype" in msg else "C05.c", f_, node, f"[{cfg}] {msg}")
            fits = [o for o in it.obs if o[0] == "inner_fit"]
            if not fits:
                ck.unknown("C05.c", fit, "inner LinearRegression.fit(...)", f"[{cfg}] no call of the inner least squares was reached by the abstract interpretation")
                continue
            last = max(o[4] for o in fits)
            for kind, f_, node, vals, iteration in fits:
                Xv, yv, wv = vals
                if iteration == last:
                    ck.verdict(isinstance(yv, Role) and yv.kind == "target", "C05.c", f_, node, f"[{cfg}] the inner solver is fitted on the targets given to fit", f"[{cfg}] the inner least squares is fitted on {yv}, not on the targets y")
                    ck.verdict(isinstance(Xv, Role) and Xv.kind == "X", "C05.c", f_, f"{src_of(node)} design", f"[{cfg}] the inner solver is fitted on the design matrix built from X", f"[{cfg}] the inner least squares is fitted on {Xv}, not on the design matrix built from X")
                if iteration != last or last < 2:
                    continue
                n_fit += 1
                if not isinstance(wv, Arr):
                    ck.violated("C05.a", f_, node, f"[{cfg}] the weights of the inner least squares are {wv}; an IRLS step for the pinball loss needs (over: 1-q, under: q) * sample_weight / |residual|")
                    continue
                k = _proportional(wv, half)
                ck.verdict(k is not None, "C05.a", f_, node, f"[{cfg}] IRLS weights {wv.fmt()}: proportional to (over: 1-q, under: q)", f"[{cfg}] the weights of the inner least squares are {wv.fmt()}; minimising the pinball loss of q needs (over: 1-q, under: q)" + (" — this fits the opposite quantile 1-q" if _opposite(wv) else ""))
                want_ds = 1 if sw else 0
                ck.verdict(wv.de == -1 and wv.ds == want_ds, "C05.c", f_, f"{src_of(node)} degrees", f"[{cfg}] IRLS weights ~ sample_weight^{want_ds} / |residual|", f"[{cfg}] the weights of the inner least squares are {wv.fmt()}; an IRLS step needs sample_weight^{want_ds} * |residual|^-1 — the caller's weights cancel, count twice or the residual enters with the wrong power")
                ck.verdict(wv.clip == "hyper", "C05.c", f_, f"{src_of(node)} clipping", f"[{cfg}] residuals are clipped by a data-independent threshold before the division", f"[{cfg}] the residuals are {'clipped by a threshold that depends on the data: for targets far from zero every residual is clipped and the fit becomes a least-squares (expectile) fit' if wv.clip == 'data' else 'not clipped before the division'}")
            sums = [o for o in it.obs if o[0] == "sum" and o[4] == last and o[1].qualname in it.visited and isinstance(o[3][0], Arr) and o[3][0].de >= 1 and o[1].name != "score"]
            for kind, f_, node, vals, iteration in sums:
                a = vals[0]
                n_sum += 1
                want_ds = 1 if sw else 0
                ck.verdict(_proportional(a, half) is not None and a.de == 1 and a.ds == want_ds, "C05.c", f_, node, f"[{cfg}] monitored error = sum of {a.fmt()}: the weighted pinball loss", f"[{cfg}] the error monitored for convergence sums {a.fmt()}, not (over: 1-q, under: q) * sample_weight^{want_ds} * |residual|")
            # score
            it2 = Interp(repo, half, sw)
            r = it2.run_entry(score)
            for f_, node, msg in it2.problems:
                ck.violated("C05.a", f_, node, f"[{cfg}] {msg}")
            if half:
                ok = isinstance(r, MAE) and r.a == Role("target") and r.b == Role("pred") and (r.sw == Arr(P(1), P(1), 0, 1) if sw else isinstance(r.sw, NoneV))
                # without weights the plain mean of |residual| is the MAE; with weights only the
                # weighted MAE (normalised by the weights) is: sum(w|e|) / n is not
                ok = ok or (not sw and isinstance(r, Sum) and r.div == "n" and r.arr.over == P(1) and r.arr.under == P(1) and r.arr.de == 1 and r.arr.ds == 0)
                ck.verdict(ok, "C05.a", score, f"score [{cfg}]", "q = 0.5: the (weighted) mean absolute error of (y, prediction)", f"[{cfg}] score returns {r}, not the mean absolute error of (y, self.predict(X)) with the caller's weights")
            else:
                if not isinstance(r, Sum):
                    ck.violated("C05.a", score, f"score [{cfg}]", f"[{cfg}] score returns {r}; expected sum(2 * (over: 1-q, under: q) * sample_weight * |residual|) / n")
                    continue
                a = r.arr
                k = _proportional(a, half)
                want_ds = 1 if sw else 0
                ck.verdict(k == 2 and a.de == 1 and a.ds == want_ds and not a.taint, "C05.a", score, f"score [{cfg}] summand", f"summand {a.fmt()} = twice the pinball loss of q", f"[{cfg}] score sums {a.fmt()}; twice the pinball loss of q is (over: 2-2*q, under: 2*q) * sample_weight^{want_ds} * |residual|" + (" — this is the loss of the opposite quantile 1-q" if _opposite(a) else ""))
                ck.verdict(r.div == "n", "C05.a", score, f"score [{cfg}] mean", "the sum is divided by the number of samples", f"[{cfg}] score does not divide the sum by the number of samples: it is not the mean loss")
    if n_fit < 4:
        ck.unknown("C05.a", fit, "steady-state inner fit", f"only {n_fit} of 4 configurations reached a steady-state call of the inner solver")


# -------------------------------------------------------------------- C05.b
def _split(repo, fi, e, at, conds=frozenset()):
    return guarded_values(repo, fi, e, at, conds)


def check_b(ck, repo):
    ci = repo.cls(MOD, CLS)
    fit = ci.methods["fit"]
    ex = expander(repo)
    from .sem import nested_functions

    fns = [fit] + [f for f in ci.methods.values() if f is not fit]
    fns += [g for f in list(fns) for g in nested_functions(repo, f)]
    ctor = [(f, c) for f in fns for c in calls(f, lambda c: src_of(c.func).split(".")[-1] == "LinearRegression" and not src_of(c.func).endswith("__init__"))]
    if len(ctor) != 1:
        ck.unknown("C05.b", fit, "LinearRegression(...)", f"expected one inner LinearRegression, found {len(ctor)}")
    else:
        f, c = ctor[0]
        kw = {k.arg: ex.text(k.value, f, c) for k in c.keywords if k.arg}
        for i, a in enumerate(c.args):
            kw.setdefault(["fit_intercept", "copy_X", "n_jobs", "positive"][i] if i < 4 else f"arg{i}", ex.text(a, f, c))
        ck.verdict(kw.get("fit_intercept") == "False", "C05.b", f, c, "inner solver has fit_intercept=False (the ones column carries the intercept)", "inner LinearRegression does not pass fit_intercept=False: the intercept is fitted twice")
        ck.verdict(kw.get("positive") == "self.positive", "C05.b", f, f"positive={kw.get('positive')}", "positive=self.positive forwarded", "positive=True would not constrain the coefficients: the option is not forwarded to the inner solver")
    # the smoothing constant of the weights is the estimator's own
    from .sem import nested_functions as _nf

    cz = [g for g in _nf(repo, fit) if "delta" in g.named_params]
    for g in cz:
        for c_ in calls(fit, lambda c, g=g: src_of(c.func) == g.name):
            b_ = bind(c_, g.named_params)
            dv = b_.get("delta")
            ck.verdict(dv is not None and ex.text(dv, fit, c_) == "self.delta", "C05.b", fit, c_, "the IRLS weights are 1 / max(delta, |residual|) with the estimator's delta", f"{g.name} is called with delta={src_of(dv) if dv is not None else 'its default'}: a non-default delta is ignored, so for targets in small units every residual is below the threshold and the fit is a least-squares fit, not the quantile")
    T, F = cond_text("self.fit_intercept"), cond_text("self.fit_intercept", False)
    # stored intercept / coefficients
    layout = {}
    for attr in ("intercept_", "coef_"):
        n = 0
        for s in sorted((x for x in own_nodes(fit.node) if isinstance(x, ast.Assign)), key=lambda x: x.lineno):
            for t in s.targets:
                pairs = []
                if src_of(t) == f"self.{attr}":
                    pairs = [s.value]
                elif isinstance(t, (ast.Tuple, ast.List)) and isinstance(s.value, (ast.Tuple, ast.List)) and len(t.elts) == len(s.value.elts):
                    pairs = [v for e, v in zip(t.elts, s.value.elts) if src_of(e) == f"self.{attr}"]
                for v in pairs:
                    base = conds_at(repo, fit, s)
                    for conds, e, at in _split(repo, fit, v, s, base):
                        txt = xt(e)
                        n += 1
                        if F in conds:
                            if attr == "intercept_":
                                ck.verdict(txt in ("0", "0.0"), "C05.b", fit, s, "intercept_ is the literal 0 without intercept", f"fit_intercept=False stores intercept_ = {txt}")
                            else:
                                layout["coef_F"] = txt
                        elif T in conds:
                            layout[attr] = txt
                            layout[attr + "_stmt"] = s
                        else:
                            ck.violated("C05.b", fit, s, f"{attr} = {txt} is stored without regard to fit_intercept")
        if n == 0:
            ck.unknown("C05.b", fit, f"self.{attr} = ...", f"no assignment to self.{attr} found in fit")
    # design matrix of the inner fit
    inner_fits = [c for c in calls(fit, lambda c: isinstance(c.func, ast.Attribute) and c.func.attr == "fit" and not src_of(c.func.value).startswith(("self", "super", "LinearRegression")))]
    designs = {}
    for c in inner_fits:
        b = bind(c, ["X", "y", "sample_weight"])
        if "X" not in b:
            continue
        for conds, e, at in _split(repo, fit, b["X"], c):
            designs[T in conds, F in conds] = (xt(e), c)
    # a local that only ever holds X (or X.values: the same data as an array) stands for X
    Xp_ = fit.named_params[1]
    alias = set()
    for _ in range(3):
        for nm_ in {t_.id for s_ in own_nodes(fit.node) if isinstance(s_, ast.Assign) for t_ in s_.targets if isinstance(t_, ast.Name)} - {Xp_}:
            def _dead(s_):
                # a statement that follows a `raise` in its block is never executed
                par_ = getattr(s_, "_parent", None)
                for f_ in ("body", "orelse", "finalbody"):
                    seq_ = getattr(par_, f_, None)
                    if isinstance(seq_, list) and s_ in seq_:
                        return any(isinstance(x_, ast.Raise) for x_ in seq_[: seq_.index(s_)])
                return False

            vals_ = [src_of(s_.value) for s_ in own_nodes(fit.node) if isinstance(s_, ast.Assign) and any(isinstance(t_, ast.Name) and t_.id == nm_ for t_ in s_.targets) and not _dead(s_)]
            if vals_ and all(v_ in {Xp_, f"{Xp_}.values"} | alias for v_ in vals_):
                alias.add(nm_)
    if alias:
        pat_ = re.compile(r"\b(%s)\b" % "|".join(map(re.escape, sorted(alias))))
        designs = {k_: (pat_.sub(Xp_, v_[0]), v_[1]) for k_, v_ in designs.items()}
    dT, dF = designs.get((True, False)), designs.get((False, True))
    if dT is None or dF is None:
        ck.unknown("C05.b", fit, "design matrix of the inner fit", f"cannot split the design matrix by fit_intercept: {designs}")
        return
    Xp = fit.named_params[1]
    ck.verdict(dF[0] == Xp, "C05.b", fit, f"design without intercept: {dF[0]}", "design matrix is X itself when fit_intercept is False", f"without intercept the design matrix is {dF[0]}, not X itself")
    t = dT[0].replace(" ", "")
    ones = f"numpy.ones(({Xp}.shape[0],1))"
    last = t in (f"numpy.hstack([{Xp},{ones}])", f"numpy.hstack(({Xp},{ones}))", f"numpy.column_stack([{Xp},{ones}])", f"numpy.column_stack(({Xp},{ones}))", f"numpy.concatenate([{Xp},{ones}],axis=1)", f"numpy.c_[{Xp},{ones}]")
    first = t in (f"numpy.hstack([{ones},{Xp}])", f"numpy.hstack(({ones},{Xp}))", f"numpy.column_stack([{ones},{Xp}])", f"numpy.column_stack(({ones},{Xp}))", f"numpy.concatenate([{ones},{Xp}],axis=1)", f"numpy.c_[{ones},{Xp}]")
    ck.verdict(last or first, "C05.b", fit, f"design with intercept: {dT[0][:70]}", "a ones column is appended to X when fit_intercept", f"with intercept the design matrix is {dT[0]}: no recognised ones column next to X")
    ic, cf = layout.get("intercept_"), layout.get("coef_")
    if ic is None or cf is None:
        ck.unknown("C05.b", fit, "intercept_/coef_ under fit_intercept", f"found {layout}")
        return
    def base_of(txt, suffix):
        return txt[: -len(suffix)] if txt.endswith(suffix) else None
    if last:
        B1, B2 = base_of(ic, "[-1]"), base_of(cf, "[:-1]")
    else:
        B1, B2 = base_of(ic, "[0]"), base_of(cf, "[1:]")
    ck.verdict(B1 is not None and B1 == B2, "C05.b", fit, layout.get("intercept__stmt", "self.intercept_ = beta[-1]"), "intercept_ is the coefficient of the ones column and coef_ the others", f"with intercept, intercept_ = {ic} and coef_ = {cf} do not split the solution at the position of the ones column ({'last' if last else 'first'})")
    ck.verdict(layout.get("coef_F") is not None and B1 is not None and layout.get("coef_F") == B1, "C05.b", fit, f"coef_ without intercept: {layout.get('coef_F')}", "coef_ is the full solution without intercept", f"without intercept coef_ = {layout.get('coef_F')} is not the full solution {B1}")


def check_targets_kept(ck, repo):
    """C05.e: the targets and the weights reach the IRLS loop with their own values: where fit
    re-types `y` or `sample_weight` the destination type is float64 (or unspecified), never the
    features' dtype or an integer type (real-valued targets would be truncated for integer X)."""
    fi = repo.cls("mlinsights.mlmodel.quantile_regression", "QuantileLinearRegression").methods["fit"]
    FLOAT64 = ("float", "numpy.float64", "'float64'", "numpy.double", "'float'", "'f8'", "'d'", "None", "FLOAT_DTYPES", "[numpy.float64]", "(numpy.float64,)")
    names = set(fi.named_params[2:4]) | {"y", "sample_weight"}
    n = 0
    for c in own_nodes(fi.node):
        if not isinstance(c, ast.Call):
            continue
        dt = None
        subj = None
        f = src_of(c.func)
        if isinstance(c.func, ast.Attribute) and c.func.attr == "astype" and isinstance(c.func.value, ast.Name) and c.args:
            subj, dt = c.func.value.id, c.args[0]
        elif f.split(".")[-1] in ("asarray", "array", "ascontiguousarray", "asanyarray", "check_array", "column_or_1d", "require") and c.args and isinstance(c.args[0], ast.Name):
            subj = c.args[0].id
            dt = next((k.value for k in c.keywords if k.arg == "dtype"), c.args[1] if len(c.args) > 1 and f.split(".")[-1] in ("asarray", "array", "asanyarray", "ascontiguousarray") else None)
        if subj in names and dt is not None:
            n += 1
            ck.verdict(src_of(dt).replace('"', "'") in FLOAT64, "C05.e", fi, c, f"{subj} is re-typed to float64", f"{subj} is re-typed to {src_of(dt)}: real-valued targets (or weights) are truncated or rounded before the regression whenever that type is narrower than float64 (integer features), so the fitted hyperplane is not the quantile hyperplane of the targets given")
    ck.holds("C05.e", fi, f"{n} casts of the targets / weights in fit", "the targets and weights are not narrowed", nontrivial=False)
    return n


def run(ck):
    repo = ck.repo
    for k, v in RULES.items():
        ck.rule(k, v)
    check_fit_score(ck, repo)
    ck.extra["target_casts"] = check_targets_kept(ck, repo)
    check_b(ck, repo)
    from .sem import share_clauses

    share_clauses(ck, "c02", {
        "C02.c": ("C05.d", "fit never writes into the caller's X, y or sample_weight: the weights used at every IRLS step are the caller's"),
    }, keep=lambda o: o.file.endswith("quantile_regression.py"))
    ck.require_count("C05.a", 8, "IRLS weights in 4 configurations, score in 4 configurations")
    ck.require_count("C05.c", 12, "degrees, clipping, targets, design in 4 configurations; monitored error")
    ck.require_count("C05.b", 5, "inner solver options, design matrix x2, intercept_ x2, coef_ x2")


_F = "mlinsights/mlmodel/quantile_regression.py"
WITNESSES = [
    {"name": "score-opposite-quantile", "file": _F, "rule": "C05.a", "old": "epsilon *= (1 - mult) * 2", "new": "epsilon *= mult * 2"},
    {"name": "score-not-doubled", "file": _F, "rule": "C05.a", "old": "epsilon *= (1 - mult) * 2", "new": "epsilon *= 1 - mult"},
    {"name": "fit-opposite-quantile", "file": _F, "rule": "C05.a", "old": "                epsilon *= 1 - mult\n                r *= 1 - mult\n", "new": "                epsilon *= mult\n                r *= mult\n"},
    {"name": "fit-weights-only-half", "file": _F, "rule": "C05.a", "old": "                r *= 1 - mult\n", "new": "                r *= mult\n"},
    {"name": "epsilon-sides-swapped", "file": _F, "rule": "C05.a", "old": "            mult[sign > 0] *= quantile\n            mult[sign < 0] *= 1 - quantile\n", "new": "            mult[sign < 0] *= quantile\n            mult[sign > 0] *= 1 - quantile\n"},
    {"name": "epsilon-diff-reversed", "file": _F, "rule": "C05.a", "old": "        diff = y_pred - y_true\n", "new": "        diff = y_true - y_pred\n"},
    {"name": "score-args-swapped", "file": _F, "rule": "C05.a", "old": "                y, pred, self.quantile, sample_weight\n", "new": "                pred, y, self.quantile, sample_weight\n"},
    {"name": "score-wrong-denominator", "file": _F, "rule": "C05.a", "old": "return epsilon.sum() / X.shape[0]", "new": "return epsilon.sum() / X.shape[1]"},
    {"name": "score-weights-dropped", "file": _F, "rule": "C05.a", "old": "                y, pred, self.quantile, sample_weight\n", "new": "                y, pred, self.quantile\n"},
    {"name": "mult-dtype-of-targets", "file": _F, "rule": "C05.a", "old": "            mult = numpy.ones(y_true.shape[0])\n            mult[sign > 0] *= quantile\n            mult[sign < 0] *= 1 - quantile\n", "new": "            mult = numpy.ones_like(y_true)\n            mult[sign > 0] = quantile\n            mult[sign < 0] = 1 - quantile\n"},
    {"name": "score-half-mean-over-n", "file": _F, "rule": "C05.a", "old": "        return mean_absolute_error(y, pred, sample_weight=sample_weight)", "new": "        epsilon, _ = QuantileLinearRegression._epsilon(y, pred, self.quantile, sample_weight)\n        return epsilon.sum() / X.shape[0]"},
    {"name": "score-half-ignores-weights", "file": _F, "rule": "C05.a", "old": "return mean_absolute_error(y, pred, sample_weight=sample_weight)", "new": "return mean_absolute_error(y, pred)"},
    {"name": "inner-fit-intercept", "file": _F, "rule": "C05.b", "old": "            fit_intercept=False,\n            copy_X=self.copy_X,", "new": "            fit_intercept=self.fit_intercept,\n            copy_X=self.copy_X,"},
    {"name": "positive-not-forwarded", "file": _F, "rule": "C05.b", "old": "            positive=self.positive,\n        )\n\n        W =", "new": "            positive=False,\n        )\n\n        W ="},
    {"name": "intercept-nonzero", "file": _F, "rule": "C05.b", "old": "            self.intercept_ = 0\n", "new": "            self.intercept_ = beta[-1]\n"},
    {"name": "intercept-wrong-column", "file": _F, "rule": "C05.b", "old": "            self.intercept_ = beta[-1]\n", "new": "            self.intercept_ = beta[0]\n"},
    {"name": "ones-column-always", "file": _F, "rule": "C05.b", "old": "        else:\n            Xm = X\n", "new": "        else:\n            Xm = numpy.hstack([X, numpy.ones((X.shape[0], 1))])\n"},
    {"name": "weights-cancel", "file": _F, "rule": "C05.a", "old": "                Y, Xm @ beta, self.quantile\n", "new": "                Y, Xm @ beta, self.quantile, W\n"},
    {"name": "weights-never-applied", "file": _F, "rule": "C05.c", "old": "                W *= sample_weight\n                epsilon *= sample_weight\n", "new": "                epsilon *= sample_weight\n"},
    {"name": "delta-scaled-by-targets", "file": _F, "rule": "C05.c", "old": "            deltas = numpy.ones(X.shape[0]) * delta\n", "new": "            deltas = numpy.ones(X.shape[0]) * delta * max(1.0, numpy.abs(Y).max())\n"},
    {"name": "weights-squared-residual", "file": _F, "rule": "C05.c", "old": "            r = numpy.reciprocal(numpy.maximum(epsilon, deltas))\n", "new": "            r = numpy.reciprocal(numpy.maximum(epsilon, deltas)) ** 1\n            r = r * r\n"},
    {"name": "error-not-weighted", "file": _F, "rule": "C05.c", "old": "                W *= sample_weight\n                epsilon *= sample_weight\n", "new": "                W *= sample_weight\n"},
]
# witnesses of the rules added after the ninth round of independent changes
WITNESSES += [
    {"name": "targets-cast-to-the-features-dtype", "file": _F, "rule": "C05.e", "old": "        if self.fit_intercept:\n            Xm = numpy.hstack([X, numpy.ones((X.shape[0], 1))])\n", "new": "        y = numpy.asarray(y, dtype=X.dtype)\n        if self.fit_intercept:\n            Xm = numpy.hstack([X, numpy.ones((X.shape[0], 1))])\n"},
]


TWINS = [
    {"name": "score-factor-order", "file": _F, "old": "epsilon *= (1 - mult) * 2", "new": "epsilon *= 2 * (1 - mult)"},
    {"name": "epsilon-updates-reordered", "file": _F, "old": "            mult[sign > 0] *= quantile\n            mult[sign < 0] *= 1 - quantile\n", "new": "            mult[sign < 0] *= 1 - quantile\n            mult[sign > 0] *= quantile\n"},
    {"name": "epsilon-diff-reversed-consistently", "file": _F, "old": "        diff = y_pred - y_true\n        epsilon = numpy.abs(diff)\n        if quantile != 0.5:\n            sign = numpy.sign(diff)\n            mult = numpy.ones(y_true.shape[0])\n            mult[sign > 0] *= quantile\n            mult[sign < 0] *= 1 - quantile\n", "new": "        diff = y_true - y_pred\n        epsilon = numpy.abs(diff)\n        if quantile != 0.5:\n            sign = numpy.sign(diff)\n            mult = numpy.ones(y_true.shape[0])\n            mult[sign < 0] *= quantile\n            mult[sign > 0] *= 1 - quantile\n"},
    {"name": "score-mean", "file": _F, "old": "            return epsilon.sum() / X.shape[0]", "new": "            total = numpy.sum(epsilon)\n            return total / len(X)"},
]
MIN_WITNESSES = 16
