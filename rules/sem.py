"""Semantic helpers for the rule modules: expanded expressions (temporaries,
loop variables and simple helpers normalised away) and path conditions."""

from __future__ import annotations

import ast
import re
from typing import Dict, FrozenSet, List, Optional, Tuple

from engine.src import FunctionInfo, own_nodes, own_nodes_incl_lambda, src_of, AnalysisError
from engine.expand import Expander
from engine.guards import PathConditions, path_conditions, cond_text, canon_cond, atoms
from engine import norm
from .common import resolve_call

_ex: Dict[int, Expander] = {}


_NEG = {ast.Lt: ast.GtE, ast.LtE: ast.Gt, ast.Gt: ast.LtE, ast.GtE: ast.Lt, ast.Eq: ast.NotEq, ast.NotEq: ast.Eq}


class _Complement(ast.NodeTransformer):
    """`~(a < b)`, `not (a < b)`, `numpy.logical_not(a < b)`  ->  `a >= b`
    (one normal form for a comparison and for the negation of its opposite)"""

    def _neg(self, c):
        if isinstance(c, ast.Compare) and len(c.ops) == 1 and type(c.ops[0]) in _NEG:
            return ast.Compare(left=c.left, ops=[_NEG[type(c.ops[0])]()], comparators=c.comparators)
        return None

    def visit_UnaryOp(self, node):
        self.generic_visit(node)
        if isinstance(node.op, (ast.Invert, ast.Not)):
            r = self._neg(node.operand)
            if r is not None:
                return r
        return node

    # ---- comprehensions: one bound variable per generator, components by subscript;
    #      dict(<pairs>) is a dict comprehension; list(sorted(x)) is sorted(x)
    def visit_ListComp(self, node):
        return self._comp_norm(node)

    def visit_SetComp(self, node):
        return self._comp_norm(node)

    def visit_GeneratorExp(self, node):
        return self._comp_norm(node)

    def visit_DictComp(self, node):
        return self._comp_norm(node)

    def _comp_norm(self, node):
        """bound variables are numbered by the HEIGHT of the comprehension (the
        innermost ones get _c0), so that a sub-expression reads the same whatever
        encloses it"""
        from engine.util import clone_ast

        self.generic_visit(node)
        below = -1
        for n in ast.walk(node):
            if n is not node and isinstance(n, (ast.ListComp, ast.SetComp, ast.GeneratorExp, ast.DictComp)):
                below = max(below, getattr(n, "_h", 0))
        base = below + 1
        table = {}

        def bindall(t, expr):
            if isinstance(t, ast.Name):
                table[t.id] = expr
            elif isinstance(t, (ast.Tuple, ast.List)):
                for k, e in enumerate(t.elts):
                    bindall(e, ast.Subscript(value=expr, slice=ast.Constant(k), ctx=ast.Load()))

        for gi, g in enumerate(node.generators):
            var = f"_c{base + gi}"
            bindall(g.target, ast.Name(id=var, ctx=ast.Load()))
            g.target = ast.Name(id=var, ctx=ast.Store())
        node._h = base + len(node.generators) - 1

        class R(ast.NodeTransformer):
            def visit_Name(s_, n):
                if isinstance(n.ctx, ast.Load) and n.id in table:
                    return clone_ast(table[n.id])
                return n

        for gi, g in enumerate(node.generators):
            if gi > 0:
                g.iter = R().visit(g.iter)
            g.ifs = [R().visit(x) for x in g.ifs]
        if isinstance(node, ast.DictComp):
            node.key = R().visit(node.key)
            node.value = R().visit(node.value)
        else:
            node.elt = R().visit(node.elt)
        return node

    # ---- string formatting: "%d" % x, "{}".format(x), f"{x}" have one form (JoinedStr)
    def visit_BinOp(self, node):
        self.generic_visit(node)
        if isinstance(node.op, ast.Mod) and isinstance(node.left, ast.Constant) and isinstance(node.left.value, str):
            r = _percent_to_joined(node.left.value, node.right)
            if r is not None:
                return _merge_joined(r)
        if isinstance(node.op, ast.Add) and isinstance(node.left, ast.Constant) and isinstance(node.right, ast.Constant) and isinstance(node.left.value, str) and isinstance(node.right.value, str):
            return ast.Constant(node.left.value + node.right.value)
        return node

    def visit_Subscript(self, node):
        self.generic_visit(node)
        # (a, b)[1] -> b
        if isinstance(node.value, (ast.Tuple, ast.List)) and isinstance(node.slice, ast.Constant) and isinstance(node.slice.value, int) and not isinstance(node.slice.value, bool) and -len(node.value.elts) <= node.slice.value < len(node.value.elts) and not any(isinstance(e, ast.Starred) for e in node.value.elts):
            return node.value.elts[node.slice.value]
        # [f(j) for j in range(n)][i] -> f(i): the i-th element of a list built over the positions
        v = node.value
        if isinstance(v, ast.ListComp) and len(v.generators) == 1 and not v.generators[0].ifs and isinstance(v.generators[0].target, ast.Name) and not isinstance(node.slice, (ast.Slice, ast.Tuple)):
            it = v.generators[0].iter
            if isinstance(it, ast.Call) and isinstance(it.func, ast.Name) and it.func.id == "range" and not it.keywords and (len(it.args) == 1 or (len(it.args) == 2 and isinstance(it.args[0], ast.Constant) and it.args[0].value == 0)):
                from engine.util import clone_ast

                tv = v.generators[0].target.id
                idx = node.slice

                class R(ast.NodeTransformer):
                    def visit_Name(s_, n):
                        if n.id == tv and isinstance(n.ctx, ast.Load):
                            return clone_ast(idx)
                        return n

                return R().visit(clone_ast(v.elt))
        # {k: f(k) for k in S}[e] -> f(e): a table built over its own keys, read at one key
        if isinstance(v, ast.DictComp) and len(v.generators) == 1 and not v.generators[0].ifs and isinstance(v.generators[0].target, ast.Name) and isinstance(v.key, ast.Name) and v.key.id == v.generators[0].target.id and not isinstance(node.slice, (ast.Slice, ast.Tuple)):
            from engine.util import clone_ast

            tv = v.generators[0].target.id
            idx = node.slice

            class R2(ast.NodeTransformer):
                def visit_Name(s_, n):
                    if n.id == tv and isinstance(n.ctx, ast.Load):
                        return clone_ast(idx)
                    return n

            return self.visit_Subscript_like(R2().visit(clone_ast(v.value)))
        return node

    def visit_Subscript_like(self, x):
        return x

    def visit_JoinedStr(self, node):
        self.generic_visit(node)
        return _merge_joined(node)

    def visit_IfExp(self, node):
        # `a if not c else b`  ->  `b if c else a`
        self.generic_visit(node)
        if isinstance(node.test, ast.UnaryOp) and isinstance(node.test.op, ast.Not):
            return ast.IfExp(test=node.test.operand, body=node.orelse, orelse=node.body)
        return node

    def visit_Call(self, node):
        self.generic_visit(node)
        if isinstance(node.func, ast.Name) and node.func.id == "dict" and len(node.args) == 1 and not node.keywords and isinstance(node.args[0], (ast.GeneratorExp, ast.ListComp)) and isinstance(node.args[0].elt, ast.Tuple) and len(node.args[0].elt.elts) == 2:
            c = node.args[0]
            return ast.DictComp(key=c.elt.elts[0], value=c.elt.elts[1], generators=c.generators)
        if isinstance(node.func, ast.Name) and node.func.id == "list" and len(node.args) == 1 and not node.keywords and isinstance(node.args[0], ast.Call) and isinstance(node.args[0].func, ast.Name) and node.args[0].func.id == "sorted":
            return node.args[0]
        if isinstance(node.func, ast.Attribute) and node.func.attr == "format" and isinstance(node.func.value, ast.Constant) and isinstance(node.func.value.value, str):
            r = _format_to_joined(node.func.value.value, node.args, node.keywords)
            if r is not None:
                return _merge_joined(r)
        if isinstance(node.func, ast.Attribute) and node.func.attr == "logical_not" and len(node.args) == 1 and not node.keywords:
            r = self._neg(node.args[0])
            if r is not None:
                return r
        return node


def _fv(value, conv=-1, spec=None):
    return ast.FormattedValue(value=value, conversion=conv, format_spec=ast.JoinedStr(values=[ast.Constant(spec)]) if spec else None)


def _percent_to_joined(fmt: str, right: ast.AST):
    import re

    args = list(right.elts) if isinstance(right, ast.Tuple) else [right]
    parts = []
    pos = 0
    k = 0
    for m in re.finditer(r"%(?:\((\w+)\))?([#0\- +]*)(\d+|\*)?(?:\.(\d+))?([diouxXeEfFgGcrsa%])", fmt):
        if m.start() > pos:
            parts.append(ast.Constant(fmt[pos : m.start()]))
        pos = m.end()
        conv = m.group(5)
        if conv == "%":
            parts.append(ast.Constant("%"))
            continue
        if m.group(1) is not None or m.group(3) == "*" or k >= len(args):
            return None
        a = args[k]
        k += 1
        spec = (m.group(2) or "") + (m.group(3) or "") + ("." + m.group(4) if m.group(4) else "")
        if conv in ("d", "i", "s") and not spec:
            parts.append(_fv(a))
        elif conv == "r" and not spec:
            parts.append(_fv(a, ord("r")))
        else:
            parts.append(_fv(a, -1, spec + conv))
    if k != len(args):
        return None
    if pos < len(fmt):
        parts.append(ast.Constant(fmt[pos:]))
    return ast.JoinedStr(values=parts)


def _format_to_joined(fmt: str, args, keywords):
    import string

    parts = []
    auto = 0
    kw = {k.arg: k.value for k in keywords if k.arg}
    try:
        for lit, field, spec, conv in string.Formatter().parse(fmt):
            if lit:
                parts.append(ast.Constant(lit))
            if field is None:
                continue
            if field == "":
                idx = auto
                auto += 1
                a = args[idx] if idx < len(args) else None
            elif field.isdigit():
                a = args[int(field)] if int(field) < len(args) else None
            elif field.isidentifier():
                a = kw.get(field)
            else:
                return None
            if a is None or isinstance(a, ast.Starred):
                return None
            parts.append(_fv(a, ord(conv) if conv else -1, spec or None))
    except (ValueError, IndexError):
        return None
    return ast.JoinedStr(values=parts)


def _merge_joined(js: ast.JoinedStr):
    """constant pieces merged; a constant interpolated without format becomes text"""
    out = []
    for v in js.values:
        if isinstance(v, ast.FormattedValue) and isinstance(v.value, ast.Constant) and v.format_spec is None and v.conversion == -1 and isinstance(v.value.value, (str, int)) and not isinstance(v.value.value, bool):
            v = ast.Constant(str(v.value.value))
        if isinstance(v, ast.Constant) and out and isinstance(out[-1], ast.Constant):
            out[-1] = ast.Constant(str(out[-1].value) + str(v.value))
        else:
            out.append(v)
    if all(isinstance(v, ast.Constant) for v in out):
        return ast.Constant("".join(str(v.value) for v in out))
    return ast.JoinedStr(values=out)


def complement_norm(tree: ast.AST) -> ast.AST:
    return _Complement().visit(tree)


_effects = {}


def effects(repo):
    from engine.effects import Effects

    e = _effects.get(id(repo))
    if e is None:
        _effects.clear()
        e = _effects[id(repo)] = Effects(repo, resolve_call)
        e.solve()
    return e


def _call_writes(repo):
    """(fi, call) -> local names of fi whose object a repository callee writes"""

    def cw(fi, call):
        callee = resolve_call(repo, fi, call)
        if callee is None:
            return ()
        eff = effects(repo)
        sm = eff.summaries.get(callee.qualname)
        if sm is None or not sm.writes:
            return ()
        try:
            b = eff._bind(call, callee, fi)
        except Exception:
            return ()
        out = set()
        for prm, how in sm.writes.items():
            if _container_only_write(repo, callee, prm, how):
                continue
            a = b.get(prm)
            while isinstance(a, (ast.Subscript, ast.Attribute)):
                a = a.value
            if isinstance(a, ast.Name):
                out.add(a.id)
        return out

    return cw


def _container_only_write(repo, callee, prm: str, how: str) -> bool:
    """the summary's write is a container-level mutator (`.append()`, ...) on a
    local list that merely CONTAINS the parameter (`acc = [p]; acc.append(..)`):
    the parameter's own object is not changed"""
    import re

    m = re.match(r"^(\S+):(\d+) \.(\w+)\(\) works in place", how)
    if not m:
        return False
    line = int(m.group(2))
    for c in ast.walk(callee.node):
        if isinstance(c, ast.Call) and getattr(c, "lineno", -1) == line and isinstance(c.func, ast.Attribute) and c.func.attr == m.group(3):
            r = c.func.value
            while isinstance(r, (ast.Subscript, ast.Attribute)):
                r = r.value
            if isinstance(r, ast.Name) and r.id != prm:
                # the receiver is another local: was it bound to a display containing the parameter?
                for s_ in ast.walk(callee.node):
                    if isinstance(s_, ast.Assign) and any(isinstance(t, ast.Name) and t.id == r.id for t in s_.targets) and isinstance(s_.value, (ast.List, ast.Tuple, ast.Set)) and any(isinstance(e, ast.Name) and e.id == prm for e in s_.value.elts):
                        return True
    return False


def expander(repo) -> Expander:
    e = _ex.get(id(repo))
    if e is None:
        _ex.clear()
        e = _ex[id(repo)] = Expander(repo, resolve_call, call_writes=_call_writes(repo))
        e.post = complement_norm
    return e


def want(repo, src: str, fi: FunctionInfo, at: ast.AST) -> str:
    """the text an expression written as `src` at statement `at` of `fi` expands
    to -- expected forms are pushed through the same expansion as the code, so
    that inlined helpers appear alike on both sides"""
    e = ast.parse(src, mode="eval").body
    return expander(repo).text(e, fi, at)


def cond_want(repo, src: str, fi: FunctionInfo, at: ast.AST, truth: bool = True):
    """canonical path fact for the test `src` written at statement `at`
    (pushed through the same expansion as the code's own tests)"""
    e = ast.parse(src, mode="eval").body
    return canon_cond(expander(repo).norm_expr(e, fi, at), truth)


def bind(call: ast.Call, params: List[str]) -> Dict[str, ast.AST]:
    """parameter name -> argument expression (positional then keywords)"""
    b: Dict[str, ast.AST] = {}
    for i, a in enumerate(call.args):
        if isinstance(a, ast.Starred):
            break
        if i < len(params):
            b[params[i]] = a
    for k in call.keywords:
        if k.arg:
            b[k.arg] = k.value
    return b


def nested_functions(repo, fi: FunctionInfo) -> List[FunctionInfo]:
    return [f for f in repo.all_functions.values() if f.parent is not None and f.parent == fi]


def xtext(repo, e: ast.AST, fi: FunctionInfo, at: ast.AST) -> str:
    """canonical text of the expansion of `e` at statement `at`"""
    return expander(repo).text(e, fi, at)


def ctext(src: str) -> str:
    """canonical text of a source fragment (for expected forms)"""
    x = complement_norm(ast.parse(src, mode="eval").body)
    ast.fix_missing_locations(x)
    return ast.unparse(norm.canon(x, rename=False))


def stmt_of(node: ast.AST) -> ast.AST:
    n = node
    while n is not None and not isinstance(n, ast.stmt):
        n = getattr(n, "_parent", None)
    return n if n is not None else node


def returns(repo, fi: FunctionInfo) -> List[Tuple[ast.Return, str]]:
    out = []
    for r in sorted((x for x in own_nodes(fi.node) if isinstance(x, ast.Return)), key=lambda x: x.lineno):
        out.append((r, xtext(repo, r.value, fi, r) if r.value is not None else "None"))
    return out


def pconds(repo, fi: FunctionInfo) -> PathConditions:
    ex = expander(repo)

    def expand(t):
        return ex.norm_expr(t, fi, t)

    return path_conditions(fi.node, expand)


def holds_at(repo, fi: FunctionInfo, node: ast.AST, src: str, truth: bool = True) -> bool:
    """does the (expanded, canonical) condition `src` hold on every path to `node`?"""
    want = canon_cond(ast.parse(src, mode="eval").body, truth)
    return want in pconds(repo, fi).at(node)


def conds_at(repo, fi: FunctionInfo, node: ast.AST) -> FrozenSet[Tuple[str, bool]]:
    return pconds(repo, fi).at(node)


def calls(fi: FunctionInfo, pred) -> List[ast.Call]:
    out = [c for c in own_nodes_incl_lambda(fi.node) if isinstance(c, ast.Call) and pred(c)]
    out.sort(key=lambda c: (c.lineno, c.col_offset))
    return out


def assigns_to(fi: FunctionInfo, target_src: str) -> List[ast.stmt]:
    out = []
    for s in own_nodes(fi.node):
        if isinstance(s, ast.Assign) and any(src_of(t) == target_src for t in s.targets):
            out.append(s)
        elif isinstance(s, (ast.AugAssign, ast.AnnAssign)) and src_of(s.target) == target_src:
            out.append(s)
    out.sort(key=lambda s: s.lineno)
    return out


def self_attr_value_texts(repo, fi: FunctionInfo, attr: str) -> List[Tuple[ast.stmt, str]]:
    """expanded values assigned to self.<attr> in fi (tuple targets followed by position)"""
    ex = expander(repo)
    out = []
    for s in sorted((x for x in own_nodes(fi.node) if isinstance(x, ast.Assign)), key=lambda x: x.lineno):
        for t in s.targets:
            if src_of(t) == f"self.{attr}":
                out.append((s, ex.text(s.value, fi, s)))
            elif isinstance(t, (ast.Tuple, ast.List)):
                for i, e in enumerate(t.elts):
                    if src_of(e) == f"self.{attr}":
                        v = ex._tuple_elem(s.value, i, len(t.elts), fi, s, {}, 0, set())
                        out.append((s, ast.unparse(norm.canon(v, rename=False)) if v is not None else f"<{src_of(s.value)}>[{i}]"))
    return out


def guarded_values(repo, fi: FunctionInfo, e: ast.AST, at: ast.AST, conds=frozenset()):
    """[(branch facts, expanded expression, statement)], see _guarded"""
    ex = expander(repo)
    out = []
    for c, v, st, pre in _guarded(repo, fi, e, at, conds, 0, False):
        out.append((c, v if pre else ex.norm_expr(v, fi, st), st))
    return out


def xt(x: ast.AST) -> str:
    """canonical text of an already expanded expression"""
    return ast.unparse(norm.canon(x, rename=False))


def _guarded(repo, fi: FunctionInfo, e: ast.AST, at: ast.AST, conds=frozenset(), depth: int = 0, pre: bool = False):
    """[(branch facts, expression, statement)] for an expression whose value is
    chosen by conditional expressions or by assignments in different branches:
    `v = a if c else b`, `if c: v = a  else: v = b`, `if c: v, w = a, b ...`,
    `v, w = helper(...)` (helper inlined).  The facts are canonical path
    conditions (engine.guards).  pre=True: `e` is already expanded."""
    ex = expander(repo)
    if depth > 5:
        return [(conds, e, at, pre)]
    if isinstance(e, ast.IfExp):
        t = e.test if pre else ex.norm_expr(e.test, fi, at)
        return _guarded(repo, fi, e.body, at, conds | frozenset(atoms(t, True)), depth + 1, pre) + _guarded(repo, fi, e.orelse, at, conds | frozenset(atoms(t, False)), depth + 1, pre)
    if pre:
        return [(conds, e, at, pre)]
    if isinstance(e, ast.Name) and isinstance(e.ctx, ast.Load):
        rd = ex.rd(fi)
        node = rd.node_of(at)
        if node is not None:
            ids = rd.reaching(e.id, node)
            dns = [rd.node_by_id[i] for i in ids if i >= 0]
            # in-place updates of the object are not alternatives for the binding
            dns = [d for d in dns if d.kind == "stmt" and isinstance(d.ast, (ast.Assign, ast.AnnAssign)) and _binds(d.ast, e.id)]
            if dns and -1 not in ids:
                out = []
                for d in dns:
                    c = conds_at(repo, fi, d.ast) if len(dns) > 1 else frozenset()
                    v = _assigned_value(d, e.id)
                    if v is not None:
                        out += _guarded(repo, fi, v, d.ast, conds | c, depth + 1)
                    else:
                        r = ex._name_def(ast.Name(id=e.id, ctx=ast.Load()), d.ast, d, fi, {}, 0, set())
                        if r is None:
                            out.append((conds | c, e, at, False))
                        else:
                            if ex.post is not None:
                                r = ex.post(r)
                            out += _guarded(repo, fi, r, d.ast, conds | c, depth + 1, True)
                return out
    return [(conds, e, at, pre)]


def _binds(st: ast.AST, name: str) -> bool:
    tgts = st.targets if isinstance(st, ast.Assign) else [st.target]
    for t in tgts:
        elts = t.elts if isinstance(t, (ast.Tuple, ast.List)) else [t]
        if any(isinstance(x, ast.Name) and x.id == name for x in elts):
            return True
    return False


ROW_PRESERVING_METHODS = {"copy", "astype", "ravel", "flatten", "toarray", "todense", "to_numpy", "squeeze", "view"}
ROW_PRESERVING_FUNCS = {"asarray", "array", "ascontiguousarray", "asfortranarray", "copy", "asanyarray", "float64", "squeeze", "ravel"}


def gather_alternatives(repo, fi: FunctionInfo, e: ast.AST, at: ast.AST):
    """how the rows of an argument are selected, on every branch:
    {(branch facts, base text, row-index text, {(leaf name, its reaching definitions)})}
    The value is followed through conditional expressions, assignments in
    different branches, inlined helpers and row-preserving wrappers (`.copy()`,
    `.astype(..)`, `[:, numpy.newaxis]`, ...) down to BASE[ROWS] / BASE[ROWS, :].
    Alternatives that are the constant None (optional weights) are dropped
    together with the `is None` facts that select them."""
    out = set()
    _gather(repo, fi, e, at, frozenset(), 0, False, out)
    return out


def _full_slice(x) -> bool:
    return isinstance(x, ast.Slice) and x.lower is None and x.upper is None and x.step is None


def _gather(repo, fi, e, at, conds, depth, pre, out):
    ex = expander(repo)
    rd = ex.rd(fi)
    if depth > 12:
        out.add((_strip_none(conds), "?", None, frozenset()))
        return
    if isinstance(e, ast.Constant) and e.value is None:
        return
    if isinstance(e, ast.IfExp):
        t = e.test if pre else ex.norm_expr(e.test, fi, at)
        _gather(repo, fi, e.body, at, conds | frozenset(atoms(t, True)), depth + 1, pre, out)
        _gather(repo, fi, e.orelse, at, conds | frozenset(atoms(t, False)), depth + 1, pre, out)
        return
    if isinstance(e, ast.Call):
        f = e.func
        if isinstance(f, ast.Attribute) and f.attr in ROW_PRESERVING_METHODS:
            _gather(repo, fi, f.value, at, conds, depth + 1, pre, out)
            return
        fn = f.attr if isinstance(f, ast.Attribute) else (f.id if isinstance(f, ast.Name) else "")
        if fn in ROW_PRESERVING_FUNCS and e.args:
            _gather(repo, fi, e.args[0], at, conds, depth + 1, pre, out)
            return
    if isinstance(e, ast.Subscript):
        sl = e.slice
        first = sl.elts[0] if isinstance(sl, ast.Tuple) and sl.elts else sl
        if _full_slice(first):
            # x[:, numpy.newaxis], x[:, k]: all rows kept
            _gather(repo, fi, e.value, at, conds, depth + 1, pre, out)
            return
        base = e.value if pre else ex.norm_expr(e.value, fi, at)
        rows = first if pre else ex.norm_expr(first, fi, at)
        node = rd.node_of(at)
        leaves = set()
        for n in ast.walk(rows):
            if isinstance(n, ast.Name) and node is not None:
                leaves.add((n.id, tuple(rd.reaching(n.id, node))))
        out.add((_strip_none(conds), xt(base), xt(rows), frozenset(leaves)))
        return
    if isinstance(e, ast.Name) and not pre:
        node = rd.node_of(at)
        if node is not None:
            ids = rd.reaching(e.id, node)
            dns = [rd.node_by_id[i] for i in ids if i >= 0]
            dns = [d for d in dns if d.kind == "stmt" and isinstance(d.ast, (ast.Assign, ast.AnnAssign)) and _binds(d.ast, e.id)]
            if dns and -1 not in ids:
                for d in dns:
                    c = conds_at(repo, fi, d.ast) if len(dns) > 1 else frozenset()
                    v = _assigned_value(d, e.id)
                    if v is not None:
                        _gather(repo, fi, v, d.ast, conds | c, depth + 1, False, out)
                    else:
                        r = ex._name_def(ast.Name(id=e.id, ctx=ast.Load()), d.ast, d, fi, {}, 0, set())
                        if r is None:
                            out.add((_strip_none(conds | c), e.id, None, frozenset()))
                        else:
                            if ex.post is not None:
                                r = ex.post(r)
                            _gather(repo, fi, r, d.ast, conds | c, depth + 1, True, out)
                return
    x = e if pre else ex.norm_expr(e, fi, at)
    out.add((_strip_none(conds), xt(x)[:80], None, frozenset()))


def _strip_none(conds):
    return frozenset(c for c in conds if " is None" not in c[0])


def _assigned_value(dn, name: str) -> Optional[ast.AST]:
    a = dn.ast
    if dn.kind != "stmt" or not isinstance(a, ast.Assign):
        return None
    for t in a.targets:
        if isinstance(t, ast.Name) and t.id == name:
            return a.value
        if isinstance(t, (ast.Tuple, ast.List)) and isinstance(a.value, (ast.Tuple, ast.List)) and len(t.elts) == len(a.value.elts):
            for x, v in zip(t.elts, a.value.elts):
                if isinstance(x, ast.Name) and x.id == name:
                    return v
    return None


def norm_literal_guard(conds, var_texts=("norm", "self.norm")) -> Optional[str]:
    """the string literal a variable is known to equal (or, with two
    alternatives {A, B}, known not to equal) under the given path facts"""
    pos, neg = [], []
    for t, pol in conds:
        try:
            c = ast.parse(t, mode="eval").body
        except SyntaxError:
            continue
        if isinstance(c, ast.Compare) and len(c.ops) == 1 and isinstance(c.ops[0], ast.Eq):
            l, r = c.left, c.comparators[0]
            if isinstance(l, ast.Constant):
                l, r = r, l
            if ast.unparse(l) in var_texts and isinstance(r, ast.Constant) and isinstance(r.value, str):
                (pos if pol else neg).append(r.value)
    if pos:
        return pos[0]
    return ("!" + ",".join(sorted(neg))) if neg else None


def defs_texts(repo, fi: FunctionInfo, name: str) -> List[Tuple[ast.stmt, str]]:
    """(statement, expanded text of the value bound) for every statement of `fi`
    that binds the local `name` by assignment (tuple unpacking followed by
    position, helpers inlined) -- each read as of its own site"""
    ex = expander(repo)
    rd = ex.rd(fi)
    out = []
    for s in sorted((x for x in own_nodes(fi.node) if isinstance(x, (ast.Assign, ast.AnnAssign))), key=lambda x: x.lineno):
        tgts = s.targets if isinstance(s, ast.Assign) else [s.target]
        binds = False
        for t in tgts:
            elts = t.elts if isinstance(t, (ast.Tuple, ast.List)) else [t]
            if any(isinstance(e, ast.Name) and e.id == name for e in elts):
                binds = True
        if not binds:
            continue
        dn = rd.node_of(s)
        r = ex._name_def(ast.Name(id=name, ctx=ast.Load()), s, dn, fi, {}, 0, set()) if dn is not None else None
        if r is None:
            out.append((s, f"<{src_of(s)}>"))
            continue
        if ex.post is not None:
            r = ex.post(r)
        out.append((s, ast.unparse(norm.canon(r, rename=False))))
    return out


# ---------------------------------------------------------------- Cython side
_cyex = {}


def cy_expander(repo) -> Expander:
    """expander for functions of the converted Cython trees (no call resolution)"""
    e = _cyex.get(id(repo))
    if e is None:
        _cyex.clear()
        e = _cyex[id(repo)] = Expander(repo, lambda *a, **k: None)
        e.post = complement_norm
    return e


def cy_fi(cm, cname: str, mname: str) -> FunctionInfo:
    node = cm.method(cname, mname)
    return FunctionInfo(mname, f"{cm.relpath}:{cname}.{mname}", node, None)


def cy_returns(repo, fi: FunctionInfo):
    ex = cy_expander(repo)
    out = []
    for r in sorted((x for x in ast.walk(fi.node) if isinstance(x, ast.Return)), key=lambda x: x.lineno):
        out.append((r, ex.text(r.value, fi, r) if r.value is not None else "None"))
    return out


def same_selection(alts_list) -> bool:
    """do several arguments (their gather_alternatives) select the same rows?
    The sets of (row index, definitions of its leaves) must agree, and where the
    arguments are chosen under the same branch facts they must agree branch by
    branch."""
    if any(a[2] is None for v in alts_list for a in v) or any(not v for v in alts_list):
        return False
    plain = [{(a[2], a[3]) for a in v} for v in alts_list]
    if any(p != plain[0] for p in plain[1:]):
        return False
    maps = []
    for v in alts_list:
        m = {}
        for a in v:
            m.setdefault(a[0], set()).add((a[2], a[3]))
        maps.append(m)
    common = set(maps[0])
    for m in maps[1:]:
        common &= set(m)
    for c in common:
        if any(m[c] != maps[0][c] for m in maps[1:]):
            return False
    # arguments whose alternatives depend on branches the others do not have: every
    # one of their alternatives must be an alternative of the others on a compatible branch
    return True


# ------------------------------------------------------------ path evaluation
from engine.patheval import PathEval, Path, RAISE, BREAK, CONTINUE, text as ptext


def block_paths(fi: FunctionInfo, stmts, bindings: Optional[Dict[str, object]] = None) -> List[Path]:
    """paths through a statement list of `fi` (a loop body: break/continue end a path)"""
    b = {k: (v if isinstance(v, ast.AST) else ast.Constant(v)) for k, v in (bindings or {}).items()}
    pe = PathEval(fi.node, b, post=complement_norm)
    out = pe.run(stmts)
    if pe.truncated:
        raise AnalysisError(f"too many paths through a block of {fi.qualname}")
    return out


def _literal(v: ast.AST) -> bool:
    if isinstance(v, ast.Constant):
        return True
    if isinstance(v, (ast.Tuple, ast.List, ast.Set)):
        return all(_literal(e) for e in v.elts)
    if isinstance(v, ast.Dict):
        return all(k is not None and _literal(k) and _literal(x) for k, x in zip(v.keys, v.values))
    if isinstance(v, ast.UnaryOp) and isinstance(v.operand, ast.Constant):
        return True
    return False


def module_constants(fi: FunctionInfo) -> Dict[str, ast.AST]:
    """module-level NAME = <literal> bound exactly once in the module and not
    shadowed by a local of the function: the evaluators read them as values"""
    tree = fi.module.tree
    cache = getattr(tree, "_module_constants", None)
    if cache is None:
        counts: Dict[str, int] = {}
        vals: Dict[str, ast.AST] = {}
        for st in tree.body:
            for n in ast.walk(st) if not isinstance(st, (ast.FunctionDef, ast.ClassDef, ast.AsyncFunctionDef)) else []:
                if isinstance(n, ast.Name) and isinstance(n.ctx, ast.Store):
                    counts[n.id] = counts.get(n.id, 0) + 1
            if isinstance(st, ast.Assign) and len(st.targets) == 1 and isinstance(st.targets[0], ast.Name) and _literal(st.value):
                vals[st.targets[0].id] = st.value
        for n in ast.walk(tree):
            if isinstance(n, ast.Global):
                for nm in n.names:
                    counts[nm] = counts.get(nm, 0) + 2
        cache = {k: v for k, v in vals.items() if counts.get(k) == 1}
        tree._module_constants = cache  # type: ignore[attr-defined]
    if not cache:
        return {}
    local = set(fi.params)
    f = fi
    while f is not None:
        for n in ast.walk(f.node):
            if isinstance(n, ast.Name) and isinstance(n.ctx, ast.Store):
                local.add(n.id)
        local |= set(f.params)
        f = f.parent
    return {k: v for k, v in cache.items() if k not in local}


def paths(fi: FunctionInfo, bindings: Optional[Dict[str, object]] = None, repo=None, _depth: int = 0, through=()) -> List[Path]:
    """every path through a small function with its facts, returned value and
    stores (engine.patheval); bindings: parameter -> python constant or ast;
    repo given: calls of single-path repository helpers are replaced by what
    they return"""
    b = dict(module_constants(fi))
    for k, v in (bindings or {}).items():
        b[k] = v if isinstance(v, ast.AST) else ast.Constant(v)
    post = complement_norm if repo is None else (lambda x: complement_norm(inline_helpers(repo, fi, x)))
    pe = PathEval(fi.node, b, post=post, call_hook=_helper_hook(repo or _current_repo(), fi, _depth, through))
    out = pe.run()
    if pe.truncated:
        raise AnalysisError(f"too many paths through {fi.qualname}")
    return out


def _current_repo():
    """the repository view the running check analyses (lets `paths` look through
    helpers the rule tables do not know even where a rule does not pass it)"""
    from engine.src import CURRENT_REPO

    return CURRENT_REPO[0]


def _helper_hook(repo, fi: FunctionInfo, depth: int, through=()):
    """paths of private helpers that are NOT in the frozen list of known
    functions (engine/known_functions.txt) and that E-INL could not expand in
    place (e.g. a `return` inside a loop over a literal tuple)"""
    known = getattr(repo, "known_functions", None) if repo is not None else None
    if repo is None or (known is None and not through) or depth >= 3:
        return None
    known = known or set()

    def hook(call: ast.Call):
        probe = call
        f = call.func
        if isinstance(f, ast.Name) and f.id.endswith("__def"):
            probe = ast.Call(func=ast.Name(id=f.id[:-5], ctx=ast.Load()), args=call.args, keywords=call.keywords)
        callee = resolve_call(repo, fi, probe)
        if callee is None or callee.name == "__init__":
            return None
        if callee.name not in through:
            if callee.qualname in known:
                return None
            if not (callee.name.startswith("_") or callee.parent is not None) or (callee.name.startswith("__") and callee.name.endswith("__")):
                return None
        if any(isinstance(a, ast.Starred) for a in call.args) or any(k.arg is None for k in call.keywords):
            return None
        params = list(callee.named_params)
        if callee.cls is not None and callee.parent is None and params and params[0] in ("self", "cls"):
            is_static = any(isinstance(d, ast.Name) and d.id == "staticmethod" for d in callee.node.decorator_list)
            if not is_static:
                params = params[1:]
        elif callee.cls is not None and callee.parent is None:
            pass
        b = bind(call, params)
        a = callee.node.args
        pos = a.posonlyargs + a.args
        for x, dv in list(zip(pos[len(pos) - len(a.defaults):], a.defaults)) + [(x, dv) for x, dv in zip(a.kwonlyargs, a.kw_defaults) if dv is not None]:
            b.setdefault(x.arg, dv)
        try:
            return paths(callee, b, None, _depth=depth + 1, through=through)
        except AnalysisError:
            return None

    return hook


def split_ifexp(ps: List[Path]) -> List[Path]:
    """conditional expressions inside returned values / stored values become
    separate paths (so `return a if c else b` and `if c: return a; return b`
    are read alike)"""
    from engine.util import clone_ast

    out = []
    work = list(ps)
    guard = 0
    while work and guard < 500:
        guard += 1
        p = work.pop(0)
        tgt = None
        if isinstance(p.ret, ast.AST):
            for n in ast.walk(p.ret):
                if isinstance(n, ast.IfExp):
                    tgt = ("ret", None, n)
                    break
        if tgt is None:
            for k, v in p.stores.items():
                for n in ast.walk(v):
                    if isinstance(n, ast.IfExp):
                        tgt = ("store", k, n)
                        break
                if tgt:
                    break
        if tgt is None:
            out.append(p)
            continue
        kind, key, node = tgt
        for truth, pick in ((True, node.body), (False, node.orelse)):
            q = p.fork()

            class R(ast.NodeTransformer):
                def visit_IfExp(s_, n):
                    if ast.dump(n) == ast.dump(node):
                        return clone_ast(pick)
                    return s_.generic_visit(n)

            if kind == "ret":
                q.ret = R().visit(clone_ast(p.ret))
            else:
                q.stores[key] = R().visit(clone_ast(p.stores[key]))
            q.conds = q.conds + tuple(sorted(atoms(node.test, truth)))
            work.append(q)
    return out


def inline_helpers(repo, fi: FunctionInfo, x: ast.AST, depth: int = 0) -> ast.AST:
    """replace calls of repository functions that have a single unconditional
    path by what they return (parameters bound to the arguments)"""
    from engine.util import clone_ast

    if depth > 3 or not isinstance(x, ast.AST):
        return x

    class R(ast.NodeTransformer):
        def visit_Call(s_, n):
            s_.generic_visit(n)
            probe = clone_ast(n)
            if isinstance(probe.func, ast.Name) and probe.func.id.endswith("__def"):
                probe.func.id = probe.func.id[:-5]
            callee = resolve_call(repo, fi, probe)
            if callee is None or callee.name == "__init__" or callee.cls is not None:
                return n
            b = bind(n, callee.named_params)
            if any(isinstance(a, ast.Starred) for a in n.args):
                return n
            try:
                ps = [p for p in paths(callee, b) if p.ret != RAISE]
            except AnalysisError:
                return n
            if len(ps) == 1 and not ps[0].conds and isinstance(ps[0].ret, ast.AST):
                return inline_helpers(repo, callee, ps[0].ret, depth + 1)
            return n

    return R().visit(clone_ast(x))


def paths_deep(repo, fi: FunctionInfo, bindings: Optional[Dict[str, object]] = None, depth: int = 0) -> List[Path]:
    """paths of `fi`; a path that only returns the call of another repository
    function (a wrapper delegating to a shared helper) is replaced by that
    function's paths, parameters bound to the arguments"""
    out = []
    for p in paths(fi, bindings):
        r = p.ret
        if depth < 3 and isinstance(r, ast.Call) and not p.stores:
            probe = ast.Call(func=r.func, args=r.args, keywords=r.keywords)
            f = r.func
            if isinstance(f, ast.Name) and f.id.endswith("__def"):
                probe = ast.Call(func=ast.Name(id=f.id[:-5], ctx=ast.Load()), args=r.args, keywords=r.keywords)
            callee = resolve_call(repo, fi, probe)
            if callee is not None and callee.name != "__init__" and not any(isinstance(a, ast.Starred) for a in r.args):
                b = bind(r, callee.named_params)
                try:
                    sub = paths_deep(repo, callee, b, depth + 1)
                except AnalysisError:
                    sub = None
                if sub:
                    for q in sub:
                        q.conds = p.conds + q.conds
                        q.calls = p.calls + q.calls
                        out.append(q)
                    continue
        out.append(p)
    return out


def truth_of(conds, atom_text: str) -> Optional[bool]:
    """truth of an atomic test under path facts, with the two propositional
    steps the evaluators do not take themselves:
        not (a and b), a  |-  not b        (a or b), not a  |-  b"""
    facts = {t: pol for t, pol in conds}
    try:
        a_ = ast.parse(atom_text, mode="eval").body
        a_pos = canon_cond(a_, True)
        a_neg = canon_cond(a_, False)
    except SyntaxError:
        a_pos = a_neg = None
    def look():
        if atom_text in facts:
            return facts[atom_text]
        if a_pos is not None and a_pos[0] in facts:
            return facts[a_pos[0]] == a_pos[1]
        if a_neg is not None and a_neg[0] in facts:
            return facts[a_neg[0]] != a_neg[1]
        return None
    r0 = look()
    if r0 is not None:
        return r0
    for _ in range(3):
        for t, pol in list(facts.items()):
            try:
                e = ast.parse(t, mode="eval").body
            except SyntaxError:
                continue
            if isinstance(e, ast.BoolOp):
                parts = []
                for v in e.values:
                    neg = False
                    while isinstance(v, ast.UnaryOp) and isinstance(v.op, ast.Not):
                        v, neg = v.operand, not neg
                    c = canon_cond(v, True)
                    parts.append((c[0], c[1] != neg))  # text, polarity required for the part to be true
                known = [(facts.get(pt), want_) for pt, want_ in parts]
                if isinstance(e.op, ast.And) and pol is False:
                    unk = [k for k, (val, w) in enumerate(known) if val is None]
                    if len(unk) == 1 and all(val == w for k, (val, w) in enumerate(known) if k != unk[0]):
                        pt, w = parts[unk[0]]
                        facts[pt] = not w
                if isinstance(e.op, ast.Or) and pol is True:
                    unk = [k for k, (val, w) in enumerate(known) if val is None]
                    if len(unk) == 1 and all(val is not None and val != w for k, (val, w) in enumerate(known) if k != unk[0]):
                        pt, w = parts[unk[0]]
                        facts[pt] = w
        r0 = look()
        if r0 is not None:
            return r0
    return look()


def consistent(conds) -> bool:
    """False when the path facts contradict each other (a path produced by
    splitting independent tests that the code's earlier tests exclude)"""
    facts = {}
    for t, pol in conds:
        if t in facts and facts[t] != pol:
            return False
        facts[t] = pol
    for t, pol in conds:
        try:
            e = ast.parse(t, mode="eval").body
        except SyntaxError:
            continue
        if isinstance(e, ast.BoolOp):
            vals = []
            for v in e.values:
                neg = False
                while isinstance(v, ast.UnaryOp) and isinstance(v.op, ast.Not):
                    v, neg = v.operand, not neg
                c = canon_cond(v, True)
                val = truth_of(conds, c[0])
                vals.append(None if val is None else (val == (c[1] != neg)))
            if isinstance(e.op, ast.And) and pol is False and all(v is True for v in vals):
                return False
            if isinstance(e.op, ast.And) and pol is True and any(v is False for v in vals):
                return False
            if isinstance(e.op, ast.Or) and pol is True and all(v is False for v in vals):
                return False
            if isinstance(e.op, ast.Or) and pol is False and any(v is True for v in vals):
                return False
    return True


# ---------------------------------------------------------------- element-wise reading of sequences
def _E(k: int) -> ast.Name:
    return ast.Name(id=f"__e{k}", ctx=ast.Load())


class _SubNames(ast.NodeTransformer):
    def __init__(self, m):
        self.m = m

    def visit_Name(self, n):
        if isinstance(n.ctx, ast.Load) and n.id in self.m:
            from engine.util import clone_ast

            return clone_ast(self.m[n.id])
        return n


def _bind_target(t: ast.AST, v: ast.AST, m: Dict[str, ast.AST]):
    if isinstance(t, ast.Name):
        m[t.id] = v
    elif isinstance(t, (ast.Tuple, ast.List)):
        for i, e in enumerate(t.elts):
            if isinstance(v, (ast.Tuple, ast.List)) and len(v.elts) == len(t.elts):
                _bind_target(e, v.elts[i], m)
            else:
                _bind_target(e, ast.Subscript(value=v, slice=ast.Constant(i), ctx=ast.Load()), m)


def elementwise(repo, fi: FunctionInfo, e: ast.AST, at: ast.AST, sources: Optional[List[str]] = None, depth: int = 0):
    """Read a sequence-valued expression element by element: returns
    (sources, element) where `sources` are the texts of the sequences iterated
    in lock step and `element` is the i-th element of the value written over the
    placeholders __e0, __e1, .. (the i-th elements of the sources); None when
    the value is not built element-wise.  Understood: list/generator
    comprehensions with one generator and no filter, list()/tuple() of such,
    map(f, seq), zip(a, b, ..), enumerate is NOT (positions are not elements),
    a local filled by `acc.append(x)` in one loop, and locals bound once."""
    from engine.util import clone_ast

    if sources is None:
        sources = []
    if depth > 8:
        return None
    if isinstance(e, ast.Call) and isinstance(e.func, ast.Name) and e.func.id in ("list", "tuple") and len(e.args) == 1 and not e.keywords:
        return elementwise(repo, fi, e.args[0], at, sources, depth + 1)
    if isinstance(e, (ast.ListComp, ast.GeneratorExp)) and len(e.generators) == 1 and not e.generators[0].ifs:
        g = e.generators[0]
        r = elementwise(repo, fi, g.iter, at, sources, depth + 1)
        if r is None:
            return None
        _, el = r
        m: Dict[str, ast.AST] = {}
        _bind_target(g.target, el, m)
        return sources, complement_norm(_SubNames(m).visit(clone_ast(e.elt)))
    if isinstance(e, ast.Call) and isinstance(e.func, ast.Name) and e.func.id == "map" and len(e.args) == 2 and not e.keywords:
        r = elementwise(repo, fi, e.args[1], at, sources, depth + 1)
        if r is None:
            return None
        _, el = r
        f = e.args[0]
        if isinstance(f, ast.Lambda) and len(f.args.args) == 1 and not f.args.defaults:
            return sources, complement_norm(_SubNames({f.args.args[0].arg: el}).visit(clone_ast(f.body)))
        return sources, ast.Call(func=clone_ast(f), args=[el], keywords=[])
    if isinstance(e, ast.Call) and isinstance(e.func, ast.Name) and e.func.id == "zip" and e.args and not e.keywords:
        els = []
        for a in e.args:
            r = elementwise(repo, fi, a, at, sources, depth + 1)
            if r is None:
                return None
            els.append(r[1])
        return sources, ast.Tuple(elts=els, ctx=ast.Load())
    if isinstance(e, ast.Name):
        ex = expander(repo)
        rd = ex.rd(fi)
        node = rd.node_of(at)
        if node is not None:
            ids = rd.reaching(e.id, node)
            dns = [rd.node_by_id[i] for i in ids if i >= 0]
            binds = [d for d in dns if d.kind == "stmt" and isinstance(d.ast, (ast.Assign, ast.AnnAssign)) and _binds(d.ast, e.id)]
            if len(binds) == 1 and -1 not in ids:
                v = _assigned_value(binds[0], e.id)
                muts = [d for d in dns if d not in binds]
                if v is not None and not muts:
                    r = elementwise(repo, fi, v, binds[0].ast, sources, depth + 1)
                    if r is not None:
                        return r
                # acc = []; for t in it: acc.append(x)
                from engine.patheval import _empty_container

                if v is not None and _empty_container(v) and muts:
                    apps = []
                    for d in muts:
                        a = d.ast
                        if isinstance(a, ast.Expr) and isinstance(a.value, ast.Call) and isinstance(a.value.func, ast.Attribute) and a.value.func.attr == "append" and isinstance(a.value.func.value, ast.Name) and a.value.func.value.id == e.id and len(a.value.args) == 1:
                            apps.append(a)
                        else:
                            apps = None
                            break
                    if apps and len(apps) == 1:
                        loop = getattr(apps[0], "_parent", None)
                        if isinstance(loop, ast.For) and apps[0] in loop.body and not loop.orelse and not any(isinstance(x, (ast.Break, ast.Continue, ast.If)) for x in ast.walk(loop) if x is not loop):
                            r = elementwise(repo, fi, loop.iter, loop, sources, depth + 1)
                            if r is not None:
                                m = {}
                                _bind_target(loop.target, r[1], m)
                                # locals of the loop body assigned before the append
                                for st in loop.body:
                                    if st is apps[0]:
                                        break
                                    if isinstance(st, ast.Assign) and len(st.targets) == 1:
                                        _bind_target(st.targets[0], _SubNames(m).visit(clone_ast(st.value)), m)
                                return sources, complement_norm(_SubNames(m).visit(clone_ast(apps[0].value.args[0])))
        # a leaf: a parameter or an opaque local
        t = e.id
        if t not in sources:
            sources.append(t)
        return sources, _E(sources.index(t))
    if isinstance(e, ast.Attribute):
        t = xt(e)
        if t not in sources:
            sources.append(t)
        return sources, _E(sources.index(t))
    if isinstance(e, ast.Call) and not e.keywords and ast.unparse(e.func) not in ("enumerate", "sorted", "reversed", "filter", "set", "frozenset", "dict", "iter") and all(isinstance(a, (ast.Name, ast.Attribute, ast.Constant)) for a in e.args):
        # an iterable produced by a call (a generator function of the package): opaque, one element per item
        t = xt(e)
        if t not in sources:
            sources.append(t)
        return sources, _E(sources.index(t))
    return None


def element_alternatives(repo, fi: FunctionInfo, el: ast.AST, depth: int = 0) -> List[Tuple[tuple, ast.AST]]:
    """alternatives of an element expression: calls of repository helpers are
    replaced by what each of their non-raising paths returns"""
    from engine.util import clone_ast

    if depth > 3:
        return [((), el)]
    for c in ast.walk(el):
        if not isinstance(c, ast.Call):
            continue
        probe = c
        callee = resolve_call(repo, fi, probe)
        if callee is None or callee.name == "__init__":
            continue
        if any(isinstance(a, ast.Starred) for a in c.args) or any(k.arg is None for k in c.keywords):
            continue
        params = list(callee.named_params)
        if callee.cls is not None and callee.parent is None and params and params[0] in ("self", "cls"):
            if not any(isinstance(d, ast.Name) and d.id == "staticmethod" for d in callee.node.decorator_list):
                params = params[1:]
        b = bind(c, params)
        try:
            ps = [p for p in paths(callee, b) if p.ret != RAISE]
        except AnalysisError:
            continue
        out = []
        for p in ps:
            r = p.ret if isinstance(p.ret, ast.AST) else ast.Constant(None)

            class R(ast.NodeTransformer):
                def visit_Call(s_, n):
                    if n is c_copy_target[0]:
                        return clone_ast(r)
                    return s_.generic_visit(n)

            x = clone_ast(el)
            # locate the copy of c in x by position in walk order
            idx = [i for i, n in enumerate(ast.walk(el)) if n is c][0]
            c_copy_target = [list(ast.walk(x))[idx]]
            x = complement_norm(R().visit(x))
            for conds2, y in element_alternatives(repo, fi, x, depth + 1):
                out.append((tuple(p.conds) + tuple(conds2), y))
        if out:
            return out
    return [((), el)]


_PLAIN_DECORATORS = {"staticmethod", "classmethod", "property", "abstractmethod", "abc.abstractmethod", "functools.wraps", "wraps", "contextmanager", "contextlib.contextmanager"}
_MEMO_DECORATORS = {"lru_cache", "functools.lru_cache", "cache", "functools.cache", "cached_property", "functools.cached_property"}
_ITER_MAKERS = {"chain", "itertools.chain", "chain.from_iterable", "itertools.chain.from_iterable", "map", "filter", "zip", "iter", "enumerate", "reversed", "combinations", "combinations_w_r", "combinations_with_replacement", "itertools.combinations", "itertools.combinations_with_replacement", "itertools.product", "product", "itertools.islice", "islice"}


def check_decorators(ck, rule: str, fis) -> None:
    """decorators change what a call of the function means: a memoising decorator on a
    function that hands out a one-shot iterator (or a generator) gives the second caller an
    exhausted object; a decorator this analysis does not know makes the body no evidence."""
    for fi in fis:
        if fi is None:
            continue
        for d in getattr(fi.node, "decorator_list", []):
            name = ast.unparse(d.func if isinstance(d, ast.Call) else d)
            if name in _PLAIN_DECORATORS or name.endswith((".setter", ".getter", ".deleter")):
                continue
            if name in _MEMO_DECORATORS:
                rets = [r.value for r in own_nodes(fi.node) if isinstance(r, ast.Return) and r.value is not None]
                gen = any(isinstance(n, (ast.Yield, ast.YieldFrom)) for n in own_nodes(fi.node))
                one_shot = gen or any(isinstance(v, ast.GeneratorExp) or (isinstance(v, ast.Call) and ast.unparse(v.func) in _ITER_MAKERS) for v in rets)
                if one_shot:
                    ck.violated(rule, fi, f"@{ast.unparse(d)}", f"{fi.name} returns a one-shot iterator and is memoised by @{name}: the second call with the same arguments receives the object the first caller already consumed, so every loop over it runs zero times")
                else:
                    ck.unknown(rule, fi, f"@{ast.unparse(d)}", f"{fi.name} is memoised by @{name}: whether callers may share (and mutate) the returned object is not decided")
                continue
            ck.unknown(rule, fi, f"@{ast.unparse(d)}", f"decorator {name} is not known to this analysis: the body of {fi.name} is no evidence of what a call does")


def opaque_helpers_in(repo, fi: FunctionInfo, texts) -> List[str]:
    """names of functions of fi's module that the rule tables do not know (introduced by an
    edit) and that E-INL left as calls (a `return` inside a loop, recursion, ...), occurring
    in the given expression texts: what such a helper decides is not read by the rules"""
    known = repo.known_functions or set()
    out = []
    mod = fi.module
    for name, f in mod.functions.items():
        qn = f"{mod.name}:{name}"
        if qn in known:
            continue
        if any(re.search(r"\b" + re.escape(name) + r"\(", t) for t in texts):
            out.append(name)
    return sorted(out)


_MUTATING = {"append", "extend", "add", "update", "insert", "pop", "remove", "clear", "setdefault", "sort", "reverse", "discard", "appendleft", "popleft"}


def _has_mutable_display(v: ast.AST) -> bool:
    if isinstance(v, (ast.List, ast.Dict, ast.Set, ast.ListComp, ast.DictComp, ast.SetComp)):
        return True
    if isinstance(v, ast.Tuple):
        return any(_has_mutable_display(e) for e in v.elts)
    if isinstance(v, ast.Call) and isinstance(v.func, ast.Name) and v.func.id in ("list", "dict", "set", "defaultdict", "deque") :
        return True
    return False


def check_shared_mutables(ck, rule: str, fi: FunctionInfo) -> None:
    """`dict.fromkeys(keys, <mutable>)` and `[<mutable>] * n` make every entry the SAME object;
    when the function then mutates an entry (d[k].append(..), d[k][0].append(..), t[i][j] = ..)
    the change shows under every key"""
    for st in own_nodes(fi.node):
        if not (isinstance(st, ast.Assign) and len(st.targets) == 1 and isinstance(st.targets[0], ast.Name)):
            continue
        v, name = st.value, st.targets[0].id
        shared = None
        if isinstance(v, ast.Call) and ast.unparse(v.func) in ("dict.fromkeys", "OrderedDict.fromkeys", "collections.OrderedDict.fromkeys") and len(v.args) == 2 and _has_mutable_display(v.args[1]):
            shared = f"dict.fromkeys(.., {ast.unparse(v.args[1])})"
        if isinstance(v, ast.BinOp) and isinstance(v.op, ast.Mult):
            for a_, b_ in ((v.left, v.right), (v.right, v.left)):
                if isinstance(a_, ast.List) and len(a_.elts) == 1 and _has_mutable_display(a_.elts[0]):
                    shared = f"{ast.unparse(a_)} * {ast.unparse(b_)}"
        if shared is None:
            continue
        for n in own_nodes(fi.node):
            hit = None
            if isinstance(n, ast.Call) and isinstance(n.func, ast.Attribute) and n.func.attr in _MUTATING:
                base = n.func.value
                depth = 0
                while isinstance(base, ast.Subscript):
                    base, depth = base.value, depth + 1
                if depth >= 1 and isinstance(base, ast.Name) and base.id == name:
                    hit = n
            if isinstance(n, (ast.Assign, ast.AugAssign)):
                for t in (n.targets if isinstance(n, ast.Assign) else [n.target]):
                    base, depth = t, 0
                    while isinstance(base, ast.Subscript):
                        base, depth = base.value, depth + 1
                    if depth >= 2 and isinstance(base, ast.Name) and base.id == name:
                        hit = n
            if hit is not None:
                ck.violated(rule, fi, st, f"{name} = {shared}: every entry is one and the same object, and `{ast.unparse(hit)[:60]}` changes it in place: the update made for one key is seen under all the others")
                break


def share_clauses(ck, modname: str, mapping: Dict[str, Tuple[str, str]], keep=None) -> int:
    """Clauses decided for another property that are necessary conditions of this one as well
    (e.g. "fit does not write into an object held in a hyper-parameter" is part of C02 and of
    "a refit equals a fresh clone", C03): the other rule module is run on the same sources and
    the obligations of the listed rules are taken over under this property's rule ids.
    mapping: other rule id -> (own rule id, description); keep: optional filter on obligations."""
    import importlib
    from engine.report import Checker, Obligation

    sub = Checker(modname.upper(), "quick", ck.repo, quiet=True)
    try:
        importlib.import_module(f"rules.{modname}").run(sub)
        sub._decorator_guard()
        sub._shared_mutable_guard()
    except Exception as e:  # the other property's own anchors are its own business
        ck.notes.append(f"shared clauses of {modname.upper()} not evaluated: {type(e).__name__}: {e}")
        return 0
    n = 0
    for o in sub.obs:
        if o.rule not in mapping or (keep is not None and not keep(o)):
            continue
        rid, text = mapping[o.rule]
        ck.rule(rid, text + f" (clause {o.rule}, shared)")
        ck.obs.append(Obligation(rid, o.file, o.function, o.statement, o.verdict, o.detail, o.line, o.path, o.nontrivial))
        n += 1
    return n


def enumerate_to_index_form(loop: ast.For) -> bool:
    """`for i, v in enumerate(Y): .. v .. Y[i] = w` read as `for i in range(len(Y)): .. Y[i] .. Y[i] = w`
    (in place) when every read of v precedes the first store into Y[i]: the element variable
    is then the element itself.  Returns True when the loop was rewritten."""
    it = loop.iter
    if not (isinstance(it, ast.Call) and isinstance(it.func, ast.Name) and it.func.id == "enumerate" and len(it.args) == 1 and not it.keywords and isinstance(it.args[0], ast.Name)):
        return False
    if not (isinstance(loop.target, ast.Tuple) and len(loop.target.elts) == 2 and all(isinstance(e, ast.Name) for e in loop.target.elts)):
        return False
    Y, i, v = it.args[0].id, loop.target.elts[0].id, loop.target.elts[1].id
    first_store = None
    for n in ast.walk(loop):
        if isinstance(n, ast.Subscript) and isinstance(n.ctx, ast.Store) and isinstance(n.value, ast.Name) and n.value.id == Y:
            ln = (getattr(n, "lineno", 0), getattr(n, "col_offset", 0))
            first_store = ln if first_store is None or ln < first_store else first_store
        if isinstance(n, ast.Name) and isinstance(n.ctx, ast.Store) and n.id in (v, i) and n not in loop.target.elts:
            return False
    for n in ast.walk(loop):
        if isinstance(n, ast.Name) and n.id == v and isinstance(n.ctx, ast.Load) and first_store is not None:
            # a read on the statement of the store itself (its right-hand side) is evaluated before the store
            if (getattr(n, "lineno", 0),) > (first_store[0],):
                return False

    class _S(ast.NodeTransformer):
        def visit_Name(self, n):
            if n.id == v and isinstance(n.ctx, ast.Load):
                return ast.copy_location(ast.Subscript(value=ast.Name(id=Y, ctx=ast.Load()), slice=ast.Name(id=i, ctx=ast.Load()), ctx=ast.Load()), n)
            return n

    loop.body = [_S().visit(s) for s in loop.body]
    loop.target = ast.copy_location(ast.Name(id=i, ctx=ast.Store()), loop.target)
    loop.iter = ast.copy_location(ast.Call(func=ast.Name(id="range", ctx=ast.Load()), args=[ast.Call(func=ast.Name(id="len", ctx=ast.Load()), args=[ast.Name(id=Y, ctx=ast.Load())], keywords=[])], keywords=[]), loop.iter)
    ast.fix_missing_locations(loop)
    for node in ast.walk(loop):
        for child in ast.iter_child_nodes(node):
            child._parent = node  # type: ignore[attr-defined]
    return True


def dict_loop_to_comprehension(fi: FunctionInfo) -> int:
    """`D = {}; for T in IT: D[K] = V` read as `D = {K: V for T in IT}` (in place) when the loop
    follows the empty display directly, its body is that one store and K, V, IT do not read D."""
    count = 0
    for holder in ast.walk(fi.node):
        for fld in ("body", "orelse", "finalbody"):
            seq = getattr(holder, fld, None)
            if not isinstance(seq, list):
                continue
            i = 0
            while i + 1 < len(seq):
                a, b = seq[i], seq[i + 1]
                if (isinstance(a, ast.Assign) and len(a.targets) == 1 and isinstance(a.targets[0], ast.Name)
                        and ((isinstance(a.value, ast.Dict) and not a.value.keys) or (isinstance(a.value, ast.Call) and src_of(a.value.func) == "dict" and not a.value.args and not a.value.keywords))
                        and isinstance(b, ast.For) and not b.orelse and len(b.body) == 1 and isinstance(b.body[0], ast.Assign) and len(b.body[0].targets) == 1):
                    D = a.targets[0].id
                    t = b.body[0].targets[0]
                    if isinstance(t, ast.Subscript) and isinstance(t.value, ast.Name) and t.value.id == D:
                        reads = [n for e in (t.slice, b.body[0].value, b.iter) for n in ast.walk(e) if isinstance(n, ast.Name) and n.id == D]
                        if not reads:
                            comp = ast.DictComp(key=t.slice, value=b.body[0].value, generators=[ast.comprehension(target=b.target, iter=b.iter, ifs=[], is_async=0)])
                            a.value = ast.copy_location(comp, a.value)
                            ast.fix_missing_locations(a)
                            del seq[i + 1]
                            count += 1
                            continue
                i += 1
    if count:
        for node in ast.walk(fi.node):
            for child in ast.iter_child_nodes(node):
                child._parent = node  # type: ignore[attr-defined]
        drop_caches(fi)
    return count


def merge_side_list(fi: FunctionInfo) -> int:
    """`L = []; .. L.append(x) ..; R.extend(L)` read as `.. R.append(x) ..` (in place): a list born
    empty, only appended to (directly or through a bound `L.append` held in a local), and poured
    once into R, with no other use of R between the birth of L and the `extend`."""
    count = 0
    own = list(own_nodes(fi.node))
    for a in own:
        if not (isinstance(a, ast.Assign) and len(a.targets) == 1 and isinstance(a.targets[0], ast.Name) and isinstance(a.value, ast.List) and not a.value.elts):
            continue
        L = a.targets[0].id
        names = [n for n in own if isinstance(n, ast.Name) and n.id == L]
        if sum(1 for n in names if isinstance(n.ctx, ast.Store)) != 1:
            continue
        loads = [n for n in names if isinstance(n.ctx, ast.Load)]
        ext = None
        ok = True
        for n in loads:
            par = getattr(n, "_parent", None)
            if isinstance(par, ast.Attribute) and par.attr == "append" and par.value is n:
                continue
            if isinstance(par, ast.Call) and isinstance(par.func, ast.Attribute) and par.func.attr == "extend" and isinstance(par.func.value, ast.Name) and par.args == [n] and not par.keywords and isinstance(getattr(par, "_parent", None), ast.Expr) and ext is None:
                ext = par
                continue
            ok = False
        if not ok or ext is None:
            continue
        R = ext.func.value.id
        between = [n for n in own if isinstance(n, ast.Name) and n.id == R and a.lineno < getattr(n, "lineno", 0) < ext.lineno]
        if between or ext.lineno <= a.lineno:
            continue
        for n in loads:
            n.id = R
        for holder in ast.walk(fi.node):
            for fld in ("body", "orelse", "finalbody"):
                seq = getattr(holder, fld, None)
                if isinstance(seq, list):
                    seq[:] = [s_ for s_ in seq if s_ is not a and not (isinstance(s_, ast.Expr) and s_.value is ext)] or ([ast.Pass()] if seq else seq)
        count += 1
    if count:
        drop_caches(fi)
    return count


def fields_read_through_locals(fi: FunctionInfo) -> int:
    """`n = self.a` (bound once, at the top level of the function, `self.a` never stored in it, no
    method of self called after it) read as `self.a` wherever n is read (in place)."""
    count = 0
    body = fi.node.body
    own = list(own_nodes_incl_lambda(fi.node))
    for a in list(body):
        if not (isinstance(a, ast.Assign) and len(a.targets) == 1 and isinstance(a.targets[0], ast.Name) and isinstance(a.value, ast.Attribute) and isinstance(a.value.value, ast.Name) and a.value.value.id == "self"):
            continue
        n, attr = a.targets[0].id, a.value.attr
        if n in fi.named_params:
            continue
        if sum(1 for x in own if isinstance(x, ast.Name) and x.id == n and isinstance(x.ctx, (ast.Store, ast.Del))) != 1:
            continue
        if any(isinstance(x, ast.Attribute) and x.attr == attr and isinstance(x.ctx, (ast.Store, ast.Del)) and isinstance(x.value, ast.Name) and x.value.id == "self" for x in own):
            continue
        if any(isinstance(x, ast.Call) and isinstance(x.func, ast.Attribute) and isinstance(x.func.value, ast.Name) and x.func.value.id == "self" and getattr(x, "lineno", 0) >= a.lineno for x in own):
            continue
        if any(isinstance(x, ast.Call) and src_of(x.func) in ("setattr", "delattr") for x in own):
            continue
        for x in own:
            if isinstance(x, ast.Name) and x.id == n and isinstance(x.ctx, ast.Load):
                par = getattr(x, "_parent", None)
                new = ast.copy_location(ast.Attribute(value=ast.Name(id="self", ctx=ast.Load()), attr=attr, ctx=ast.Load()), x)
                ast.fix_missing_locations(new)
                if par is None:
                    continue
                for fld, val in ast.iter_fields(par):
                    if val is x:
                        setattr(par, fld, new)
                    elif isinstance(val, list):
                        for i_, y in enumerate(val):
                            if y is x:
                                val[i_] = new
                new._parent = par  # type: ignore[attr-defined]
                new.value._parent = new  # type: ignore[attr-defined]
        body.remove(a)
        count += 1
    if count:
        drop_caches(fi)
    return count


def drop_caches(fi: FunctionInfo) -> None:
    """forget what was computed about a function whose tree was just rewritten by a local
    normal form (reaching definitions, path conditions)"""
    for e in _ex.values():
        e._rd.pop(fi.qualname, None)
        e._carried_cache.clear()
    for key in ("_pathcond_x", "_pathcond"):
        if hasattr(fi.node, key):
            try:
                delattr(fi.node, key)
            except AttributeError:
                pass


def get_to_membership(fn: ast.AST) -> int:
    """`x = T.get(K)` / `if x is None: <leave>` / `.. x ..`  is read as  `if K not in T: <leave>` /
    `.. T[K] ..` (in place), for a name x bound once in the block and a table T that holds no
    None: looking a key up with .get and testing the result is a membership test"""
    count = 0
    for holder in ast.walk(fn):
        for fld in ("body", "orelse", "finalbody"):
            seq = getattr(holder, fld, None)
            if not isinstance(seq, list):
                continue
            i = 0
            while i + 1 < len(seq):
                a, b = seq[i], seq[i + 1]
                ok = (isinstance(a, ast.Assign) and len(a.targets) == 1 and isinstance(a.targets[0], ast.Name) and isinstance(a.value, ast.Call) and isinstance(a.value.func, ast.Attribute) and a.value.func.attr == "get" and len(a.value.args) == 1 and not a.value.keywords and isinstance(a.value.func.value, ast.Name)
                      and isinstance(b, ast.If) and isinstance(b.test, ast.Compare) and len(b.test.ops) == 1 and isinstance(b.test.ops[0], ast.Is) and isinstance(b.test.left, ast.Name) and b.test.left.id == a.targets[0].id and isinstance(b.test.comparators[0], ast.Constant) and b.test.comparators[0].value is None and not b.orelse
                      and b.body and isinstance(b.body[-1], (ast.Raise, ast.Return, ast.Continue, ast.Break)))
                if ok:
                    x, T, K = a.targets[0].id, a.value.func.value, a.value.args[0]
                    rest = seq[i + 2 :]
                    if not any(isinstance(n, ast.Name) and n.id == x and isinstance(n.ctx, (ast.Store, ast.Del)) for s_ in rest for n in ast.walk(s_)):
                        from engine.util import clone_ast

                        class _S(ast.NodeTransformer):
                            def visit_Name(self, n):
                                if n.id == x and isinstance(n.ctx, ast.Load):
                                    return ast.copy_location(ast.Subscript(value=clone_ast(T), slice=clone_ast(K), ctx=ast.Load()), n)
                                return n

                        b.test = ast.copy_location(ast.Compare(left=clone_ast(K), ops=[ast.NotIn()], comparators=[clone_ast(T)]), b.test)
                        seq[i : i + 2] = [b]
                        seq[i + 1 :] = [_S().visit(s_) for s_ in seq[i + 1 :]]
                        count += 1
                        continue
                i += 1
    if count:
        ast.fix_missing_locations(fn)
        for node in ast.walk(fn):
            for child in ast.iter_child_nodes(node):
                child._parent = node  # type: ignore[attr-defined]
    return count


def name_table_entries(fn: ast.AST) -> int:
    """`T = {"a": {}, "b": {}}` (a local table of fresh empty dicts, bound once) is read as
    `T__a = {}; T__b = {}; T = {"a": T__a, "b": T__b}` and `T["a"]` as `T__a` (in place): the
    entries get names, which is how tables of receivers are usually written"""
    count = 0
    stores: Dict[str, int] = {}
    for n in ast.walk(fn):
        if isinstance(n, ast.Name) and isinstance(n.ctx, (ast.Store, ast.Del)):
            stores[n.id] = stores.get(n.id, 0) + 1
    for holder in ast.walk(fn):
        for fld in ("body", "orelse", "finalbody"):
            seq = getattr(holder, fld, None)
            if not isinstance(seq, list):
                continue
            for i, st in enumerate(list(seq)):
                if isinstance(st, ast.Assign) and len(st.targets) == 1 and isinstance(st.targets[0], ast.Name) and stores.get(st.targets[0].id) == 1 and isinstance(st.value, ast.Dict) and st.value.keys and all(isinstance(k, ast.Constant) and isinstance(k.value, str) for k in st.value.keys) and all(isinstance(v, ast.Dict) and not v.keys for v in st.value.values):
                    T = st.targets[0].id
                    names = {k.value: f"{T}__{''.join(ch if ch.isalnum() else '_' for ch in k.value)}" for k in st.value.keys}
                    if len(set(names.values())) != len(names):
                        continue
                    pre = [ast.copy_location(ast.Assign(targets=[ast.Name(id=nm, ctx=ast.Store())], value=ast.Dict(keys=[], values=[])), st) for nm in names.values()]
                    st.value = ast.Dict(keys=[ast.Constant(k) for k in names], values=[ast.Name(id=nm, ctx=ast.Load()) for nm in names.values()])
                    idx = seq.index(st)
                    seq[idx:idx] = pre

                    class _S(ast.NodeTransformer):
                        def visit_Subscript(self, n):
                            self.generic_visit(n)
                            if isinstance(n.value, ast.Name) and n.value.id == T and isinstance(n.slice, ast.Constant) and n.slice.value in names and isinstance(n.ctx, ast.Load):
                                return ast.copy_location(ast.Name(id=names[n.slice.value], ctx=ast.Load()), n)
                            return n

                    for j in range(idx + len(pre) + 1, len(seq)):
                        seq[j] = _S().visit(seq[j])
                    count += 1
    if count:
        ast.fix_missing_locations(fn)
        for node in ast.walk(fn):
            for child in ast.iter_child_nodes(node):
                child._parent = node  # type: ignore[attr-defined]
    return count


def attribute_held_in_local(fn: ast.AST, attr: str) -> int:
    """`n = E; self.<attr> = n; .. n ..` is read as `self.<attr> = E; .. self.<attr> ..` (in place)
    when the local n is bound once and the attribute is stored once: the local is the attribute"""
    stores = [s for s in ast.walk(fn) if isinstance(s, ast.Assign) and len(s.targets) == 1 and isinstance(s.targets[0], ast.Attribute) and isinstance(s.targets[0].value, ast.Name) and s.targets[0].value.id == "self" and s.targets[0].attr == attr]
    if len(stores) != 1 or not isinstance(stores[0].value, ast.Name):
        return 0
    n = stores[0].value.id
    defs = [s for s in ast.walk(fn) if isinstance(s, ast.Assign) and len(s.targets) == 1 and isinstance(s.targets[0], ast.Name) and s.targets[0].id == n]
    if len(defs) != 1 or sum(1 for x in ast.walk(fn) if isinstance(x, ast.Name) and x.id == n and isinstance(x.ctx, ast.Store)) != 1:
        return 0
    d, st = defs[0], stores[0]
    par = getattr(d, "_parent", None)
    seq = next((getattr(par, f) for f in ("body", "orelse", "finalbody") if isinstance(getattr(par, f, None), list) and any(z is d for z in getattr(par, f))), None)
    if seq is None or not any(z is st for z in seq) or seq.index(st) != seq.index(d) + 1:
        return 0
    st.value = d.value
    seq.remove(d)

    class _S(ast.NodeTransformer):
        def visit_Name(self, x):
            if x.id == n and isinstance(x.ctx, ast.Load):
                return ast.copy_location(ast.Attribute(value=ast.Name(id="self", ctx=ast.Load()), attr=attr, ctx=ast.Load()), x)
            return x

    for i, z in enumerate(seq):
        if z is not st:
            seq[i] = _S().visit(z)
    ast.fix_missing_locations(fn)
    for node in ast.walk(fn):
        for child in ast.iter_child_nodes(node):
            child._parent = node  # type: ignore[attr-defined]
    return 1
