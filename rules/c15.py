"""C15 — learner-to-transformer wrappers are transparent (structural part).

  C15.a  SkBaseTransformLearner.transform returns the value of self.method_(X),
         changed only by the 1-D -> column reshape; _set_method maps each name to
         self.model.<same name>
  C15.b  SkBaseTransformStacking.transform is numpy.hstack of
         [m.transform(X) for m in self.models] in model order; both wrappers' fit
         forward X, y, kwargs unchanged to every wrapped model and return self
  C15.c  TransferTransformer: every .fit call is control-dependent on
         self.trainable and its receiver is self.estimator_; with copy_estimator
         that attribute comes from the copying helper; transform returns
         getattr(self.estimator_, self.method)(X) unchanged
"""

from __future__ import annotations

import ast
from typing import Dict, List

from engine.src import FunctionInfo, own_nodes, own_nodes_incl_lambda, src_of, AnalysisError
from engine.util import is_self_attr, kwarg, const_value, enclosing_tests
from engine.dataflow import ReachingDefs
from .c01 import returns_self_on_all_paths

RULES = {
    "C15.a": "learner wrapper: transform = method_(X) with only the 1-D -> column reshape; _set_method's name table maps each name to the model's bound method of the same name",
    "C15.b": "stacking wrapper: transform = hstack of members' transform in order; fit forwards X, y, kwargs to every wrapped model",
    "C15.c": "TransferTransformer: .fit only under self.trainable, on self.estimator_; copy_estimator uses the copying helper; transform returns the wrapped method's output unchanged",
}

LM = "mlinsights.sklapi.sklearn_base_transform_learner"
SM = "mlinsights.sklapi.sklearn_base_transform_stacking"
TM = "mlinsights.mlmodel.transfer_transformer"


def check_a(ck, repo):
    ci = repo.cls(LM, "SkBaseTransformLearner")
    tr, sm, fit = ci.methods["transform"], ci.methods["_set_method"], ci.methods["fit"]
    body = sorted((s for s in own_nodes(tr.node) if isinstance(s, (ast.Assign, ast.Return, ast.If, ast.AugAssign, ast.Expr)) and not (isinstance(s, ast.Expr) and isinstance(s.value, ast.Constant))), key=lambda s: s.lineno)
    t = [src_of(s) if not isinstance(s, ast.If) else "if " + src_of(s.test) for s in body]
    want = ["res = self.method_(X)", "if len(res.shape) == 1", "res = res[:, numpy.newaxis]", "return res"]
    ck.verdict(t == want, "C15.a", tr, " ; ".join(t), "output = method_(X), a 1-D result becomes one column, nothing else", f"transform does more (or less) than returning method_(X) with the 1-D -> column reshape: {t}")
    # _set_method table
    table: Dict[str, str] = {}
    for s in own_nodes(sm.node):
        if isinstance(s, ast.If) and isinstance(s.test, ast.Compare) and src_of(s.test.left) == sm.named_params[1] and isinstance(s.test.ops[0], ast.Eq):
            name = const_value(s.test.comparators[0])
            if isinstance(name, str) and len(s.body) == 1 and isinstance(s.body[0], ast.Assign):
                table[name] = src_of(s.body[0])
    for name in ("predict", "predict_proba", "decision_function", "transform"):
        got = table.get(name)
        ck.verdict(got == f"self.method_ = self.model.{name}", "C15.a", sm, f"'{name}' -> {got}", f"'{name}' binds the model's {name}", f"method name '{name}' is bound by `{got}`: transform would return another method's output")
    callable_branch = [s for s in own_nodes(sm.node) if isinstance(s, ast.If) and src_of(s.test) == f"callable({sm.named_params[1]})"]
    ck.verdict(len(callable_branch) == 1 and src_of(callable_branch[0].body[0]) == f"self.method_ = {sm.named_params[1]}", "C15.a", sm, "callable(method) -> self.method_ = method", "a callable is used as is", "callable methods are not stored as given")
    # fit
    calls = [c for c in own_nodes_incl_lambda(fit.node) if isinstance(c, ast.Call) and src_of(c.func) == "self.model.fit"]
    ok = len(calls) == 1 and [src_of(a) for a in calls[0].args] == ["X"] and src_of(kwarg(calls[0], "y")) == "y" and any(k.arg is None and src_of(k.value) == "kwargs" for k in calls[0].keywords)
    ck.verdict(ok, "C15.a", fit, calls[0] if calls else "self.model.fit(X, y=y, **kwargs)", "the wrapped model is trained exactly as a direct fit would", "fit does not forward (X, y=y, **kwargs) unchanged to the wrapped model")
    returns_self_on_all_paths(ck, "C15.a", fit, repo, "SkBaseTransformLearner.fit")
    # default method resolution in __init__ (order of preference documented: predict_proba, then predict, ...)
    init = ci.methods["__init__"]
    st = [src_of(s) for s in own_nodes(init.node) if isinstance(s, ast.Expr)]
    ck.verdict("self._set_method(method)" in st, "C15.a", init, "self._set_method(method)", "the bound method is set at construction", "constructor does not bind the method")


def check_b(ck, repo):
    ci = repo.cls(SM, "SkBaseTransformStacking")
    tr, fit = ci.methods["transform"], ci.methods["fit"]
    t = [src_of(s) for s in sorted((x for x in own_nodes(tr.node) if isinstance(x, (ast.Assign, ast.Return))), key=lambda x: x.lineno)]
    ck.verdict(t == ["Xs = [m.transform(X) for m in self.models]", "return numpy.hstack(Xs)"], "C15.b", tr, " ; ".join(t), "column concatenation of the members' outputs in model order", f"stacking transform is not hstack([m.transform(X) for m in self.models]): {t}")
    loops = [l for l in own_nodes(fit.node) if isinstance(l, ast.For)]
    ok = len(loops) == 1 and src_of(loops[0].iter) == "self.models" and len(loops[0].body) == 1 and src_of(loops[0].body[0]) == f"{src_of(loops[0].target)}.fit(X, y=y, **kwargs)"
    ck.verdict(ok, "C15.b", fit, loops[0] if loops else "for m in self.models: m.fit(X, y=y, **kwargs)", "every member is trained on (X, y, kwargs) unchanged", "fit does not train every member with (X, y=y, **kwargs)")
    returns_self_on_all_paths(ck, "C15.b", fit, repo, "SkBaseTransformStacking.fit")
    # conversion keeps order: res = list(map(lambda c: convert2transform(c, new_learners), zip(models, method)))
    init = ci.methods["__init__"]
    conv = [s for s in own_nodes(init.node) if isinstance(s, ast.Assign) and src_of(s.targets[0]) == "res"]
    ck.verdict(len(conv) == 1 and src_of(conv[0].value) == "list(map(lambda c: convert2transform(c, new_learners), zip(models, method)))", "C15.b", init, conv[0] if conv else "res = list(map(...zip(models, method)))", "models are converted one by one, in order, with their own method", "the conversion of learners into transforms no longer pairs model i with method i in order")
    c2t = repo.nested(init, "convert2transform")
    r = sorted(src_of(x.value) for x in own_nodes(c2t.node) if isinstance(x, ast.Return))
    ck.verdict(r == sorted(["m", "res", "m", "res"]), "C15.b", c2t, f"returns {r}", "a transform is kept, a learner is wrapped", f"convert2transform returns {r}")
    wraps = sorted(src_of(c) for c in own_nodes_incl_lambda(c2t.node) if isinstance(c, ast.Call) and src_of(c.func) == "SkBaseTransformLearner")
    ck.verdict(wraps == sorted(["SkBaseTransformLearner(m.model, me)", "SkBaseTransformLearner(m, me)"]), "C15.b", c2t, f"{wraps}", "learners are wrapped with the requested method", f"wrapping calls are {wraps}")


def check_c(ck, repo):
    ci = repo.cls(TM, "TransferTransformer")
    fit, tr = ci.methods["fit"], ci.methods["transform"]
    calls = [c for c in own_nodes_incl_lambda(fit.node) if isinstance(c, ast.Call) and isinstance(c.func, ast.Attribute) and c.func.attr in ("fit", "partial_fit", "fit_transform", "fit_predict")]
    if not calls:
        ck.unknown("C15.c", fit, ".fit(...)", "no fit call found (trainable has no effect?)")
    for c in calls:
        tests = enclosing_tests(c, fit.node)
        guarded = any(is_self_attr(t, "trainable") and pol for t, pol in tests)
        ck.verdict(guarded, "C15.c", fit, c, "the wrapped estimator is refitted only when trainable", "a .fit call is reachable when trainable is False: fit changes the wrapped estimator and its predictions")
        ck.verdict(src_of(c.func.value) == "self.estimator_", "C15.c", fit, f"receiver {src_of(c.func.value)}", "the object trained is estimator_ (the copy when copy_estimator)", f"{src_of(c.func.value)} is trained instead of self.estimator_: with copy_estimator the original object is modified")
    # data forwarded unchanged
    sigs = sorted(", ".join(src_of(a) for a in c.args) + "|" + ",".join(f"{k.arg}={src_of(k.value)}" for k in c.keywords) for c in calls)
    ck.verdict(sigs == sorted(["X, y, sample_weight|", "X, y|", "X|sample_weight=sample_weight", "X|"]), "C15.c", fit, f"fit argument forms {sigs}", "X, y, sample_weight forwarded unchanged according to the wrapped signature", f"fit call forms changed: {sigs}")
    # estimator_ provenance
    asg = [s for s in own_nodes(fit.node) if isinstance(s, ast.Assign) and any(is_self_attr(t, "estimator_") for t in s.targets)]
    by_guard = {}
    for s in asg:
        tests = enclosing_tests(s, fit.node)
        g = [pol for t, pol in tests if is_self_attr(t, "copy_estimator")]
        by_guard[g[0] if g else None] = src_of(s.value)
    ck.verdict(by_guard.get(True) == "clone_with_fitted_parameters(self.estimator)", "C15.c", fit, f"copy_estimator -> {by_guard.get(True)}", "with copy_estimator the wrapped estimator is deep-copied with its fitted state", "with copy_estimator=True estimator_ is not a fitted copy of the estimator: the original object can be modified")
    ck.verdict(by_guard.get(False) == "self.estimator", "C15.c", fit, f"no copy -> {by_guard.get(False)}", "without copy the given object is used", "without copy_estimator estimator_ is not the given estimator")
    ck.verdict(set(by_guard) == {True, False}, "C15.c", fit, "estimator_ assigned in both branches of copy_estimator", "estimator_ is set on every path", "estimator_ is not assigned on every path of fit (stale copy from a previous fit)")
    # no other write to self.estimator / its attributes
    other = [s for s in own_nodes(fit.node) if isinstance(s, (ast.Assign, ast.AugAssign)) and any(src_of(t).startswith("self.estimator.") or src_of(t) == "self.estimator" for t in (s.targets if isinstance(s, ast.Assign) else [s.target]))]
    ck.verdict(not other, "C15.c", fit, other[0] if other else "no write to self.estimator", "the hyper-parameter object is never written", "fit writes into the estimator given as hyper-parameter")
    returns_self_on_all_paths(ck, "C15.c", fit, repo, "TransferTransformer.fit")
    t = [src_of(s) for s in sorted((x for x in own_nodes(tr.node) if isinstance(x, (ast.Assign, ast.Return))), key=lambda x: x.lineno)]
    ck.verdict(t == ["meth = getattr(self.estimator_, self.method)", "return meth(X)"], "C15.c", tr, " ; ".join(t), "output is exactly the wrapped method's output", f"transform is not getattr(self.estimator_, self.method)(X): {t}")
    # the copying helper does not alias (decided by C04.c); the default method preference order
    init = ci.methods["__init__"]
    order = [const_value(s.test.args[1]) for s in own_nodes(init.node) if isinstance(s, ast.If) and isinstance(s.test, ast.Call) and src_of(s.test.func) == "hasattr" and src_of(s.test.args[0]) == "estimator"]
    order = sorted(order, key=lambda x: ["transform", "predict_proba", "decision_function", "predict"].index(x) if x in ["transform", "predict_proba", "decision_function", "predict"] else 99)
    chain = []
    cur = [s for s in own_nodes(init.node) if isinstance(s, ast.If) and src_of(s.test) == "method is None"]
    if cur:
        node = cur[0].body[0]
        while isinstance(node, ast.If):
            chain.append((const_value(node.test.args[1]) if isinstance(node.test, ast.Call) else None, src_of(node.body[0])))
            node = node.orelse[0] if node.orelse else None
    ok = [c[0] for c in chain] == ["transform", "predict_proba", "decision_function", "predict"] and all(c[1] == f"method = '{c[0]}'" for c in chain)
    ck.verdict(ok, "C15.c", init, f"default method chain {chain}", "default method: transform, predict_proba, decision_function, predict — each test sets its own name", "default method resolution sets a name different from the attribute it tested")


def run(ck):
    repo = ck.repo
    for k, v in RULES.items():
        ck.rule(k, v)
    check_a(ck, repo)
    check_b(ck, repo)
    check_c(ck, repo)
    # shared clauses: the bound method follows the model (C01.g), the copy used by
    # TransferTransformer(copy_estimator=True) shares nothing with the original (C04.c)
    from .c01 import check_g
    from .c04 import check_c as copies_only

    check_g(ck, repo, rule="C15.a", only={"SkBaseTransformLearner"})
    copies_only(ck, repo, rule="C15.c")
    ck.require_count("C15.a", 6, "transform shape, 4 table entries, callable, fit forwarding, returns self, constructor binding")
    ck.require_count("C15.b", 3, "transform, fit loop, returns self, conversion x3")
    ck.require_count("C15.c", 12, "4 fit calls x (guard, receiver), forms, provenance x3, no writes, returns self, transform, default chain")


_L = "mlinsights/sklapi/sklearn_base_transform_learner.py"
_S = "mlinsights/sklapi/sklearn_base_transform_stacking.py"
_T = "mlinsights/mlmodel/transfer_transformer.py"
WITNESSES = [
    {"name": "learner-table-crossed", "file": _L, "rule": "C15.a", "old": '            elif method == "decision_function":\n                self.method_ = self.model.decision_function\n', "new": '            elif method == "decision_function":\n                self.method_ = self.model.predict_proba\n'},
    {"name": "learner-transform-rounds", "file": _L, "rule": "C15.a", "old": "        res = self.method_(X)\n        if len(res.shape) == 1:\n", "new": "        res = self.method_(X).astype(numpy.float32)\n        if len(res.shape) == 1:\n"},
    {"name": "learner-fit-drops-kwargs", "file": _L, "rule": "C15.a", "old": "        self.model.fit(X, y=y, **kwargs)\n", "new": "        self.model.fit(X, y=y)\n"},
    {"name": "learner-reshape-row", "file": _L, "rule": "C15.a", "old": "            res = res[:, numpy.newaxis]\n", "new": "            res = res[numpy.newaxis, :]\n"},
    {"name": "stacking-reversed", "file": _S, "rule": "C15.b", "old": "        Xs = [m.transform(X) for m in self.models]\n", "new": "        Xs = [m.transform(X) for m in reversed(self.models)]\n"},
    {"name": "stacking-vstack", "file": _S, "rule": "C15.b", "old": "        return numpy.hstack(Xs)\n", "new": "        return numpy.vstack(Xs)\n"},
    {"name": "stacking-fit-skips-first", "file": _S, "rule": "C15.b", "old": "        for m in self.models:\n            m.fit(X, y=y, **kwargs)\n", "new": "        for m in self.models[1:]:\n            m.fit(X, y=y, **kwargs)\n"},
    {"name": "transfer-fit-always", "file": _T, "rule": "C15.c", "old": "        if self.trainable:\n            insp", "new": "        if self.trainable or not self.copy_estimator:\n            insp"},
    {"name": "transfer-trains-original", "file": _T, "rule": "C15.c", "old": "                self.estimator_.fit(X, y)\n", "new": "                self.estimator.fit(X, y)\n"},
    {"name": "transfer-copy-is-alias", "file": _T, "rule": "C15.c", "old": "            self.estimator_ = clone_with_fitted_parameters(self.estimator)\n", "new": "            self.estimator_ = self.estimator\n"},
    {"name": "transfer-transform-other-object", "file": _T, "rule": "C15.c", "old": "        meth = getattr(self.estimator_, self.method)\n", "new": "        meth = getattr(self.estimator, self.method)\n"},
    {"name": "transfer-default-method-mismatch", "file": _T, "rule": "C15.c", "old": '            elif hasattr(estimator, "decision_function"):\n                method = "decision_function"\n', "new": '            elif hasattr(estimator, "decision_function"):\n                method = "predict"\n'},
]
TWINS = []
MIN_WITNESSES = 10
