"""C15 — learner-to-transformer wrappers are transparent (structural part).

  C15.a  SkBaseTransformLearner.transform returns the value of self.method_(X),
         changed only by the 1-D -> column reshape; _set_method maps each name to
         self.model.<same name>
  C15.b  SkBaseTransformStacking.transform is numpy.hstack of
         [m.transform(X) for m in self.models] in model order; both wrappers' fit
         forward X, y, kwargs unchanged to every wrapped model and return self
  C15.c  TransferTransformer: every .fit call is control-dependent on
         self.trainable and its receiver is self.estimator_; with copy_estimator
         that attribute comes from the copying helper; transform returns
         getattr(self.estimator_, self.method)(X) unchanged
"""

from __future__ import annotations

import ast
from typing import Dict, List

from engine.src import FunctionInfo, own_nodes, own_nodes_incl_lambda, src_of, AnalysisError
from engine.util import is_self_attr, kwarg, const_value, enclosing_tests
from engine.dataflow import ReachingDefs
from .c01 import returns_self_on_all_paths
from .sem import split_ifexp, truth_of, expander, ctext, want, xt, cond_want, conds_at, bind, calls, returns, stmt_of, self_attr_value_texts, guarded_values, paths, RAISE
from engine.guards import cond_text

RULES = {
    "C15.a": "learner wrapper: transform = method_(X) with only the 1-D -> column reshape; _set_method's name table maps each name to the model's bound method of the same name",
    "C15.b": "stacking wrapper: transform = hstack of members' transform in order; fit forwards X, y, kwargs to every wrapped model",
    "C15.c": "TransferTransformer: .fit only under self.trainable, on self.estimator_; copy_estimator uses the copying helper; transform returns the wrapped method's output unchanged",
}

LM = "mlinsights.sklapi.sklearn_base_transform_learner"
SM = "mlinsights.sklapi.sklearn_base_transform_stacking"
TM = "mlinsights.mlmodel.transfer_transformer"


def _fit_forward(ck, rule, repo, fi, call, recv_ok: bool, what: str):
    """the wrapped model's fit receives (X, y=y, **kwargs) unchanged"""
    ok = recv_ok and call is not None
    if ok:
        a = [src_of(x) for x in call.args]
        kw = {k.arg: src_of(k.value) for k in call.keywords}
        X, y = fi.named_params[1], fi.named_params[2]
        okx = a[:1] == [X] or kw.get("X") == X
        oky = (len(a) > 1 and a[1] == y) or kw.get("y") == y
        okk = any(k.arg is None and src_of(k.value) == (fi.node.args.kwarg.arg if fi.node.args.kwarg else "kwargs") for k in call.keywords)
        ok = okx and oky and okk and len(a) <= 2
    ck.verdict(ok, rule, fi, call if call is not None else f"{what}.fit(X, y=y, **kwargs)", "the wrapped model is trained exactly as a direct fit would", "fit does not forward (X, y=y, **kwargs) unchanged to the wrapped model")


def check_a(ck, repo):
    ci = repo.cls(LM, "SkBaseTransformLearner")
    tr, sm, fit = ci.methods["transform"], ci.methods["_set_method"], ci.methods["fit"]
    # transform: method_(X), a 1-D result becomes one column, nothing else
    X = tr.named_params[1]
    M = f"self.method_({X})"
    one_d = cond_text(f"len({M}.shape) == 1")
    alt_1d = {cond_text(f"{M}.ndim == 1")}
    ps = split_ifexp(paths(tr))
    ok = bool(ps)
    seen = set()
    for p in ps:
        r = p.ret_text()
        facts = set(p.conds)
        is1 = one_d in facts or bool(alt_1d & facts)
        isn = (one_d[0], False) in facts or any((a[0], False) in facts for a in alt_1d)
        if is1 and r in (ctext(f"{M}[:, numpy.newaxis]"), ctext(f"{M}[:, None]"), ctext(f"{M}.reshape((-1, 1))"), ctext(f"{M}.reshape(-1, 1)")) and len(facts) == 1:
            seen.add("col")
        elif isn and r == ctext(M) and len(facts) == 1:
            seen.add("asis")
        else:
            ok = False
    ck.verdict(ok and seen == {"col", "asis"}, "C15.a", tr, " ; ".join(f"{sorted(p.conds)} -> {p.ret_text()}" for p in ps)[:200], "output = method_(X), a 1-D result becomes one column, nothing else", f"transform does more (or less) than returning method_(X) with the 1-D -> column reshape: {[(sorted(p.conds), p.ret_text()) for p in ps]}")
    # _set_method: each name binds the model's method of the same name
    mp = sm.named_params[1]
    for name in ("predict", "predict_proba", "decision_function", "transform"):
        ps = paths(sm, {mp: name})
        got = [ast.unparse(p.stores.get("self.method_")) if "self.method_" in p.stores else (p.raised or "nothing") for p in ps]
        ck.verdict(got == [f"self.model.{name}"], "C15.a", sm, f"'{name}' -> {got}", f"'{name}' binds the model's {name}", f"method name '{name}' is bound to {got}: transform would return another method's output")
    # a callable is stored as given (evaluated with an opaque, callable argument)
    ps = [p for p in paths(sm) if (f"callable({mp})", True) in p.conds and (f"isinstance({mp}, str)", False) in p.conds]
    got = [ast.unparse(p.stores.get("self.method_")) if "self.method_" in p.stores else (p.raised or "nothing") for p in ps]
    ck.verdict(got == [mp], "C15.a", sm, f"callable(method) -> {got}", "a callable is used as is", "callable methods are not stored as given")
    # fit
    cs = calls(fit, lambda c: isinstance(c.func, ast.Attribute) and c.func.attr == "fit")
    _fit_forward(ck, "C15.a", repo, fit, cs[0] if len(cs) == 1 else None, len(cs) == 1 and expander(repo).text(cs[0].func.value, fit, cs[0]) == "self.model" and not conds_at(repo, fit, cs[0]), "self.model")
    returns_self_on_all_paths(ck, "C15.a", fit, repo, "SkBaseTransformLearner.fit")
    # the bound method is set at construction, from the resolved method name
    init = ci.methods["__init__"]
    sc = calls(init, lambda c: src_of(c.func) == "self._set_method")
    okc = len(sc) == 1 and len(sc[0].args) == 1 and not [c_ for c_ in conds_at(repo, init, sc[0]) if "method" not in c_[0] and "model" not in c_[0]]
    ck.verdict(okc, "C15.a", init, sc[0] if sc else "self._set_method(method)", "the bound method is set at construction", "constructor does not bind the method")


def check_b(ck, repo):
    ci = repo.cls(SM, "SkBaseTransformStacking")
    tr, fit = ci.methods["transform"], ci.methods["fit"]
    X = tr.named_params[1]
    from .sem import elementwise

    ps = paths(tr)
    okt = False
    rets = [r_ for r_ in own_nodes(tr.node) if isinstance(r_, ast.Return) and r_.value is not None]
    if len(ps) == 1 and not ps[0].conds and len(rets) == 1:
        r = rets[0].value
        if isinstance(r, ast.Call) and ast.unparse(r.func) in ("numpy.hstack", "numpy.column_stack") and len(r.args) == 1 and not r.keywords:
            ew = elementwise(repo, tr, r.args[0], rets[0])
            okt = ew is not None and ew[0] == ["self.models"] and xt(ew[1]) == f"__e0.transform({X})"
    ck.verdict(okt, "C15.b", tr, ps[0].ret_text() if ps else "transform", "column concatenation of the members' outputs in model order", f"stacking transform is not hstack([m.transform(X) for m in self.models]): {[p.ret_text() for p in ps]}")
    loops = [l for l in own_nodes(fit.node) if isinstance(l, ast.For)]
    ok = len(loops) == 1 and src_of(loops[0].iter) == "self.models" and isinstance(loops[0].target, ast.Name)
    call = None
    if ok:
        cs = [c for c in ast.walk(loops[0]) if isinstance(c, ast.Call) and isinstance(c.func, ast.Attribute) and c.func.attr == "fit"]
        ok = len(cs) == 1 and src_of(cs[0].func.value) == loops[0].target.id and conds_at(repo, fit, cs[0]) == conds_at(repo, fit, loops[0].body[0]) and not conds_at(repo, fit, loops[0])
        call = cs[0] if cs else None
    _fit_forward(ck, "C15.b", repo, fit, call, ok, "member")
    returns_self_on_all_paths(ck, "C15.b", fit, repo, "SkBaseTransformStacking.fit")
    # conversion keeps order and pairs model i with method i
    init = ci.methods["__init__"]
    ex = expander(repo)
    from .sem import elementwise, element_alternatives

    M, ME = init.named_params[1], init.named_params[2]
    stores = [st for st, _ in self_attr_value_texts(repo, init, "models")]
    kept = converted = 0
    for st in stores:
        r = elementwise(repo, init, st.value, st) if isinstance(st, ast.Assign) else None
        if r is None:
            ck.violated("C15.b", init, st, "self.models is not built element by element from the given models: member i is not (a wrapper of) models[i]")
            continue
        srcs, el = r
        if srcs == [M] and xt(el) == "__e0":
            kept += 1
            ck.holds("C15.b", init, st, "the given list is kept as it is", nontrivial=False)
            continue
        alts = element_alternatives(repo, init, el)
        E0, E1 = "__e0", "__e1"
        allowed = {E0, ctext(f"SkBaseTransformLearner({E0}.model, {E1})"), ctext(f"SkBaseTransformLearner({E0}, {E1})")}
        got = sorted(set(xt(a) for _, a in alts))
        ok = srcs[:1] == [M] and len(srcs) == 2 and set(got) <= allowed and len(got) >= 2
        # one method for every model: the methods are not a sequence of their own
        allowed1 = {E0, ctext(f"SkBaseTransformLearner({E0}.model, {ME})"), ctext(f"SkBaseTransformLearner({E0}, {ME})")}
        if srcs == [M] and set(got) <= allowed1 and len(got) >= 2:
            converted += 1
            ck.holds("C15.b", init, st, f"member i is models[i] itself or SkBaseTransformLearner(models[i] or its model, {ME})")
            continue
        # the second sequence is the list of methods: the parameter itself or one copy of it per model
        if ok:
            ms = [xt(v) for _, v, _ in guarded_values(repo, init, ast.Name(id=srcs[1], ctx=ast.Load()), st)] if srcs[1] != ME else [ME]
            ok = all(t == ME or t.replace(" ", "") in (f"[{ME}for_c0in{M}]", f"[{ME}]*len({M})", f"len({M})*[{ME}]") or t.startswith("[") for t in ms)
        converted += 1
        ck.verdict(ok, "C15.b", init, st, "member i is models[i] itself or SkBaseTransformLearner(models[i] or its model, method[i])", f"the conversion of learners into transforms no longer pairs model i with method i: element i of self.models is one of {got} over the sequences {srcs}")
    ck.verdict(converted >= 1, "C15.b", init, f"self.models assigned {len(stores)} times ({kept} kept, {converted} converted)", "learners are converted into transforms", "no conversion of learners into transforms found in the constructor")


def _parents(n):
    p = getattr(n, "_parent", None)
    while p is not None:
        yield p
        p = getattr(p, "_parent", None)


def check_c(ck, repo):
    ci = repo.cls(TM, "TransferTransformer")
    fit, tr = ci.methods["fit"], ci.methods["transform"]
    ex = expander(repo)
    X, y, sw = fit.named_params[1:4]
    FITS = ("fit", "partial_fit", "fit_transform", "fit_predict")
    forms = set()
    n_calls = 0
    SIG_Y = "'y' in inspect.signature(self.estimator_.fit).parameters"
    SIG_W = "'sample_weight' in inspect.signature(self.estimator_.fit).parameters"
    # a bound fit method used as a value (not called on the spot, not inspected)
    handed = [n for n in own_nodes_incl_lambda(fit.node) if isinstance(n, ast.Attribute) and n.attr in FITS and isinstance(n.ctx, ast.Load)
              and not (isinstance(getattr(n, "_parent", None), ast.Call) and n._parent.func is n)
              and not (isinstance(getattr(n, "_parent", None), ast.Call) and src_of(n._parent.func) in ("inspect.signature", "signature", "hasattr", "callable"))]
    undecided_forms = False
    for trainable in (True, False):
        for p in [p for p in paths(fit, {"self.trainable": trainable}) if p.ret != RAISE]:
            cs = [c for c in p.calls if isinstance(c.func, ast.Attribute) and c.func.attr in FITS]
            where = " and ".join(t if pol else f"not ({t})" for t, pol in p.conds) or "always"
            if not trainable:
                ck.verdict(not cs, "C15.c", fit, f"trainable=False [{where[:80]}]: {[src_of(c)[:40] for c in cs]}", "the wrapped estimator is refitted only when trainable", "a .fit call is reachable when trainable is False: fit changes the wrapped estimator and its predictions")
                continue
            if len(cs) == 0 and handed:
                ck.unknown("C15.c", fit, f"trainable=True [{where[:80]}]", f"the bound method {src_of(handed[0])} is handed over as a value ({src_of(stmt_of(handed[0]))[:60]}): the call is made elsewhere (a table of callables, a helper), where this rule does not follow it")
                n_calls += 1
                undecided_forms = True
                continue
            if len(cs) != 1:
                ck.violated("C15.c", fit, f"trainable=True [{where[:80]}]", f"{len(cs)} fit calls on a path of a trainable transfer (expected exactly one)")
                continue
            c = cs[0]
            n_calls += 1
            ck.verdict(src_of(c.func.value) == "self.estimator_", "C15.c", fit, f"receiver {src_of(c.func.value)} [{where[:60]}]", "the object trained is estimator_ (the copy when copy_estimator)", f"{src_of(c.func.value)} is trained instead of self.estimator_: with copy_estimator the original object is modified")
            takes_y, takes_w = truth_of(p.conds, SIG_Y), truth_of(p.conds, SIG_W)
            if takes_y is False and takes_w is None:
                pass
            if any(isinstance(a, ast.Starred) for a in c.args) or any(k.arg is None for k in c.keywords):
                ck.unknown("C15.c", fit, c, "arguments of the wrapped fit are passed through a container the evaluation cannot open")
                continue
            b = bind(c, ["X", "y", "sample_weight"])
            got = {k: src_of(v) for k, v in b.items()}
            want_ = {"X": X}
            if takes_y:
                want_["y"] = y
            if takes_w:
                want_["sample_weight"] = sw
            if takes_y is None or takes_w is None:
                # a path that did not need one of the two tests: both answers must be acceptable
                ok = got.get("X") == X and (("y" in got) == bool(takes_y) if takes_y is not None else True) and (("sample_weight" in got) == bool(takes_w) if takes_w is not None else True) and all(got[k] == {"X": X, "y": y, "sample_weight": sw}[k] for k in got)
                forms.add((takes_y, takes_w))
                ck.verdict(ok and takes_y is not None and takes_w is not None, "C15.c", fit, f"{src_of(c)} where {where[:80]}", "X, y, sample_weight forwarded according to the wrapped signature", f"the wrapped fit receives {got} on a path that does not test the wrapped signature for both y and sample_weight")
                continue
            forms.add((takes_y, takes_w))
            ck.verdict(got == want_, "C15.c", fit, f"{src_of(c)} where takes_y={takes_y}, takes_weight={takes_w}", "X, y, sample_weight forwarded unchanged according to the wrapped signature", f"the wrapped fit receives {got} where its signature {'has' if takes_y else 'lacks'} y and {'has' if takes_w else 'lacks'} sample_weight: expected {want_}")
    if n_calls == 0:
        ck.unknown("C15.c", fit, ".fit(...)", "no fit call found (trainable has no effect?)")
    from engine.report import UNKNOWN as _UNK

    unopened = [o for o in ck.obs if o.rule == "C15.c" and o.verdict == _UNK and "container" in (o.detail or "")]
    if not forms and (unopened or undecided_forms):
        pass  # the call arguments travel in containers the evaluation could not open: reported above as unknown
    else:
      ck.verdict(forms == {(True, True), (True, False), (False, True), (False, False)}, "C15.c", fit, f"signature cases {sorted(forms, key=str)}", "all four signature cases of the wrapped fit are handled", f"fit call forms changed: cases {sorted(forms, key=str)}")
    # estimator_ provenance
    T, F = cond_text("self.copy_estimator"), cond_text("self.copy_estimator", False)
    by_guard = {}
    for st, txt in self_attr_value_texts(repo, fit, "estimator_"):
        conds = conds_at(repo, fit, st)
        for c_, x_, _ in guarded_values(repo, fit, st.value, st, conds) if isinstance(st, ast.Assign) and len(st.targets) == 1 else [(conds, None, st)]:
            key = True if T in c_ else (False if F in c_ else None)
            by_guard[key] = xt(x_) if x_ is not None else txt
    ck.verdict(by_guard.get(True) == "clone_with_fitted_parameters(self.estimator)", "C15.c", fit, f"copy_estimator -> {by_guard.get(True)}", "with copy_estimator the wrapped estimator is deep-copied with its fitted state", "with copy_estimator=True estimator_ is not a fitted copy of the estimator: the original object can be modified")
    ck.verdict(by_guard.get(False) == "self.estimator", "C15.c", fit, f"no copy -> {by_guard.get(False)}", "without copy the given object is used", "without copy_estimator estimator_ is not the given estimator")
    ck.verdict(set(by_guard) == {True, False}, "C15.c", fit, "estimator_ assigned in both branches of copy_estimator", "estimator_ is set on every path", "estimator_ is not assigned on every path of fit (stale copy from a previous fit)")
    other = [s for s in own_nodes(fit.node) if isinstance(s, (ast.Assign, ast.AugAssign)) and any(src_of(t).startswith("self.estimator.") or src_of(t) == "self.estimator" for t in (s.targets if isinstance(s, ast.Assign) else [s.target]))]
    ck.verdict(not other, "C15.c", fit, other[0] if other else "no write to self.estimator", "the hyper-parameter object is never written", "fit writes into the estimator given as hyper-parameter")
    returns_self_on_all_paths(ck, "C15.c", fit, repo, "TransferTransformer.fit")
    ps = paths(tr)
    Xt = tr.named_params[1]
    got = [(sorted(p.conds), p.ret_text()) for p in ps]
    ck.verdict(got == [([], f"getattr(self.estimator_, self.method)({Xt})")], "C15.c", tr, f"{got}", "output is exactly the wrapped method's output", f"transform is not getattr(self.estimator_, self.method)(X): {got}")
    # default method: the first of transform, predict_proba, decision_function, predict the estimator has
    init = ci.methods["__init__"]
    order = ["transform", "predict_proba", "decision_function", "predict"]
    ps = [p for p in paths(init, {"method": None}) if p.ret != RAISE]
    okd = True
    seen = []
    for p in ps:
        m = p.stores.get("self.method")
        if not (isinstance(m, ast.Constant) and isinstance(m.value, str)):
            okd = False
            continue
        name = m.value
        has = {t.split("'")[1]: pol for t, pol in p.conds if t.startswith("hasattr(estimator, '")}
        # the chosen name is one the estimator has, and every preferred name before it is absent
        okd = okd and name in order and has.get(name) is True and all(has.get(o) is False for o in order[: order.index(name)])
        seen.append(name)
    ck.verdict(okd and sorted(seen) == sorted(order), "C15.c", init, f"default method by paths: {seen}", "default method: transform, predict_proba, decision_function, predict - each test sets its own name", "default method resolution sets a name different from the attribute it tested, or the preference order changed")


def check_fit_kwargs(ck, repo):
    """the wrappers train the wrapped model as a direct fit would: the fitting parameters they
    receive are handed on as they are"""
    for mod_, cname in (("mlinsights.sklapi.sklearn_base_transform_learner", "SkBaseTransformLearner"), ("mlinsights.sklapi.sklearn_base_transform_stacking", "SkBaseTransformStacking")):
        try:
            ci = repo.cls(mod_, cname)
        except Exception:
            continue
        fit = ci.methods.get("fit")
        if fit is None or fit.node.args.kwarg is None:
            continue
        kw = fit.node.args.kwarg.arg
        reb = [s_ for s_ in own_nodes(fit.node) if isinstance(s_, (ast.Assign, ast.AugAssign, ast.Delete)) and any(isinstance(t_, ast.Name) and t_.id == kw for t_ in (s_.targets if isinstance(s_, (ast.Assign, ast.Delete)) else [s_.target]))]
        pops = [c_ for c_ in own_nodes(fit.node) if isinstance(c_, ast.Call) and isinstance(c_.func, ast.Attribute) and src_of(c_.func.value) == kw and c_.func.attr in ("pop", "clear", "popitem", "update", "setdefault")]
        fwd = [c_ for c_ in own_nodes(fit.node) if isinstance(c_, ast.Call) and isinstance(c_.func, ast.Attribute) and c_.func.attr == "fit" and any(k_.arg is None and src_of(k_.value) == kw for k_ in c_.keywords)]
        ck.verdict(bool(fwd) and not reb and not pops, "C15.a", fit, (reb or pops or fwd or [fit.node])[0], f"**{kw} reaches the wrapped fit unchanged", f"{cname}.fit changes or filters **{kw} before the wrapped model is trained ({src_of((reb or pops)[0])[:60] if (reb or pops) else 'not forwarded'}): parameters routed by name (`step__sample_weight` of a wrapped pipeline, parameters taken through **params) are dropped, so the wrapped model is not trained as a direct fit would")


def run(ck):
    repo = ck.repo
    for k, v in RULES.items():
        ck.rule(k, v)
    check_a(ck, repo)
    check_b(ck, repo)
    check_c(ck, repo)
    check_fit_kwargs(ck, repo)
    # shared clauses: the bound method follows the model (C01.g), the copy used by
    # TransferTransformer(copy_estimator=True) shares nothing with the original (C04.c)
    from .c01 import check_g
    from .c04 import check_c as copies_only

    check_g(ck, repo, rule="C15.a", only={"SkBaseTransformLearner"})
    copies_only(ck, repo, rule="C15.c")
    from .sem import share_clauses

    share_clauses(ck, "c03", {
        "C03.d": ("C15.d", "fit of a wrapper assigns the object it answers with before reading it: no copy taken by an earlier fit is reused"),
    }, keep=lambda o: o.file.endswith(("transfer_transformer.py", "sklearn_base_transform_learner.py", "sklearn_base_transform_stacking.py", "sklearn_base_learner.py")))
    ck.require_count("C15.a", 6, "transform shape, 4 table entries, callable, fit forwarding, returns self, constructor binding")
    ck.require_count("C15.b", 3, "transform, fit loop, returns self, conversion x3")
    ck.require_count("C15.c", 12, "4 fit calls x (guard, receiver), forms, provenance x3, no writes, returns self, transform, default chain")


_L = "mlinsights/sklapi/sklearn_base_transform_learner.py"
_S = "mlinsights/sklapi/sklearn_base_transform_stacking.py"
_T = "mlinsights/mlmodel/transfer_transformer.py"
WITNESSES = [
    {"name": "learner-table-crossed", "file": _L, "rule": "C15.a", "old": '            elif method == "decision_function":\n                self.method_ = self.model.decision_function\n', "new": '            elif method == "decision_function":\n                self.method_ = self.model.predict_proba\n'},
    {"name": "learner-transform-rounds", "file": _L, "rule": "C15.a", "old": "        res = self.method_(X)\n        if len(res.shape) == 1:\n", "new": "        res = self.method_(X).astype(numpy.float32)\n        if len(res.shape) == 1:\n"},
    {"name": "learner-fit-drops-kwargs", "file": _L, "rule": "C15.a", "old": "        self.model.fit(X, y=y, **kwargs)\n", "new": "        self.model.fit(X, y=y)\n"},
    {"name": "learner-reshape-row", "file": _L, "rule": "C15.a", "old": "            res = res[:, numpy.newaxis]\n", "new": "            res = res[numpy.newaxis, :]\n"},
    {"name": "stacking-reversed", "file": _S, "rule": "C15.b", "old": "        Xs = [m.transform(X) for m in self.models]\n", "new": "        Xs = [m.transform(X) for m in reversed(self.models)]\n"},
    {"name": "stacking-vstack", "file": _S, "rule": "C15.b", "old": "        return numpy.hstack(Xs)\n", "new": "        return numpy.vstack(Xs)\n"},
    {"name": "stacking-fit-skips-first", "file": _S, "rule": "C15.b", "old": "        for m in self.models:\n            m.fit(X, y=y, **kwargs)\n", "new": "        for m in self.models[1:]:\n            m.fit(X, y=y, **kwargs)\n"},
    {"name": "transfer-fit-always", "file": _T, "rule": "C15.c", "old": "        if self.trainable:\n            insp", "new": "        if self.trainable or not self.copy_estimator:\n            insp"},
    {"name": "transfer-trains-original", "file": _T, "rule": "C15.c", "old": "                self.estimator_.fit(X, y)\n", "new": "                self.estimator.fit(X, y)\n"},
    {"name": "transfer-copy-is-alias", "file": _T, "rule": "C15.c", "old": "            self.estimator_ = clone_with_fitted_parameters(self.estimator)\n", "new": "            self.estimator_ = self.estimator\n"},
    {"name": "transfer-transform-other-object", "file": _T, "rule": "C15.c", "old": "        meth = getattr(self.estimator_, self.method)\n", "new": "        meth = getattr(self.estimator, self.method)\n"},
    {"name": "transfer-default-method-mismatch", "file": _T, "rule": "C15.c", "old": '            elif hasattr(estimator, "decision_function"):\n                method = "decision_function"\n', "new": '            elif hasattr(estimator, "decision_function"):\n                method = "predict"\n'},
]
TWINS = []
MIN_WITNESSES = 10
