"""C01 — parameter protocol (get_params / set_params / clone).

Decided clauses (necessary conditions, see DESIGN.md §4 C01):
  C01.a  constructor stores every parameter, under its own name, unmodified
  C01.b  set_params returns self on every normal exit
  C01.c  a custom get_params reports every named constructor parameter
  C01.d  prefixed/indexed key codec: what get_params writes, set_params decodes
  C01.e  every literal key get_params writes is assigned by set_params on a
         feasible path, to the attribute get_params read
  C01.f  set_params never rebuilds the parameter store from the given keys alone
  C01.g  state derived from a parameter is refreshed when set_params writes it
  C01.h  the receiver of a nested set_params is not replaced afterwards
  C01.i  constructor defaults are immutable objects
  C01.j  get_params / to_dict never return an object kept on the estimator
"""

from __future__ import annotations

import ast
import re
from typing import Dict, List, Optional, Set, Tuple

from engine.src import ClassInfo, FunctionInfo, own_nodes, own_nodes_incl_lambda, AnalysisError, src_of
from engine.cfg import build_cfg, forward, paths_avoiding, fmt_path
from engine.util import is_self_attr, assign_targets, names_in, enclosing_tests, const_value, NOCONST, self_attr_stores, enclosing_stmt
from engine import extsrc, absstr
from engine.dataflow import ReachingDefs
from engine.absstr import AStr, ALen, IntVal, AList, Lit, Int, Rest, Ident, Unknown, Mismatch
from .common import estimator_classes, is_sklearn_estimator, is_skbase, explicit_parent_call, resolve_call

RULES = {
    "C01.a": "constructor stores each parameter p as self.p on every normal path, value-preserving (clone/get_params/set_params contract)",
    "C01.b": "set_params returns self on every normal exit",
    "C01.c": "custom get_params reports every named constructor parameter",
    "C01.d": "prefixed key codec agreement between get_params and set_params (string-segment abstract evaluation, all index lengths)",
    "C01.e": "each literal key written by get_params is assigned by set_params on a feasible path to the attribute get_params read",
    "C01.f": "set_params does not rebuild the parameter store from the given keys alone",
    "C01.g": "derived state is recomputed after set_params writes its source",
    "C01.h": "a nested set_params acts on the object that stays in the attribute: no later replacement of the receiver inside set_params",
    "C01.j": "get_params / to_dict return a mapping built at the call, not an object stored in an attribute (may-alias of the returned value)",
    "C01.i": "constructor defaults are immutable (no estimator instance, list or dict shared by all default-built instances)",
}


# ------------------------------------------------------------------ C01.a
def _init_of(ci: ClassInfo) -> Optional[FunctionInfo]:
    return ci.methods.get("__init__")


_store_cache: Dict[str, Dict[str, Set[str]]] = {}


def _param_of_expr(e: ast.AST, params: Set[str]) -> Optional[str]:
    """the parameter whose value `e` preserves (p, or `p if <test on p> else d`)."""
    if isinstance(e, ast.Name) and e.id in params:
        return e.id
    if isinstance(e, ast.IfExp):
        for br in (e.body, e.orelse):
            if isinstance(br, ast.Name) and br.id in params and br.id in names_in(e.test):
                return br.id
    return None


def _truthiness_default(e: ast.AST, params: Set[str]):
    """(parameter, default text) when `e` is `p or Ctor(..)` / `p if p else Ctor(..)` /
    `Ctor(..) if not p else p`: the default object is chosen by the truth value of p"""
    def ctor(x):
        return isinstance(x, ast.Call) and (src_of(x.func).split(".")[-1][:1].isupper())

    if isinstance(e, ast.BoolOp) and isinstance(e.op, ast.Or) and len(e.values) == 2 and isinstance(e.values[0], ast.Name) and e.values[0].id in params and ctor(e.values[1]):
        return e.values[0].id, src_of(e.values[1])
    if isinstance(e, ast.IfExp):
        t = e.test
        neg = False
        while isinstance(t, ast.UnaryOp) and isinstance(t.op, ast.Not):
            t, neg = t.operand, not neg
        if isinstance(t, ast.Name) and t.id in params:
            keep, dflt = (e.orelse, e.body) if neg else (e.body, e.orelse)
            if isinstance(keep, ast.Name) and keep.id == t.id and ctor(dflt):
                return t.id, src_of(dflt)
    return None


def init_stores(repo, ci: ClassInfo, _stack=()) -> Dict[str, Set[str]]:
    """param -> attribute names under which it is stored on EVERY normal path
    of the class's __init__ (through parent constructors)."""
    if ci.qualname in _store_cache and getattr(repo, "_c01_token", None) is _store_cache.get("__repo__"):
        return _store_cache[ci.qualname]
    init = _init_of(ci)
    if init is None:
        # inherited constructor
        for c in repo.mro(ci)[1:]:
            if isinstance(c, ClassInfo) and "__init__" in c.methods:
                return init_stores(repo, c, _stack)
        return {}
    if ci.qualname in _stack:
        return {}
    params = set(init.named_params[1:])
    cfg = build_cfg(init.node)

    def established(node) -> Set[Tuple[str, str]]:
        out: Set[Tuple[str, str]] = set()
        s = node.ast
        if node.kind != "stmt" or s is None:
            return out
        if isinstance(s, (ast.Assign, ast.AnnAssign)) and getattr(s, "value", None) is not None:
            for t in assign_targets(s):
                if is_self_attr(t):
                    p = _param_of_expr(s.value, params)
                    if p is not None:
                        out.add((p, t.attr))
                    elif t.attr in params:
                        out.add((t.attr, t.attr))  # value checked separately
        for call in [n for n in ast.walk(s) if isinstance(n, ast.Call)]:
            par = explicit_parent_call(repo, init, call, "__init__")
            if par is None:
                continue
            args = list(call.args)
            f = call.func
            explicit_self = not (
                isinstance(f.value, ast.Call) or (isinstance(f.value, ast.Name) and f.value.id not in repo.modules and f.value.id != "self" and not _is_classname(repo, init, f.value.id))
            )
            if explicit_self and args and isinstance(args[0], ast.Name) and args[0].id == "self":
                args = args[1:]
            if isinstance(par, ClassInfo):
                pinit_owner = par
                pst = init_stores(repo, par, _stack + (ci.qualname,))
                _, pinit = repo.find_method(par, "__init__")
                ppos = pinit.named_params[1:] if pinit is not None else []
                pmap = pst
            else:
                ppos = extsrc.init_positional(par) or []
                allp = extsrc.init_params(par) or []
                pmap = {q: {q} for q in allp}
            given: Dict[str, ast.AST] = {}
            args = _expand_starred(init.node, args)
            for i, a in enumerate(args):
                if isinstance(a, ast.Starred):
                    break
                if i < len(ppos):
                    given[ppos[i]] = a
            for kw in call.keywords:
                if kw.arg is not None:
                    given[kw.arg] = kw.value
            for q, e in given.items():
                p = _param_of_expr(e, params)
                if p is not None:
                    for attr in pmap.get(q, ()):
                        out.add((p, attr))
        return out

    def transfer(node, state, label):
        if label == "exc":
            return state
        est = established(node)
        return state | frozenset(est) if est else state

    IN = forward(cfg, frozenset(), transfer, lambda a, b: a & b)
    final = IN.get(cfg.exit.id, frozenset())
    res: Dict[str, Set[str]] = {p: set() for p in params}
    for p, a in final:
        res.setdefault(p, set()).add(a)
    # also remember "stored on some path" for diagnostics
    some: Set[Tuple[str, str]] = set()
    for n in cfg.nodes:
        some |= established(n)
    res["__some__"] = {f"{p}->{a}" for p, a in some}  # type: ignore[assignment]
    _store_cache[ci.qualname] = res
    return res


def _expand_starred(fn, args):
    """`*name` where name is a local bound once to a list literal, or to
    `[..] if <test> else []` (version-dependent optional arguments)."""
    out = []
    for a in args:
        if isinstance(a, ast.Starred) and isinstance(a.value, ast.Name):
            defs = [
                n for n in own_nodes(fn) if isinstance(n, ast.Assign) and any(isinstance(t, ast.Name) and t.id == a.value.id for t in n.targets)
            ]
            if len(defs) == 1:
                v = defs[0].value
                if isinstance(v, ast.IfExp):
                    cands = [b for b in (v.body, v.orelse) if isinstance(b, (ast.List, ast.Tuple)) and b.elts]
                    if len(cands) == 1 and all(isinstance(b, (ast.List, ast.Tuple)) for b in (v.body, v.orelse)):
                        v = cands[0]
                if isinstance(v, (ast.List, ast.Tuple)) and not any(isinstance(e, ast.Starred) for e in v.elts):
                    out.extend(v.elts)
                    continue
        out.append(a)
    return out


def _is_classname(repo, fi, name):
    d = repo.resolve_name(fi.module, name)
    return d is not None and (repo.get_class(d) is not None or "." in d)


def _has_property_with_setter(repo, ci: ClassInfo, name: str) -> Tuple[bool, bool]:
    has_prop = has_setter = False
    for c in repo.mro(ci):
        if not isinstance(c, ClassInfo):
            continue
        for n in c.node.body:
            if isinstance(n, ast.FunctionDef) and n.name == name:
                for d in n.decorator_list:
                    if isinstance(d, ast.Name) and d.id == "property":
                        has_prop = True
                    if isinstance(d, ast.Attribute) and d.attr == "setter":
                        has_setter = True
    return has_prop, has_setter


def _name_targets(n):
    out = []
    for t in assign_targets(n):
        if isinstance(t, (ast.Tuple, ast.List)):
            out += [e for e in t.elts if isinstance(e, ast.Name)]
        else:
            out.append(t)
    return out


def _rebinding_preserves(repo, init: FunctionInfo, n: ast.AST, p: str) -> bool:
    """`p = <value>` keeps the caller's object unless a test on p itself chose a
    default: every alternative of the value (branches followed through locals,
    E-GUARD facts) is the parameter p, or sits under a fact that mentions p"""
    from .sem import guarded_values, xt, conds_at

    # the value bound to p by this statement
    v = None
    if isinstance(n, ast.Assign):
        for t in n.targets:
            if isinstance(t, ast.Name) and t.id == p:
                v = n.value
            elif isinstance(t, (ast.Tuple, ast.List)) and isinstance(n.value, (ast.Tuple, ast.List)) and len(t.elts) == len(n.value.elts):
                for te, ve in zip(t.elts, n.value.elts):
                    if isinstance(te, ast.Name) and te.id == p:
                        v = ve
    if v is None:
        return False
    try:
        here = conds_at(repo, init, n)
        alts = guarded_values(repo, init, v, n)
    except AnalysisError:
        return False
    if not alts:
        return False

    def mentions(conds) -> bool:
        for ctext_, _pol in conds:
            try:
                ce = ast.parse(ctext_, mode="eval")
            except SyntaxError:
                continue
            if any(isinstance(x, ast.Name) and x.id == p for x in ast.walk(ce)):
                return True
        return False

    for conds, val, _ in alts:
        if xt(val) == p:
            continue
        if not (mentions(conds) or mentions(here)):
            return False
    return True


def check_a(ck, repo):
    _store_cache.clear()
    for ci in estimator_classes(repo):
        init = _init_of(ci)
        if init is None:
            continue
        introspective = is_sklearn_estimator(repo, ci) and repo.find_method(ci, "get_params")[1] is None
        custom = not introspective
        st = init_stores(repo, ci)
        params = init.named_params[1:]
        for p in params:
            names = st.get(p, set())
            if p in names:
                ck.holds("C01.a", init, f"self.{p} = {p}", "stored on every normal path of __init__")
            elif names:
                prop, setter = _has_property_with_setter(repo, ci, p)
                if prop and setter:
                    ck.holds("C01.a", init, f"self.{p} = {p}", f"stored as {sorted(names)} and exposed by a read/write property")
                else:
                    ck.violated(
                        "C01.a",
                        init,
                        f"self.{p} = {p}",
                        f"parameter '{p}' is stored only as {sorted(names)}; "
                        + ("a read-only property exposes it, so set_params(" + p + "=...) raises AttributeError" if prop else "get_params reads self." + p + ", which does not exist"),
                    )
            else:
                somewhere = [x for x in st.get("__some__", ()) if x.startswith(p + "->")]
                ck.violated(
                    "C01.a",
                    init,
                    f"self.{p} = {p}",
                    f"parameter '{p}' is not stored as self.{p} on every normal path of __init__"
                    + (f" (only on some paths: {somewhere})" if somewhere else " (never stored)")
                    + "; get_params()/clone() read self." + p,
                )
        pset = set(params)
        if custom:
            # whatever the protocol, a default object is chosen by `p is None`, not by p's truth value
            for n in own_nodes(init.node):
                if isinstance(n, ast.Assign):
                    tv = _truthiness_default(n.value, pset)
                    if tv is not None:
                        ck.violated("C01.a", init, n, f"the default of '{tv[0]}' is chosen by the truth value of the parameter ({src_of(n.value)[:60]}), not by `{tv[0]} is None`: an estimator with __len__ (every scikit-learn ensemble or pipeline) raises or is empty before fit, so the caller's object is refused or silently replaced by {tv[1]} and get_params/clone report another estimator than the one passed")
            continue
        # value preservation (only where sklearn's introspective protocol applies)
        for n in own_nodes(init.node):
            if isinstance(n, (ast.Assign, ast.AugAssign)):
                for t in _name_targets(n):
                    if isinstance(t, ast.Name) and t.id in pset:
                        tests = enclosing_tests(n, init.node)
                        if isinstance(n, ast.AugAssign):
                            ck.violated("C01.a", init, n, f"parameter '{t.id}' is overwritten unconditionally before being stored (clone() checks identity)")
                        elif any(t.id in names_in(tt) for tt, _ in tests) or _rebinding_preserves(repo, init, n, t.id):
                            ck.holds("C01.a", init, n, "default substitution guarded by a test on the parameter itself")
                        else:
                            ck.violated("C01.a", init, n, f"parameter '{t.id}' is overwritten unconditionally before being stored (clone() checks identity)")
                    elif is_self_attr(t) and t.attr in pset:
                        v = n.value
                        p = _param_of_expr(v, pset) if not isinstance(n, ast.AugAssign) else None
                        tv = _truthiness_default(v, pset) if not isinstance(n, ast.AugAssign) else None
                        if tv is not None:
                            ck.violated("C01.a", init, n, f"the default of '{tv[0]}' is chosen by the truth value of the parameter ({src_of(v)[:60]}), not by `{tv[0]} is None`: an estimator with __len__ (every scikit-learn ensemble or pipeline) raises or is empty before fit, so the caller's object is refused or silently replaced by {tv[1]} and get_params/clone report another estimator than the one passed")
                            continue
                        if p == t.attr:
                            continue
                        tests = enclosing_tests(n, init.node)
                        if p is None and not isinstance(n, ast.AugAssign) and any(t.attr in names_in(tt) for tt, _ in tests):
                            ck.holds("C01.a", init, n, "substituted default guarded by a test on the parameter")
                        else:
                            ck.violated(
                                "C01.a",
                                init,
                                n,
                                f"self.{t.attr} receives {src_of(v)[:60]!r}, not the parameter '{t.attr}' (get_params would report a value the caller never passed)",
                            )


# ------------------------------------------------------------------ C01.b
def returns_self_on_all_paths(ck, rule, fi: FunctionInfo, repo, what: str):
    cfg = build_cfg(fi.node)
    ok = True
    n_ret = 0
    for n in cfg.nodes:
        if n.id not in cfg.reachable():
            continue
        if n.kind == "return":
            n_ret += 1
            v = n.ast.value
            if isinstance(v, ast.Name) and v.id == "self":
                continue
            if isinstance(v, ast.Call):
                # return Parent.method(self, ...) / super().method(...) / self.helper(...)
                par = explicit_parent_call(repo, fi, v, fi.name)
                if par is not None and not isinstance(par, ClassInfo):
                    continue  # external parent's same-named method returns self (sklearn contract)
                g = resolve_call(repo, fi, v)
                if g is not None and g is not fi and _returns_self(repo, g, set()):
                    continue
            ok = False
            ck.violated(rule, fi, n.ast, f"{what} returns {src_of(v) if v is not None else 'None'} instead of self")
        elif n.kind == "implicit_return":
            ok = False
            ck.violated(rule, fi, f"<end of {fi.name}>", f"{what} can fall off the end and return None instead of self")
    if ok:
        ck.holds(rule, fi, f"return self ({n_ret} return site(s))", f"every normal exit of {what} returns self")


def _returns_self(repo, fi: FunctionInfo, seen) -> bool:
    if fi.qualname in seen:
        return True
    seen.add(fi.qualname)
    cfg = build_cfg(fi.node)
    r = cfg.reachable()
    for n in cfg.nodes:
        if n.id not in r:
            continue
        if n.kind == "implicit_return":
            return False
        if n.kind == "return":
            v = n.ast.value
            if isinstance(v, ast.Name) and v.id == "self":
                continue
            if isinstance(v, ast.Call):
                par = explicit_parent_call(repo, fi, v, fi.name)
                if par is not None and not isinstance(par, ClassInfo):
                    continue
                g = resolve_call(repo, fi, v)
                if g is not None and _returns_self(repo, g, seen):
                    continue
            return False
    return True


def check_b(ck, repo):
    for ci in sorted(repo.all_classes(), key=lambda c: c.qualname):
        sp = ci.methods.get("set_params")
        if sp is None:
            continue
        returns_self_on_all_paths(ck, "C01.b", sp, repo, f"{ci.name}.set_params")


# ------------------------------------------------------------------ C01.c
def _literal_keys_written(fn: ast.AST, dictname: Optional[str] = None) -> Dict[str, ast.AST]:
    """literal keys stored into any dict in the function: d['k'] = v and {...} literals."""
    out: Dict[str, ast.AST] = {}
    for n in own_nodes(fn):
        if isinstance(n, ast.Assign):
            for t in n.targets:
                if isinstance(t, ast.Subscript) and isinstance(t.value, ast.Name):
                    k = const_value(t.slice)
                    if isinstance(k, str):
                        out[k] = n
        elif isinstance(n, ast.Dict):
            for k in n.keys:
                kv = const_value(k)
                if isinstance(kv, str):
                    out[kv] = n
    return out


def check_c(ck, repo):
    for ci in estimator_classes(repo):
        owner, gp = repo.find_method(ci, "get_params")
        if gp is None:
            continue
        init_owner, init = repo.find_method(ci, "__init__")
        if init is None:
            continue
        params = [p for p in init.named_params[1:]]
        if not params:
            continue
        keys = set(_literal_keys_written(gp.node))
        # names listed by a _get_param_names helper the getter iterates over
        for n in own_nodes(gp.node):
            if isinstance(n, ast.Call) and isinstance(n.func, ast.Attribute) and n.func.attr == "_get_param_names":
                _, helper = repo.find_method(ci, "_get_param_names")
                if helper is not None:
                    for m in ast.walk(helper.node):
                        if isinstance(m, ast.Constant) and isinstance(m.value, str) and m.value.isidentifier():
                            keys.add(m.value)
        _check_value_filter(ck, gp, ci)
        for p in params:
            if p in keys:
                ck.holds("C01.c", gp, f"get_params()['{p}'] ({ci.name})", "constructor parameter reported")
            else:
                ck.violated(
                    "C01.c",
                    gp,
                    f"get_params()['{p}'] ({ci.name})",
                    f"{owner.name if isinstance(owner, ClassInfo) else owner}.get_params never reports constructor parameter '{p}' of {ci.name}: "
                    f"clone() re-creates the object without it, so a non-default '{p}' is lost",
                )


_filter_seen = set()


def _check_value_filter(ck, gp: FunctionInfo, ci):
    """a custom get_params must not drop a parameter because of its VALUE
    (None, falsy): clone()/set_params round trips rely on every parameter being
    reported.  `hasattr(self, k)` (parameter never given) and `deep` are fine."""
    if gp.qualname in _filter_seen and False:
        return
    value_names = set()
    for n in own_nodes(gp.node):
        if isinstance(n, ast.Assign) and len(n.targets) == 1 and isinstance(n.targets[0], ast.Name):
            v = n.value
            if (isinstance(v, ast.Call) and isinstance(v.func, ast.Name) and v.func.id == "getattr") or is_self_attr(v):
                value_names.add(n.targets[0].id)
        if isinstance(n, ast.For) and isinstance(n.target, ast.Tuple) and len(n.target.elts) == 2 and isinstance(n.iter, ast.Call) and isinstance(n.iter.func, ast.Attribute) and n.iter.func.attr == "items":
            if isinstance(n.target.elts[1], ast.Name):
                value_names.add(n.target.elts[1].id)
    for n in own_nodes(gp.node):
        if isinstance(n, ast.Assign) and any(isinstance(t, ast.Subscript) for t in n.targets):
            for t, pol in enclosing_tests(n, gp.node):
                names = names_in(t)
                direct = any(isinstance(x, ast.Call) and isinstance(x.func, ast.Name) and x.func.id == "getattr" for x in ast.walk(t))
                if (names & value_names) or direct:
                    if any(isinstance(x, ast.Call) and isinstance(x.func, ast.Name) and x.func.id in ("isinstance", "hasattr") for x in ast.walk(t)) and not direct:
                        continue
                    ck.violated("C01.c", gp, t, f"{ci.name}.get_params reports a parameter only when its value passes `{src_of(t)}`: a parameter explicitly set to None/False disappears, so set_params/clone round trips change the configuration")
                    return
    ck.holds("C01.c", gp, f"{ci.name}.get_params: no value-dependent filtering", "parameters are reported whatever their value", nontrivial=False)


# ------------------------------------------------------------------ C01.d
DYNAMIC = "<the parameter named by the key>"


class _Family:
    def __init__(self, prefix_segs, source_attr, indexed, stmt):
        self.prefix = prefix_segs
        self.source_attr = source_attr
        self.indexed = indexed
        self.stmt = stmt

    def key(self):
        return absstr.mk(*self.prefix, Rest("rest"))


def _getparams_families(gp: FunctionInfo) -> List[_Family]:
    """prefixed key families built in get_params: res[PREFIX + k] = v inside
    `for k, v in <X>.get_params(..).items()`."""
    fams = []
    fn = gp.node
    # var -> expression it was assigned from (simple, last assignment wins in order)
    for loop in [n for n in own_nodes(fn) if isinstance(n, ast.For)]:
        tgt = loop.target
        if not (isinstance(tgt, ast.Tuple) and len(tgt.elts) == 2 and all(isinstance(e, ast.Name) for e in tgt.elts)):
            continue
        kname = tgt.elts[0].id
        it = loop.iter
        if not (isinstance(it, ast.Call) and isinstance(it.func, ast.Attribute) and it.func.attr == "items"):
            continue
        src = it.func.value
        src = _resolve_local(fn, src, loop)
        if not (isinstance(src, ast.Call) and isinstance(src.func, ast.Attribute) and src.func.attr == "get_params"):
            continue
        recv = src.func.value
        source_attr, indexed, env = None, False, {}
        if is_self_attr(recv):
            source_attr = recv.attr
        elif isinstance(recv, ast.Name):
            # loop variable of an enclosing `for i, m in enumerate(self.attr)`
            for outer in [n for n in own_nodes(fn) if isinstance(n, ast.For)]:
                if any(loop is d for d in ast.walk(outer)) and outer is not loop:
                    ot, oi = outer.target, outer.iter
                    if (
                        isinstance(oi, ast.Call)
                        and isinstance(oi.func, ast.Name)
                        and oi.func.id == "enumerate"
                        and oi.args
                        and is_self_attr(oi.args[0])
                        and isinstance(ot, ast.Tuple)
                        and len(ot.elts) == 2
                        and isinstance(ot.elts[1], ast.Name)
                        and ot.elts[1].id == recv.id
                    ):
                        source_attr = oi.args[0].attr
                        indexed = True
                        env[ot.elts[0].id] = IntVal("i")
            # value of an enclosing `for name, value in <params>.items()`:
            # every parameter that is itself an estimator (dynamic receiver)
            if source_attr is None:
                for outer in [n for n in own_nodes(fn) if isinstance(n, ast.For)]:
                    if any(loop is d for d in ast.walk(outer)) and outer is not loop:
                        ot, oi = outer.target, outer.iter
                        if (
                            isinstance(oi, ast.Call)
                            and isinstance(oi.func, ast.Attribute)
                            and oi.func.attr == "items"
                            and isinstance(ot, ast.Tuple)
                            and len(ot.elts) == 2
                            and all(isinstance(e, ast.Name) for e in ot.elts)
                            and ot.elts[1].id == recv.id
                        ):
                            source_attr = DYNAMIC
                            env[ot.elts[0].id] = absstr.mk(Ident("name"))
        if source_attr is None:
            continue
        for st in ast.walk(loop):
            if isinstance(st, ast.Assign) and len(st.targets) == 1 and isinstance(st.targets[0], ast.Subscript):
                keyexpr = st.targets[0].slice
                env2 = dict(env)
                env2[kname] = absstr.mk(Rest("rest"))
                try:
                    val = absstr.evaluate(keyexpr, env2)
                except (Unknown, Mismatch):
                    continue
                if isinstance(val, AStr) and val.segs and val.segs[-1] == Rest("rest") and len(val.segs) > 1:
                    fams.append(_Family(val.segs[:-1], source_attr, indexed, st))
    return fams


def _resolve_local(fn, expr, before):
    """follow a local name to the expression last assigned to it before `before`."""
    if isinstance(expr, ast.Name):
        best = None
        for n in own_nodes(fn):
            if isinstance(n, ast.Assign) and len(n.targets) == 1 and isinstance(n.targets[0], ast.Name) and n.targets[0].id == expr.id:
                if n.lineno <= before.lineno and (best is None or n.lineno > best.lineno):
                    best = n
        if best is not None:
            return best.value
    return expr


class _Decode:
    """Abstract run of set_params for one key family."""

    def __init__(self, sp: FunctionInfo, fam: _Family):
        self.sp = sp
        self.fam = fam
        self.records: List[Tuple[str, object, object, ast.AST]] = []  # (dict var, index, key value, stmt)
        self.rejected: Optional[ast.AST] = None
        self.problems: List[Tuple[ast.AST, str]] = []
        self.unknown: List[Tuple[ast.AST, str]] = []

    def run(self):
        fn = self.sp.node
        values = fn.args.kwarg.arg if fn.args.kwarg else None
        if values is None:
            self.unknown.append((fn, "set_params has no **kwargs"))
            return
        env: Dict[str, object] = {}
        self._block(fn.body, env, values, None)

    def _block(self, stmts, env, values, kname):
        """returns True when the block ends the treatment of the current key
        (`continue` on the decided path)."""
        for s in stmts:
            if self.rejected is not None:
                return True
            if isinstance(s, ast.Continue) and kname is not None:
                return True
            if self._stmt(s, env, values, kname):
                return True
        return False

    def _items_loop(self, node, values):
        it = node.iter if isinstance(node, (ast.For, ast.comprehension)) else None
        if isinstance(it, ast.Call) and isinstance(it.func, ast.Attribute) and it.func.attr == "items" and isinstance(it.func.value, ast.Name) and it.func.value.id == values:
            t = node.target
            if isinstance(t, ast.Tuple) and t.elts and isinstance(t.elts[0], ast.Name):
                return t.elts[0].id
        if isinstance(it, ast.Name) and it.id == values:
            t = node.target
            if isinstance(t, ast.Name):
                return t.id
        return None

    def _eval(self, e, env, where):
        try:
            return absstr.evaluate(e, env)
        except Mismatch as m:
            self.problems.append((where, str(m)))
            return None
        except Unknown as u:
            return ("?", str(u))

    def _stmt(self, s, env, values, kname):
        if isinstance(s, ast.Expr) and isinstance(s.value, ast.Constant):
            return
        if isinstance(s, ast.For):
            k = self._items_loop(s, values)
            if k is not None:
                env2 = dict(env)
                env2[k] = self.fam.key()
                self._block(s.body, env2, values, k)
                # assignments made in the loop body stay visible
                for a, b in env2.items():
                    if a != k:
                        env.setdefault(a, b)
                return
            return  # other loops do not decode keys
        if isinstance(s, ast.If):
            # tests on literal keys ("model" in values) do not concern a family key
            derived = {n_ for n_ in names_in(s.test) if isinstance(env.get(n_), AStr)}
            if kname is None or (kname not in names_in(s.test) and not derived):
                # still scan both branches for comprehensions / loops over values
                self._block(s.body, env, values, kname)
                self._block(s.orelse, env, values, kname)
                return
            t = self._eval_test(s.test, env, s)
            if t is True:
                return self._block(s.body, env, values, kname)
            elif t is False:
                return self._block(s.orelse, env, values, kname)
            else:
                self.unknown.append((s, "cannot decide test for the abstract key"))
            return
        if isinstance(s, ast.Raise):
            if kname is not None:
                self.rejected = s
            return
        if isinstance(s, ast.Assign):
            # dict comprehension over values.items()
            v = s.value
            if isinstance(v, ast.DictComp) and len(v.generators) == 1:
                k = self._items_loop(v.generators[0], values)
                if k is not None and len(s.targets) == 1 and isinstance(s.targets[0], ast.Name):
                    env2 = dict(env)
                    env2[k] = self.fam.key()
                    kv = self._eval(v.key, env2, s)
                    self.records.append((s.targets[0].id, None, kv, s))
                    return
            # a, b = x, y
            if len(s.targets) == 1 and isinstance(s.targets[0], ast.Tuple) and isinstance(v, ast.Tuple) and len(v.elts) == len(s.targets[0].elts) and all(isinstance(e, ast.Name) for e in s.targets[0].elts):
                for te, ve in zip(s.targets[0].elts, v.elts):
                    self._stmt(ast.copy_location(ast.Assign(targets=[te], value=ve), s), env, values, kname)
                return
            # a table of receivers: targets = {"e_": pe, "c_": pc}
            if len(s.targets) == 1 and isinstance(s.targets[0], ast.Name) and isinstance(v, ast.Dict) and v.keys and all(isinstance(k_, ast.Constant) and isinstance(k_.value, str) for k_ in v.keys) and all(isinstance(x_, ast.Name) for x_ in v.values):
                env[s.targets[0].id] = ("table", {k_.value: x_.id for k_, x_ in zip(v.keys, v.values)})
                return
            for t in s.targets:
                if isinstance(t, ast.Name):
                    r = self._eval(v, env, s)
                    if r is not None and not (isinstance(r, tuple) and r and r[0] == "?"):
                        env[t.id] = r
                    else:
                        env.pop(t.id, None)
                elif isinstance(t, ast.Subscript) and kname is not None and (kname in names_in(t.slice) or self._derived(t.slice, env)):
                    # D[keyexpr] = v   or   D[idx][keyexpr] = v
                    base = t.value
                    idx = None
                    if isinstance(base, ast.Subscript) and isinstance(base.value, ast.Name) and isinstance(env.get(base.value.id), tuple) and env[base.value.id][0] == "table":
                        # targets[prefix][name] = v : the receiver is chosen by the decoded prefix
                        sel = self._eval(base.slice, env, s)
                        tbl = env[base.value.id][1]
                        if isinstance(sel, AStr) and all(isinstance(x_, Lit) for x_ in sel.segs) and "".join(x_.text for x_ in sel.segs) in tbl:
                            base = ast.Name(id=tbl["".join(x_.text for x_ in sel.segs)], ctx=ast.Load())
                        else:
                            self.unknown.append((s, "receiver table indexed by something else than a decoded literal prefix"))
                            return
                    elif isinstance(base, ast.Subscript):
                        idx = self._eval(base.slice, env, s)
                        base = base.value
                    if isinstance(base, ast.Name):
                        kv = self._eval(t.slice, env, s)
                        self.records.append((base.id, idx, kv, s))
            return
        if isinstance(s, (ast.Try,)):
            self._block(s.body, env, values, kname)
            return
        # other statements (del, expr calls, return) do not decode keys

    def _derived(self, e, env):
        """does the expression evaluate to an abstract string (i.e. is it
        derived from the key through locals such as `si = k.split(...)`)?"""
        try:
            return isinstance(absstr.evaluate(e, env), AStr)
        except (Unknown, Mismatch):
            return False

    def _eval_test(self, test, env, where):
        if isinstance(test, ast.UnaryOp) and isinstance(test.op, ast.Not):
            r = self._eval_test(test.operand, env, where)
            return (not r) if isinstance(r, bool) else r
        if isinstance(test, ast.Compare) and len(test.ops) == 1 and isinstance(test.ops[0], (ast.In, ast.NotIn)) and isinstance(test.comparators[0], ast.Name) and isinstance(env.get(test.comparators[0].id), tuple) and env[test.comparators[0].id][0] == "table":
            left = self._eval(test.left, env, where)
            if isinstance(left, AStr) and all(isinstance(x_, Lit) for x_ in left.segs):
                r = "".join(x_.text for x_ in left.segs) in env[test.comparators[0].id][1]
                return r if isinstance(test.ops[0], ast.In) else (not r)
            return None
        r = self._eval(test, env, where)
        return r if isinstance(r, bool) else None


def _setparams_receivers(sp: FunctionInfo) -> Dict[str, Tuple[str, bool]]:
    """dict variable -> (self attribute receiving **dict, indexed?)"""
    out: Dict[str, Tuple[str, bool]] = {}
    fn = sp.node
    for n in own_nodes(fn):
        if isinstance(n, ast.Call) and isinstance(n.func, ast.Attribute) and n.func.attr == "set_params":
            star = [k.value for k in n.keywords if k.arg is None]
            if len(star) != 1 or not isinstance(star[0], ast.Name):
                continue
            d = star[0].id
            recv = n.func.value
            if is_self_attr(recv):
                out[d] = (recv.attr, False)
            elif isinstance(recv, ast.Name):
                # for p, m in zip(pars, self.models)
                for loop in [x for x in own_nodes(fn) if isinstance(x, ast.For)]:
                    if any(n is y for y in ast.walk(loop)):
                        it, tg = loop.iter, loop.target
                        if (
                            isinstance(it, ast.Call)
                            and isinstance(it.func, ast.Name)
                            and it.func.id == "zip"
                            and len(it.args) == 2
                            and isinstance(tg, ast.Tuple)
                            and len(tg.elts) == 2
                            and all(isinstance(e, ast.Name) for e in tg.elts)
                        ):
                            names = [e.id for e in tg.elts]
                            if d in names and recv.id in names:
                                di, ri = names.index(d), names.index(recv.id)
                                src_d, src_r = it.args[di], it.args[ri]
                                if isinstance(src_d, ast.Name) and is_self_attr(src_r):
                                    out[src_d.id] = (src_r.attr, True)
    return out


def _any_nested_set_params(sp: FunctionInfo) -> Set[str]:
    """dict variables passed as ** to some nested `<obj>.set_params(**d)`."""
    out = set()
    for n in own_nodes(sp.node):
        if isinstance(n, ast.Call) and isinstance(n.func, ast.Attribute) and n.func.attr == "set_params" and not (isinstance(n.func.value, ast.Name) and n.func.value.id == "self"):
            for k in n.keywords:
                if k.arg is None and isinstance(k.value, ast.Name):
                    out.add(k.value.id)
    return out


def check_d(ck, repo):
    n_fam = 0
    from .sem import get_to_membership, name_table_entries, drop_caches

    for ci in sorted(repo.all_classes(), key=lambda c: c.qualname):
        gp, sp = ci.methods.get("get_params"), ci.methods.get("set_params")
        if sp is not None and (get_to_membership(sp.node) + name_table_entries(sp.node)):
            drop_caches(sp)
        if gp is None:
            continue
        fams = _getparams_families(gp)
        if not fams:
            continue
        if sp is None:
            _, sp = repo.find_method(ci, "set_params")
        if sp is None:
            for fam in fams:
                ck.unknown("C01.d", gp, fam.stmt, "no set_params to decode the prefixed keys")
            continue
        recv = _setparams_receivers(sp)
        for fam in fams:
            n_fam += 1
            keytxt = repr(fam.key())
            d = _Decode(sp, fam)
            d.run()
            label = f"key family {keytxt} of {ci.name}"
            if d.problems:
                w, msg = d.problems[0]
                ck.violated("C01.d", sp, w, f"{label}: {msg} — the decoded sub-key differs from what get_params advertised for some index length")
                continue
            if d.rejected is not None:
                ck.violated("C01.d", sp, d.rejected, f"{label}: set_params raises for a key that get_params advertises")
                continue
            if d.unknown:
                ck.unknown("C01.d", sp, d.unknown[0][0], f"{label}: {d.unknown[0][1]}")
                continue
            good = []
            bad = []
            for var, idx, kv, st in d.records:
                if isinstance(kv, tuple) and kv and kv[0] == "?":
                    m_ = re.search(r"\.replace\(([^,()]+), *(''|\"\")\)$", str(kv[1]))
                    if m_:
                        # str.replace without a count removes every occurrence, not only the leading one
                        bad.append((st, f"the prefix is removed with `{str(kv[1]).replace('call ', '')}`, which deletes every occurrence of it: a sub-key that contains the prefix again (a pipeline step or a nested wrapper of the same name) is decoded to another name than the one get_params advertised", False))
                    else:
                        bad.append((st, f"cannot evaluate decoded key: {kv[1]}", True))
                    continue
                if kv != absstr.mk(Rest("rest")):
                    bad.append((st, f"decoded sub-key is {kv!r}, expected the original parameter name <rest>", False))
                    continue
                if fam.indexed and idx != IntVal("i"):
                    bad.append((st, f"decoded index is {idx!r}, expected the position i of the model", isinstance(idx, tuple)))
                    continue
                r = recv.get(var)
                if r is None and fam.source_attr == DYNAMIC and var in _any_nested_set_params(sp):
                    good.append(st)
                    continue
                if r is None:
                    bad.append((st, f"dict '{var}' is never passed to a nested set_params", True))
                    continue
                if r[0] != fam.source_attr:
                    bad.append((st, f"keys read from self.{fam.source_attr} are written to self.{r[0]}", False))
                    continue
                good.append(st)
            if good and not bad:
                ck.holds("C01.d", sp, good[0], f"{label}: decoded to <rest>" + (", index i" if fam.indexed else "") + f", receiver self.{fam.source_attr}")
            elif bad:
                st, msg, unk = bad[0]
                (ck.unknown if unk else ck.violated)("C01.d", sp, st, f"{label}: {msg}")
            else:
                ck.violated("C01.d", sp, f"<no decoder for {keytxt}>", f"{label}: set_params has no store that decodes this family")
    return n_fam


# ------------------------------------------------------------------ C01.e / f / g
def _getparams_attr_of_key(gp: FunctionInfo) -> Dict[str, str]:
    """literal key -> self attribute get_params read for it (res['k'] = self.attr)."""
    out = {}
    for k, st in _literal_keys_written(gp.node).items():
        if isinstance(st, ast.Assign) and is_self_attr(st.value):
            out[k] = st.value.attr
    return out


def check_e(ck, repo):
    for ci in sorted(repo.all_classes(), key=lambda c: c.qualname):
        gp, sp = ci.methods.get("get_params"), ci.methods.get("set_params")
        if gp is None or sp is None:
            continue
        values = sp.node.args.kwarg.arg if sp.node.args.kwarg else None
        if values is None:
            continue
        key_attr = _getparams_attr_of_key(gp)
        if not key_attr:
            continue
        cfg = build_cfg(sp.node)

        # typestate per literal key of `values`: ('k','P') present / ('k','A') absent;
        # refined by `"k" in values` tests, `del values["k"]`, `values.pop("k")`.
        BOT = object()

        def transfer(node, state, label):
            if label == "exc":
                return state
            s = node.ast
            if node.kind == "test" and s is not None:
                t, pol = s, True
                while isinstance(t, ast.UnaryOp) and isinstance(t.op, ast.Not):
                    t, pol = t.operand, not pol
                if isinstance(t, ast.Compare) and len(t.ops) == 1 and isinstance(t.ops[0], (ast.In, ast.NotIn)) and isinstance(t.comparators[0], ast.Name) and t.comparators[0].id == values:
                    k = const_value(t.left)
                    if isinstance(k, str):
                        if isinstance(t.ops[0], ast.NotIn):
                            pol = not pol
                        present = (label == "true") == pol
                        if ((k, "A") in state and present) or ((k, "P") in state and not present):
                            return BOT
                        state = frozenset(x for x in state if x[0] != k) | {(k, "P" if present else "A")}
                return state
            if node.kind == "stmt" and isinstance(s, ast.Delete):
                for t in s.targets:
                    if isinstance(t, ast.Subscript) and isinstance(t.value, ast.Name) and t.value.id == values:
                        k = const_value(t.slice)
                        if isinstance(k, str):
                            state = frozenset(x for x in state if x[0] != k) | {(k, "A")}
            if node.kind == "stmt" and isinstance(s, (ast.Expr, ast.Assign)):
                for c in ast.walk(s):
                    if isinstance(c, ast.Call) and isinstance(c.func, ast.Attribute) and c.func.attr == "pop" and isinstance(c.func.value, ast.Name) and c.func.value.id == values and c.args:
                        k = const_value(c.args[0])
                        if isinstance(k, str):
                            state = frozenset(x for x in state if x[0] != k) | {(k, "A")}
            return state

        IN = forward(cfg, frozenset(), transfer, lambda a, b: a & b, bottom=BOT)
        reach = cfg.reachable()
        for key, attr in sorted(key_attr.items()):
            # assignments self.attr = <something derived from values[key]>
            sites = []
            for n in cfg.nodes:
                if n.id not in reach or n.kind != "stmt" or not isinstance(n.ast, ast.Assign):
                    continue
                if any(is_self_attr(t, attr) for t in assign_targets(n.ast)):
                    sites.append(n)
            feasible = []
            for n in sites:
                # guard `if "key" in values` enclosing the assignment
                tests = enclosing_tests(n.ast, sp.node)
                guarded = [t for t, pol in tests if pol and _is_key_in(t, key, values)]
                if n.id not in IN:
                    continue  # dead: every path here tests a key already deleted
                if (key, "A") in IN[n.id] and (guarded or _mentions_key(n.ast.value, key, values)):
                    continue
                if _mentions_key(n.ast.value, key, values) or guarded:
                    feasible.append(n)
            if feasible:
                ck.holds("C01.e", sp, feasible[0].ast, f"key '{key}' (read from self.{attr}) is assigned on a feasible path")
            elif sites:
                ck.violated(
                    "C01.e",
                    sp,
                    sites[0].ast,
                    f"the only assignment(s) of self.{attr} for key '{key}' sit under a test on a key already deleted from '{values}' (dead code): set_params({key}=...) leaves get_params()['{key}'] unchanged",
                )
            else:
                ck.violated("C01.e", sp, f"self.{attr} = {values}['{key}']", f"get_params reports key '{key}' from self.{attr} but set_params never assigns self.{attr}")


def _is_key_in(test, key, values):
    return (
        isinstance(test, ast.Compare)
        and len(test.ops) == 1
        and isinstance(test.ops[0], ast.In)
        and const_value(test.left) == key
        and isinstance(test.comparators[0], ast.Name)
        and test.comparators[0].id == values
    )


def _mentions_key(expr, key, values):
    for n in ast.walk(expr):
        if isinstance(n, ast.Subscript) and isinstance(n.value, ast.Name) and n.value.id == values and const_value(n.slice) == key:
            return True
        if isinstance(n, ast.Call) and isinstance(n.func, ast.Attribute) and n.func.attr in ("pop", "get") and isinstance(n.func.value, ast.Name) and n.func.value.id == values and n.args and const_value(n.args[0]) == key:
            return True
    return False


def check_f(ck, repo):
    """In set_params(**values), an assignment `self.A = <expr built from values>`
    where get_params reads self.A as the whole parameter store must also depend
    on the previous self.A."""
    for ci in sorted(repo.all_classes(), key=lambda c: c.qualname):
        sp = ci.methods.get("set_params")
        gp = ci.methods.get("get_params")
        if sp is None or gp is None:
            continue
        values = sp.node.args.kwarg.arg if sp.node.args.kwarg else None
        if values is None:
            continue
        # attributes get_params turns wholesale into its result: `return self.A.to_dict()`, `res = self.A.to_dict()`
        stores = set()
        for n in own_nodes(gp.node):
            if isinstance(n, ast.Call) and isinstance(n.func, ast.Attribute) and is_self_attr(n.func.value) and n.func.attr in ("to_dict", "copy", "items"):
                stores.add(n.func.value.attr)
            if isinstance(n, ast.Call) and isinstance(n.func, ast.Name) and n.func.id == "dict" and n.args and is_self_attr(n.args[0]):
                stores.add(n.args[0].attr)
        for attr in sorted(stores):
            for a, st, tgt in self_attr_stores(sp.node):
                if a != attr or not isinstance(st, ast.Assign):
                    continue
                rd = ReachingDefs(sp.node)
                at = rd.node_of(st)
                if at is None:
                    continue  # unreachable statement
                uses_values = rd.depends_on(st.value, at, {values})
                uses_prev = rd.depends_on(st.value, at, set(), {attr})
                # precedence: where the new store is a merge of mappings, the given keys come last
                order = _merge_order(repo, sp, st.value, st, values, attr)
                if order is not None and "given" in order and "old" in order:
                    last_given = max(i for i, x in enumerate(order) if x == "given")
                    last_old = max(i for i, x in enumerate(order) if x == "old")
                    ck.verdict(last_given > last_old, "C01.f", sp, st, f"the given keys are merged after the stored ones ({' < '.join(order)})", f"the new self.{attr} is a merge in which the stored parameters come after the given ones ({' < '.join(order)}): a key passed to set_params keeps its old value, so set_params(**get_params()) of another instance changes nothing")
                    continue
                if uses_values and not uses_prev:
                    ck.violated(
                        "C01.f",
                        sp,
                        st,
                        f"self.{attr} (the store get_params reports) is rebuilt from the given keys alone: every parameter not passed to set_params is dropped",
                    )
                else:
                    ck.holds("C01.f", sp, st, f"new self.{attr} depends on its previous value")


def _merge_order(repo, fi, e, at, values: str, attr: str, env=None, depth=0):
    """the order in which mappings are merged into the value of `e` (later wins):
    a list over {'given', 'old', '?'}; None when the expression is not a merge this reads"""
    env = env or {}
    if depth > 6:
        return None

    def go(x):
        return _merge_order(repo, fi, x, at, values, attr, env, depth + 1)

    if isinstance(e, ast.Name):
        if e.id in env:
            return env[e.id]
        if e.id == values:
            return ["given"]
        # a local: its definition, then the updates made before `at`
        defs = [s_ for s_ in own_nodes(fi.node) if isinstance(s_, ast.Assign) and len(s_.targets) == 1 and isinstance(s_.targets[0], ast.Name) and s_.targets[0].id == e.id and s_.lineno < at.lineno]
        if len(defs) != 1:
            return None
        out = _merge_order(repo, fi, defs[0].value, defs[0], values, attr, env, depth + 1)
        if out is None:
            return None
        for s_ in sorted((x for x in own_nodes(fi.node) if isinstance(x, ast.Expr) and isinstance(x.value, ast.Call)), key=lambda x: x.lineno):
            c = s_.value
            if defs[0].lineno < s_.lineno < at.lineno and isinstance(c.func, ast.Attribute) and isinstance(c.func.value, ast.Name) and c.func.value.id == e.id:
                if c.func.attr == "update":
                    for a_ in c.args:
                        o_ = _merge_order(repo, fi, a_, s_, values, attr, env, depth + 1)
                        if o_ is None:
                            return None
                        out = out + o_
                    if c.keywords:
                        for k_ in c.keywords:
                            if k_.arg is None:
                                o_ = _merge_order(repo, fi, k_.value, s_, values, attr, env, depth + 1)
                                if o_ is None:
                                    return None
                                out = out + o_
                elif c.func.attr in ("pop", "clear", "popitem", "setdefault", "__setitem__"):
                    return None
        return out
    if is_self_attr(e) and e.attr == attr:
        return ["old"]
    if isinstance(e, ast.Dict):
        out = []
        for k_, v_ in zip(e.keys, e.values):
            if k_ is None:
                o_ = go(v_)
                if o_ is None:
                    return None
                out += o_
            else:
                out.append("?")
        return out
    if isinstance(e, ast.Call):
        f = e.func
        # X.to_dict() / X.copy() / dict(X) / dict(X, **Y): the mapping(s) themselves
        if isinstance(f, ast.Attribute) and f.attr in ("to_dict", "copy", "get_params") and not e.args:
            return go(f.value)
        if isinstance(f, ast.Name) and f.id in ("dict", "OrderedDict"):
            out = []
            for a_ in e.args:
                o_ = go(a_)
                if o_ is None:
                    return None
                out += o_
            for k_ in e.keywords:
                if k_.arg is None:
                    o_ = go(k_.value)
                    if o_ is None:
                        return None
                    out += o_
                else:
                    out.append("?")
            return out
        # Constructor(**mapping): a store built from the mapping
        if isinstance(f, ast.Name) and f.id[:1].isupper() and not e.args and e.keywords and all(k_.arg is None for k_ in e.keywords):
            out = []
            for k_ in e.keywords:
                o_ = go(k_.value)
                if o_ is None:
                    return None
                out += o_
            return out
        # a method of the store, found by its name: read through its return
        if isinstance(f, ast.Attribute):
            cands = [ci_.methods[f.attr] for ci_ in repo.all_classes() if f.attr in ci_.methods]
            if len(cands) == 1:
                m = cands[0]
                rets = [r_ for r_ in own_nodes(m.node) if isinstance(r_, ast.Return) and r_.value is not None]
                if len(rets) == 1:
                    recv = go(f.value)
                    b = {}
                    params = m.named_params
                    if params:
                        b[params[0]] = recv
                    for p_, a_ in zip(params[1:], e.args):
                        b[p_] = go(a_)
                    for k_ in e.keywords:
                        if k_.arg in params:
                            b[k_.arg] = go(k_.value)
                    if any(v is None for v in b.values()):
                        return None
                    return _merge_order(repo, m, rets[0].value, rets[0], "\0", "\0", b, depth + 1)
        return None
    return None


def _expr_depends(fn, expr, roots: Set[str], before, _depth=0) -> bool:
    """does `expr` (transitively through local assignments made earlier in the
    function) depend on one of `roots` (names, or 'self.attr')?"""
    for n in ast.walk(expr):
        if isinstance(n, ast.Name) and n.id in roots:
            return True
        if isinstance(n, ast.Attribute) and is_self_attr(n) and ("self." + n.attr) in roots:
            return True
    if _depth > 6:
        return False
    for n in ast.walk(expr):
        if isinstance(n, ast.Name):
            for st in own_nodes(fn):
                if isinstance(st, (ast.Assign, ast.AugAssign)) and st.lineno < before.lineno:
                    if any(isinstance(t, ast.Name) and t.id == n.id for t in assign_targets(st)):
                        if _expr_depends(fn, st.value, roots, st, _depth + 1):
                            return True
                # method calls mutating the local: d.update(values)
                if isinstance(st, ast.Expr) and isinstance(st.value, ast.Call) and st.lineno < before.lineno:
                    c = st.value
                    if isinstance(c.func, ast.Attribute) and isinstance(c.func.value, ast.Name) and c.func.value.id == n.id:
                        for a in list(c.args) + [k.value for k in c.keywords]:
                            if _expr_depends(fn, a, roots, st, _depth + 1):
                                return True
    return False


def check_g(ck, repo, rule="C01.g", only=None):
    """derived state: a method f assigning self.X_ from self.Y.<...>; every
    write of self.Y in set_params must be followed, on every normal path, by a
    call to f."""
    for ci in sorted(repo.all_classes(), key=lambda c: c.qualname):
        sp = ci.methods.get("set_params")
        if sp is None or (only is not None and ci.name not in only):
            continue
        derivers = {}  # source attr -> (method name, derived attr)
        for mname, m in ci.methods.items():
            if mname in ("__init__", "set_params", "get_params", "fit"):
                continue
            for a, st, tgt in self_attr_stores(m.node):
                if not a.endswith("_") or not isinstance(st, ast.Assign):
                    continue
                v = st.value
                # self.X_ = self.Y.<name>
                if isinstance(v, ast.Attribute) and is_self_attr(v.value):
                    derivers.setdefault(v.value.attr, (mname, a))
        if not derivers:
            continue
        cfg = build_cfg(sp.node)
        reach = cfg.reachable()
        for src_attr, (mname, derived) in sorted(derivers.items()):
            writes = [n for n in cfg.nodes if n.id in reach and n.kind == "stmt" and isinstance(n.ast, ast.Assign) and any(is_self_attr(t, src_attr) for t in assign_targets(n.ast))]
            refresh = {
                n.id
                for n in cfg.nodes
                if n.id in reach
                and n.ast is not None
                and n.kind in ("stmt", "return", "test")
                and any(isinstance(c, ast.Call) and isinstance(c.func, ast.Attribute) and is_self_attr(c.func, mname) for c in ast.walk(n.ast))
            }
            for w in writes:
                p = paths_avoiding(cfg, w, {cfg.exit.id}, refresh, follow=lambda a, lab, b: lab != "exc")
                if p is None:
                    ck.holds(rule, sp, w.ast, f"every normal path from this write of self.{src_attr} calls self.{mname}() (recomputes self.{derived})")
                else:
                    ck.violated(
                        rule,
                        sp,
                        w.ast,
                        f"self.{src_attr} is replaced but self.{derived} (computed from it by {mname}) is not recomputed on some path: the object keeps calling the old {src_attr}",
                        path=fmt_path(p),
                    )


def check_a_store(ck, repo):
    """SkLearnParameters (the parameter store of the SkBase family) keeps every value as it is
    given: clone() compares get_params of the copy with the original by identity"""
    for ci in repo.all_classes():
        if ci.name != "SkLearnParameters":
            continue
        init = ci.methods.get("__init__")
        if init is None or init.node.args.kwarg is None:
            continue
        kw = init.node.args.kwarg.arg
        for l in own_nodes(init.node):
            if isinstance(l, ast.For) and kw in src_of(l.iter) and isinstance(l.target, ast.Tuple) and len(l.target.elts) == 2 and isinstance(l.target.elts[1], ast.Name):
                v = l.target.elts[1].id
                reb = [s_ for s_ in ast.walk(l) if isinstance(s_, (ast.Assign, ast.AugAssign)) and any(isinstance(t_, ast.Name) and t_.id == v for t_ in (s_.targets if isinstance(s_, ast.Assign) else [s_.target]))]
                sets = [c_ for c_ in ast.walk(l) if isinstance(c_, ast.Call) and src_of(c_.func) == "setattr" and len(c_.args) == 3]
                okv = not reb and len(sets) == 1 and src_of(sets[0].args[2]) == v
                ck.verdict(okv, "C01.a", init, reb[0] if reb else (sets[0] if sets else l), "every value is stored as given (same object)", f"the value stored is not the object given ({src_of(reb[0])[:50] if reb else 'no direct setattr of the value'}): get_params returns a copy, so sklearn.base.clone refuses the estimator (its sanity check compares parameters by identity) and set_params of untouched keys changes their identity")


def check_g_ctor(ck, repo):
    """state the constructor derives from a parameter (self.A = f(p), A not itself a
    parameter) and that other methods read: the inherited set_params only rebinds self.p,
    so unless the class's own set_params recomputes self.A the object keeps running with
    the value derived from the old p while get_params reports the new one."""
    from .common import hyper_params

    n = 0
    for ci in estimator_classes(repo):
        if not is_sklearn_estimator(repo, ci):
            continue
        init = ci.methods.get("__init__")
        if init is None:
            continue
        params = set(init.named_params[1:])
        allp = hyper_params(repo, ci) | params
        rd = None
        for a, st, tgt in self_attr_stores(init.node):
            if a in allp or not isinstance(st, ast.Assign):
                continue
            n += 1
            if rd is None:
                rd = ReachingDefs(init.node)
            at = rd.node_of(st)
            if at is None:
                continue
            dep = sorted(p_ for p_ in params if rd.depends_on(st.value, at, {p_}, {p_}))
            if not dep:
                ck.holds("C01.g", init, st, f"self.{a} does not depend on a constructor parameter", nontrivial=False)
                continue
            readers = sorted(mn for mn, m in ci.methods.items() if mn not in ("__init__", "set_params") and any(is_self_attr(x, a) and isinstance(x.ctx, ast.Load) for x in ast.walk(m.node)))
            sp_owner, sp = repo.find_method(ci, "set_params")
            refreshed = sp is not None and any(a_ == a for a_, _s, _t in self_attr_stores(sp.node))
            if readers and not refreshed:
                ck.violated("C01.g", init, st, f"self.{a} is computed from the parameter(s) {dep} in the constructor and read by {readers[:4]}, but set_params({dep[0]}=...) only rebinds self.{dep[0]}: the estimator reports the new value through get_params and keeps behaving according to the old one (clone-then-set_params, as a grid search does, is silently wrong)")
            else:
                ck.holds("C01.g", init, st, f"self.{a} derived from {dep}: " + ("recomputed by set_params" if refreshed else "read by no other method"))
    ck.holds("C01.g", None, "constructor-derived state", f"{n} non-parameter attributes assigned by constructors examined", file="-", function="-", line=0)


def check_h(ck, repo):
    """a nested `self.A.set_params(**sub)` (or `m.set_params(**p)` for m drawn
    from self.A) must act on the object that stays in self.A: no assignment of
    self.A may follow it inside set_params, or a call giving both the object
    and one of its prefixed keys sends the prefixed value to the discarded
    object."""
    for ci in sorted(repo.all_classes(), key=lambda c: c.qualname):
        sp = ci.methods.get("set_params")
        if sp is None:
            continue
        recv = dict(_setparams_receivers(sp))
        # direct form, whatever the spelling of the keyword mapping: self.A.set_params(**<expr>)
        for c_ in own_nodes(sp.node):
            if isinstance(c_, ast.Call) and isinstance(c_.func, ast.Attribute) and c_.func.attr == "set_params" and is_self_attr(c_.func.value) and any(k.arg is None for k in c_.keywords):
                if not any(a_ == c_.func.value.attr for a_, _i in recv.values()):
                    recv[f"\0{c_.func.value.attr}"] = (c_.func.value.attr, None)
        if not recv:
            continue
        cfg = build_cfg(sp.node)
        reach = cfg.reachable()
        for var, (attr, _idx) in sorted(recv.items()):
            if var.startswith("\0"):
                calls = [n for n in cfg.nodes if n.id in reach and n.ast is not None and n.kind in ("stmt", "return", "test") and any(isinstance(c, ast.Call) and isinstance(c.func, ast.Attribute) and c.func.attr == "set_params" and is_self_attr(c.func.value, attr) for c in ast.walk(n.ast))]
                var = "..."
            else:
                calls = [
                    n
                    for n in cfg.nodes
                    if n.id in reach
                    and n.ast is not None
                    and n.kind in ("stmt", "return", "test")
                    and any(isinstance(c, ast.Call) and isinstance(c.func, ast.Attribute) and c.func.attr == "set_params" and any(k.arg is None and isinstance(k.value, ast.Name) and k.value.id == var for k in c.keywords) for c in ast.walk(n.ast))
                ]
            stores = {n.id: n for n in cfg.nodes if n.id in reach and n.kind == "stmt" and isinstance(n.ast, (ast.Assign, ast.AnnAssign, ast.AugAssign)) and any(is_self_attr(t, attr) for t in assign_targets(n.ast))}
            for c in calls:
                p = paths_avoiding(cfg, c, set(stores), set(), follow=lambda a, lab, b: lab != "exc") if stores else None
                if p is None:
                    ck.holds("C01.h", sp, c.ast, f"self.{attr} is not replaced after its nested set_params(**{var})")
                else:
                    ck.violated(
                        "C01.h",
                        sp,
                        p[-1].ast,
                        f"self.{attr} is replaced after `{src_of(c.ast)}`: when one call gives both '{attr}' and one of its prefixed keys, the prefixed value is set on the discarded object and get_params no longer reports it",
                        path=fmt_path(p),
                    )


_IMMUTABLE_CALLS = {"tuple", "frozenset", "float", "int", "str", "bool"}


def _immutable_default(d: ast.AST) -> bool:
    if isinstance(d, ast.Constant):
        return True
    if isinstance(d, ast.UnaryOp):
        return _immutable_default(d.operand)
    if isinstance(d, ast.Tuple):
        return all(_immutable_default(e) for e in d.elts)
    if isinstance(d, (ast.Name, ast.Attribute)):
        return True  # a module-level constant, function or type: shared by design
    if isinstance(d, ast.BinOp):
        return _immutable_default(d.left) and _immutable_default(d.right)
    if isinstance(d, ast.Call) and isinstance(d.func, ast.Name) and d.func.id in _IMMUTABLE_CALLS:
        return all(_immutable_default(a) for a in d.args)
    return False


def check_i(ck, repo):
    """constructor defaults are evaluated once: an estimator instance, list or
    dict there is one object shared by every default-built instance, so a nested
    set_params on one instance changes what the others report."""
    for ci in estimator_classes(repo):
        init = ci.methods.get("__init__")
        if init is None:
            continue
        a = init.node.args
        pos = a.posonlyargs + a.args
        pairs = list(zip(pos[len(pos) - len(a.defaults) :], a.defaults)) + [(x, d) for x, d in zip(a.kwonlyargs, a.kw_defaults) if d is not None]
        for arg, d in pairs:
            if _immutable_default(d):
                ck.holds("C01.i", init, f"{arg.arg}={src_of(d)}", "immutable default", nontrivial=False)
            else:
                ck.violated("C01.i", init, f"{arg.arg}={src_of(d)}", f"{ci.name}.__init__: the default of '{arg.arg}' is a mutable object created once at definition time and shared by all default-built instances: set_params({arg.arg}__...=) on one instance changes the parameters of the others")


def check_j(ck, repo):
    """get_params hands out a mapping the caller may edit (and the wrappers of
    this package do: `res = self.P.to_dict(); res["model"] = ..`): what it
    returns is built at the call, never an object kept in an attribute"""
    from .sem import effects
    from engine.effects import direct

    eff = effects(repo)
    for ci in sorted(repo.all_classes(), key=lambda c: c.qualname):
        for mname in ("get_params", "to_dict"):
            fi = ci.methods.get(mname)
            if fi is None:
                continue
            try:
                cfg, IN, to_dict = eff._states(fi)
            except Exception:
                continue
            bad = None
            for n in cfg.nodes:
                if n.kind == "return" and n.ast is not None and n.ast.value is not None and n.id in IN:
                    roots = direct(eff.alias(n.ast.value, to_dict(IN[n.id]), fi))
                    kept = sorted(r for r in roots if r.startswith("self."))
                    if kept:
                        bad = (n.ast, kept)
            if bad is None:
                ck.holds("C01.j", fi, f"{ci.name}.{mname}: a mapping built at the call", "the returned mapping is not an object stored on the estimator")
            else:
                ck.violated("C01.j", fi, bad[0], f"{ci.name}.{mname} returns the object kept in {bad[1][0]}: callers that complete or edit the returned mapping (the learner/stacking wrappers add model__* keys, SkBase.set_params updates it) change the stored parameters, so later get_params/clone report keys and values that were never set")


def run(ck):
    repo = ck.repo
    for k, v in RULES.items():
        ck.rule(k, v)
    check_a(ck, repo)
    check_b(ck, repo)
    check_c(ck, repo)
    nf = check_d(ck, repo)
    check_e(ck, repo)
    check_f(ck, repo)
    check_g(ck, repo)
    check_g_ctor(ck, repo)
    check_a_store(ck, repo)
    check_h(ck, repo)
    check_i(ck, repo)
    check_j(ck, repo)
    ck.extra["estimator_classes"] = len(estimator_classes(repo))
    ck.extra["key_families"] = nf
    # vacuity guards (instance counts confirmed by hand on the pinned tree)
    ck.require_count("C01.a", 72, "constructor parameters of 30+ estimator classes")
    ck.require_count("C01.b", 2, "SkBase, SkBaseTransformLearner, SkBaseTransformStacking, ClassifierAfterKMeans")
    ck.require_count("C01.d", 2, "model__, models_{i}__, c_, e_")
    ck.require_count("C01.e", 2, "model/method and models/method literal keys")
    ck.require_count("C01.h", 2, "nested set_params of the learner, the stacking and ClassifierAfterKMeans")
    ck.require_count("C01.j", 3, "custom get_params and SkLearnParameters.to_dict")
    ck.require_count("C01.i", 80, "constructor defaults of the estimator classes")


# ---------------------------------------------------------------- self-test
_L = "mlinsights/sklapi/sklearn_base_transform_learner.py"
_S = "mlinsights/sklapi/sklearn_base_transform_stacking.py"
_B = "mlinsights/sklapi/sklearn_base.py"
_K = "mlinsights/mlmodel/classification_kmeans.py"
WITNESSES = [
    {"name": "learner-no-return-self", "file": _L, "rule": "C01.b", "old": "        self._set_method(self.method)\n        return self\n", "new": "        self._set_method(self.method)\n"},
    {"name": "learner-stale-method_", "file": _L, "rule": "C01.g", "old": "        self._set_method(self.method)\n        return self\n", "new": "        return self\n"},
    {"name": "learner-method-dead-store", "file": _L, "rule": "C01.e", "old": '            self.method = values["method"]\n            del values["method"]\n', "new": '            del values["method"]\n        if "method" in values:\n            self.method = values["method"]\n'},
    {"name": "stacking-one-digit-index", "file": _S, "rule": "C01.d", "old": "k[d + len(si[0]) + 2 :]", "new": "k[d + 3 :]"},
    {"name": "stacking-wrong-index", "file": _S, "rule": "C01.d", "old": "i = int(si[0])", "new": "i = int(si[1])"},
    {"name": "stacking-no-return", "file": _S, "rule": "C01.b", "old": "                m.set_params(**p)\n        return self\n", "new": "                m.set_params(**p)\n"},
    {"name": "skbase-stored-wins", "file": _B, "rule": "C01.f", "old": "        params = self.P.to_dict()\n        params.update(values)\n", "new": "        params = dict(values)\n        params.update(self.P.to_dict())\n"},
    {"name": "skbase-lossy", "file": _B, "rule": "C01.f", "old": "        params.update(values)\n", "new": "        params = dict(values)\n"},
    {"name": "cak-swapped-receivers", "file": _K, "rule": "C01.d", "old": "        self.clus.set_params(**pc)\n        self.estimator.set_params(**pe)\n", "new": "        self.clus.set_params(**pe)\n        self.estimator.set_params(**pc)\n"},
    {"name": "cak-wrong-prefix-len", "file": _K, "rule": "C01.d", "old": "pe[k[2:]] = v", "new": "pe[k[1:]] = v"},
    {"name": "cak-drops-estimator-key", "file": _K, "rule": "C01.c", "old": 'res = {"estimator": self.estimator, "clus": self.clus}', "new": 'res = {"clus": self.clus}'},
    {"name": "stacking-single-digit-char", "file": _S, "rule": "C01.d", "old": "            i = int(si[0])\n", "new": "            i = int(k[d])\n"},
    {"name": "anmf-drops-none-values", "file": "mlinsights/mlmodel/anmf_predictor.py", "rule": "C01.c", "old": "            if hasattr(self, k):\n                res[k] = getattr(self, k)\n", "new": "            v = getattr(self, k, None)\n            if v is not None:\n                res[k] = v\n"},
    {"name": "interval-param-renamed-attr", "file": "mlinsights/mlmodel/interval_regressor.py", "rule": "C01.a", "old": "        self.alpha = alpha\n", "new": "        self.alpha_ = alpha\n"},
    {"name": "interval-param-swapped", "file": "mlinsights/mlmodel/interval_regressor.py", "rule": "C01.a", "old": "        self.n_jobs = n_jobs\n", "new": "        self.n_jobs = n_estimators\n"},
    {"name": "kmeansl1-forward-swapped", "file": "mlinsights/mlmodel/kmeans_l1.py", "rule": "C01.a", "old": "            n_init=n_init,\n            max_iter=max_iter,", "new": "            n_init=max_iter,\n            max_iter=n_init,"},
    {"name": "quantile-param-modified", "file": "mlinsights/mlmodel/quantile_regression.py", "rule": "C01.a", "old": "        self.delta = delta\n", "new": "        self.delta = max(delta, 1e-6)\n"},
    {"name": "cak-replace-after-nested", "file": _K, "rule": "C01.h", "old": '        self.clus.set_params(**pc)\n        self.estimator.set_params(**pe)\n', "new": '        self.clus.set_params(**pc)\n        self.estimator.set_params(**pe)\n        if "estimator_" in values:\n            self.estimator = values["estimator_"]\n'},
    {"name": "piecewise-shared-default", "file": "mlinsights/mlmodel/piecewise_estimator.py", "rule": "C01.i", "old": "    def __init__(self, binner=None, estimator=None, n_jobs=None, verbose=False):\n        if estimator is None:\n            estimator = LinearRegression()", "new": "    def __init__(self, binner=None, estimator=LinearRegression(), n_jobs=None, verbose=False):\n        if estimator is None:\n            estimator = LinearRegression()"},
    {"name": "cak-skip-literal-keys-then-late-store", "file": _K, "rule": "C01.h", "old": '        self.clus.set_params(**pc)\n', "new": '        self.clus.set_params(**pc)\n        self.clus = self.clus\n'},
    {"name": "parameters-to-dict-cached", "file": "mlinsights/sklapi/sklearn_parameters.py", "rule": "C01.j", "old": "        return {k: getattr(self, k) for k in self.Keys}\n", "new": "        if getattr(self, \"_dict\", None) is None:\n            self._dict = {k: getattr(self, k) for k in self.Keys}\n        return self._dict\n"},
    {"name": "ar-estimator-conditional", "file": "mlinsights/timeseries/ar.py", "rule": "C01.a", "old": "        else:\n            self.estimator = estimator\n", "new": ""},
]
# witnesses of the rules added after the ninth round of independent changes
WITNESSES += [
    {"name": "prefix-removed-everywhere", "file": _L, "rule": "C01.d", "old": "pars = {k[d:]: v for k, v in values.items()}", "new": "pars = {k.replace(\"model__\", \"\"): v for k, v in values.items()}"},
]


TWINS = [
    {"name": "learner-rename-local", "file": _L, "old": "        d = len(\"model__\")\n        pars = {k[d:]: v for k, v in values.items()}", "new": "        plen = len(\"model__\")\n        pars = {key[plen:]: val for key, val in values.items()}"},
    {"name": "stacking-use-split-result", "file": _S, "old": "pars[i][k[d + len(si[0]) + 2 :]] = v", "new": "pars[i][si[1]] = v"},
    {"name": "skbase-merge-literal", "file": _B, "old": "        params = self.P.to_dict()\n        params.update(values)\n        self.P = SkLearnParameters(**params)\n", "new": "        merged = dict(self.P.to_dict())\n        merged.update(values)\n        self.P = SkLearnParameters(**merged)\n"},
    {"name": "cak-pop-to-del", "file": _K, "old": '            self.estimator = values.pop("estimator")\n', "new": '            self.estimator = values["estimator"]\n            del values["estimator"]\n'},
    {"name": "cak-skip-object-keys-in-loop", "file": _K, "old": "        for k, v in values.items():\n            if k.startswith(\"e_\"):", "new": "        for k, v in values.items():\n            if k in (\"estimator\", \"clus\"):\n                continue\n            if k.startswith(\"e_\"):"},
    {"name": "dtlr-init-default-inline", "file": "mlinsights/mlmodel/decision_tree_logreg.py", "old": "        if estimator is None:\n            self.estimator = LogisticRegression()\n        else:\n            self.estimator = estimator\n", "new": "        if estimator is None:\n            estimator = LogisticRegression()\n        self.estimator = estimator\n"},
]
MIN_WITNESSES = 10
