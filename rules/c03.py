"""C03 — a fitted model depends only on parameters, data and seeds.

  C03.a  every generator constructed on a fit path is seeded (never OS entropy)
  C03.b  documented-deterministic estimators never use the global stream when
         random_state is given
  C03.c  lazily built fitted caches are reset by fit
  C03.d  no fitted attribute is read on a fit path before this fit assigned it
  C03.e  a fitted attribute assigned on some fit paths only is read at predict
         time under the very condition it was written under
"""

from __future__ import annotations

import ast
from typing import Dict, FrozenSet, List, Optional, Set, Tuple

from engine.src import ClassInfo, FunctionInfo, own_nodes, own_nodes_incl_lambda, src_of, dotted
from engine.cfg import build_cfg, forward, Node
from engine.util import is_self_attr, assign_targets, const_value, enclosing_tests, names_in, enclosing_stmt
from .common import estimator_classes, hyper_params, resolve_call, reachable_functions, explicit_parent_call

RULES = {
    "C03.a": "a generator constructor (RandomState/default_rng/Random) receives a seed that is definitely not None, or is check_random_state(...)",
    "C03.b": "for estimators documented as deterministic under an integer random_state, global-stream draws on the fit path are guarded by 'random_state is None'",
    "C03.c": "fitted attributes assigned lazily outside fit (caches) are reassigned or deleted on every normal path of fit",
    "C03.d": "on every path of fit (helpers inlined), a read of self.<name>_ / hasattr(self,'<name>_') is dominated by an assignment made by this fit",
    "C03.e": "a fitted attribute that only some fit paths assign is read by predict-reachable code only under the guard it was written under",
    "C03.k": "a cache of fitted pipeline steps is keyed by the data the step is fitted on (the step's own input), the same variable handed to the fitting call and to transform on a hit",
    "C03.l": "on fit paths the iteration order of a set (hash order) does not reach fitted state: a set is numbered or laid out in sequence only after sorted()",
    "C03.g": "where predict-time code has scikit-learn check the input against n_features_in_, every fit path records it (validator with reset, parent fit, or assignment): no width of an earlier fit survives a refit",
    "C03.f": "the object trained by fit is a clone or a fresh object, never the one held in a hyper-parameter (whose fitted state, warm starts included, would survive into the next fit); documented in-place wrappers listed",
}

RNG_CTORS = {"numpy.random.RandomState", "numpy.random.default_rng", "numpy.random.Generator", "random.Random", "numpy.random.mtrand.RandomState"}
# scikit-learn utilities drawing from the global stream unless random_state is given:
# name -> position of random_state among the positional arguments (None: keyword only in practice)
SEEDABLE_UTILS = {"sample_without_replacement": 3, "shuffle": None, "resample": None, "train_test_split": None, "_random_choice_csc": 3, "random_choice_csc": 3, "randomized_svd": None, "make_blobs": None, "make_classification": None, "make_regression": None}
GLOBAL_DRAWS = {
    "rand", "randn", "randint", "random", "random_sample", "permutation", "shuffle", "choice", "normal", "uniform", "sample",
    "ranf", "binomial", "poisson", "exponential", "beta", "gamma", "standard_normal", "bytes", "random_integers",
}
DETERMINISTIC_WITH_INT_SEED = [
    ("mlinsights.mlmodel.kmeans_l1", "KMeansL1L2"),
    ("mlinsights.mlmodel.sklearn_transform_inv_fct", "PermutationReciprocalTransformer"),
]
# single-symbol exemptions for C03.a: (function qualname suffix, local) -> reason
A_EXEMPT: Dict[Tuple[str, str], str] = {}

PREDICT_ENTRY = ("predict", "predict_proba", "predict_log_proba", "decision_function", "transform", "score", "predict_all", "predict_sorted")
# (class, attr): why a predict-time lazily built attribute needs no reset
C_EXEMPT: Dict[Tuple[str, str], str] = {}


def _fitted_name(a: str) -> bool:
    return a.endswith("_") and not a.startswith("__") and not a.endswith("__")


def _private_state(a: str) -> bool:
    """private attributes (self._categories): only their in-place MUTATION on a
    fit path is tracked, plain reads of private configuration are not."""
    return a.startswith("_") and not a.startswith("__") and not a.endswith("_")


# ------------------------------------------------------------------ C03.a
def _nonnull_facts(fi: FunctionInfo):
    """forward must-analysis: set of expression texts known to be not None."""
    cfg = build_cfg(fi.node)

    def facts_of_test(t: ast.AST, truth: bool) -> Set[str]:
        out: Set[str] = set()
        if isinstance(t, ast.UnaryOp) and isinstance(t.op, ast.Not):
            return facts_of_test(t.operand, not truth)
        if isinstance(t, ast.BoolOp):
            if isinstance(t.op, ast.And) and truth:
                for v in t.values:
                    out |= facts_of_test(v, True)
            if isinstance(t.op, ast.Or) and not truth:
                for v in t.values:
                    out |= facts_of_test(v, False)
            return out
        if isinstance(t, ast.Compare) and len(t.ops) == 1 and isinstance(t.comparators[0], ast.Constant) and t.comparators[0].value is None:
            if isinstance(t.ops[0], (ast.IsNot, ast.NotEq)) and truth:
                out.add(src_of(t.left))
            if isinstance(t.ops[0], (ast.Is, ast.Eq)) and not truth:
                out.add(src_of(t.left))
        return out

    def kills(n: Node) -> Set[str]:
        out = set()
        if n.kind in ("stmt", "for", "with") and n.ast is not None:
            for t in assign_targets(n.ast):
                out.add(src_of(t))
        return out

    def gens(n: Node) -> Set[str]:
        out = set()
        a = n.ast
        if n.kind == "stmt" and isinstance(a, ast.Assign) and len(a.targets) == 1:
            v = a.value
            ok = False
            if isinstance(v, ast.Constant) and v.value is not None:
                ok = True
            if isinstance(v, ast.Call):
                d = dotted(v.func) or ""
                if d.split(".")[-1] in ("check_random_state", "RandomState", "default_rng", "randint", "int", "len"):
                    ok = True
            if ok:
                out.add(src_of(a.targets[0]))
        return out

    def transfer(n: Node, st: FrozenSet[str], label: str):
        if n.kind == "test" and n.ast is not None and label in ("true", "false"):
            return st | frozenset(facts_of_test(n.ast, label == "true"))
        if label == "exc":
            return st
        k = kills(n)
        if k:
            st = frozenset(x for x in st if not any(x == kk or x.startswith(kk + ".") or x.startswith(kk + "[") for kk in k))
        g = gens(n)
        if g:
            st = st | frozenset(g)
        return st

    IN = forward(cfg, frozenset(), transfer, lambda a, b: a & b)
    return cfg, IN


def check_a(ck, repo):
    n = 0
    for fi in sorted(repo.all_functions.values(), key=lambda f: f.qualname):
        if fi.module.name.startswith("mlinsights.ext_test_case"):
            continue
        calls = []
        for c in own_nodes_incl_lambda(fi.node):
            if isinstance(c, ast.Call):
                d = repo.resolve_expr(fi.module, c.func)
                if d in RNG_CTORS:
                    calls.append((c, d))
                elif d and d.split(".")[-1] == "check_random_state" and d.startswith("sklearn."):
                    n += 1
                    ck.holds("C03.a", fi, enclosing_stmt(c), "check_random_state maps None to the global stream, an int to a seeded generator")
        if not calls:
            continue
        cfg, IN = _nonnull_facts(fi)
        node_of = {}
        for nd in cfg.nodes:
            if nd.ast is not None and nd.id in IN:
                for sub in ast.walk(nd.ast) if nd.kind != "for" else ast.walk(nd.ast.iter):
                    node_of.setdefault(id(sub), nd)
        for c, d in calls:
            n += 1
            st = enclosing_stmt(c)
            tgt = ""
            if isinstance(st, ast.Assign) and len(st.targets) == 1 and isinstance(st.targets[0], ast.Name):
                tgt = st.targets[0].id
            ex = None
            for (suffix, local), why in A_EXEMPT.items():
                if fi.qualname.endswith(suffix) and local == tgt:
                    ex = why
            seed = c.args[0] if c.args else (c.keywords[0].value if c.keywords and c.keywords[0].arg in ("seed",) else None)
            if seed is None:
                if ex:
                    ck.holds("C03.a", fi, st, f"exempt: {ex}", nontrivial=False)
                else:
                    ck.violated("C03.a", fi, st, f"{d}() without a seed draws from OS entropy: two fits with the same data, parameters and global seed differ")
                continue
            if isinstance(seed, ast.Constant) and seed.value is not None:
                ck.holds("C03.a", fi, st, "literal seed")
                continue
            nd = node_of.get(id(c))
            facts = IN.get(nd.id, frozenset()) if nd is not None else frozenset()
            # facts established by the enclosing IfExp
            extra = set()
            for t, pol in enclosing_tests(c, fi.node):
                if isinstance(t, ast.Compare) and len(t.ops) == 1 and isinstance(t.comparators[0], ast.Constant) and t.comparators[0].value is None:
                    if (isinstance(t.ops[0], (ast.IsNot, ast.NotEq)) and pol) or (isinstance(t.ops[0], (ast.Is, ast.Eq)) and not pol):
                        extra.add(src_of(t.left))
                if isinstance(t, ast.BoolOp) and isinstance(t.op, ast.And) and pol:
                    for v in t.values:
                        if isinstance(v, ast.Compare) and len(v.ops) == 1 and isinstance(v.ops[0], (ast.IsNot, ast.NotEq)) and isinstance(v.comparators[0], ast.Constant) and v.comparators[0].value is None:
                            extra.add(src_of(v.left))
            if src_of(seed) in facts or src_of(seed) in extra:
                ck.holds("C03.a", fi, st, f"seed {src_of(seed)} is not None on every path to this call")
            else:
                ck.violated(
                    "C03.a",
                    fi,
                    st,
                    f"{d}({src_of(seed)}): the seed may be None here (no dominating 'is not None' test), which seeds the generator from OS entropy; use check_random_state",
                )
    return n


SEED_NAMES = {"random_state", "seed"}


def check_seed_truthiness(ck, repo):
    """0 is a valid seed: a seed must be compared with None, never tested for truth."""
    n = 0
    for fi in sorted(repo.all_functions.values(), key=lambda f: f.qualname):
        if fi.module.name.startswith("mlinsights.ext_test_case"):
            continue
        tests = []
        for x in own_nodes_incl_lambda(fi.node):
            if isinstance(x, (ast.If, ast.While, ast.IfExp)):
                tests.append(x.test)
            elif isinstance(x, ast.Assert):
                tests.append(x.test)
        for t in tests:
            stack = [t]
            while stack:
                e = stack.pop()
                if isinstance(e, ast.BoolOp):
                    stack.extend(e.values)
                elif isinstance(e, ast.UnaryOp) and isinstance(e.op, ast.Not):
                    stack.append(e.operand)
                elif (
                    (isinstance(e, ast.Name) and e.id in SEED_NAMES)
                    or (isinstance(e, ast.Attribute) and e.attr in SEED_NAMES)
                    or (isinstance(e, ast.Call) and isinstance(e.func, ast.Name) and e.func.id == "getattr" and len(e.args) >= 2 and const_value(e.args[1]) in SEED_NAMES)
                ):
                    n += 1
                    ck.violated("C03.b", fi, t, f"truth test on the seed `{src_of(e)}`: random_state=0 is treated like None, so an integer seed no longer makes the result independent of the global stream")
    if n == 0:
        ck.holds("C03.b", None, "no truthiness test on random_state/seed in the package", "seeds are only compared with None", file="mlinsights", function="*", line=0, nontrivial=False)


# ------------------------------------------------------------------ C03.b
def check_b(ck, repo):
    for mod, cname in DETERMINISTIC_WITH_INT_SEED:
        ci = repo.cls(mod, cname)
        _, fit = repo.find_method(ci, "fit")
        if fit is None:
            ck.unknown("C03.b", None, f"{cname}.fit", "fit not found", file=ci.module.relpath, function=cname)
            continue
        funcs = reachable_functions(repo, [fit])
        n_draw = 0
        for fi in funcs:
            for c in own_nodes_incl_lambda(fi.node):
                if not isinstance(c, ast.Call):
                    continue
                d = repo.resolve_expr(fi.module, c.func) or ""
                tail_ = d.split(".")[-1]
                if d.startswith("sklearn.") and tail_ in SEEDABLE_UTILS:
                    # utilities whose `random_state=None` default means the global stream
                    pos_ = SEEDABLE_UTILS[tail_]
                    rs_ = next((k.value for k in c.keywords if k.arg == "random_state"), None)
                    if rs_ is None and pos_ is not None and len(c.args) > pos_:
                        rs_ = c.args[pos_]
                    n_draw += 1
                    if rs_ is None or (isinstance(rs_, ast.Constant) and rs_.value is None):
                        ck.violated("C03.b", fi, enclosing_stmt(c), f"{cname}: {d} is called without random_state on the fit path: it draws from NumPy's global stream, so the fitted model depends on the global seed even when an integer random_state is given")
                    else:
                        ck.holds("C03.b", fi, enclosing_stmt(c), f"{cname}: {tail_} is seeded with {src_of(rs_)}")
                    continue
                if d.startswith("numpy.random.") and d.split(".")[-1] in GLOBAL_DRAWS:
                    n_draw += 1
                    guarded = False
                    for t, pol in enclosing_tests(c, fi.node):
                        if isinstance(t, ast.Compare) and len(t.ops) == 1 and "random_state" in src_of(t.left) and isinstance(t.comparators[0], ast.Constant) and t.comparators[0].value is None:
                            if (isinstance(t.ops[0], (ast.Is, ast.Eq)) and pol) or (isinstance(t.ops[0], (ast.IsNot, ast.NotEq)) and not pol):
                                guarded = True
                    if guarded:
                        ck.holds("C03.b", fi, enclosing_stmt(c), f"{cname}: global-stream draw only when random_state is None")
                    else:
                        ck.violated("C03.b", fi, enclosing_stmt(c), f"{cname}: {d} draws from the global stream on the fit path even when an integer random_state is given")
        ck.holds("C03.b", fit, f"{cname}.fit reachable set ({len(funcs)} functions, {n_draw} global draws)", "no unguarded global-stream draw")


# ------------------------------------------------------------- attribute flow
class AttrFlow:
    """Per class: which fitted attributes a function must-assign, and which it
    reads before this invocation assigned them (helpers inlined)."""

    TOP = "*"

    def __init__(self, repo, ci: ClassInfo):
        self.repo = repo
        self.ci = ci
        self.mro = [c for c in repo.mro(ci) if isinstance(c, ClassInfo)]
        self.mro_names = {c.qualname for c in self.mro}
        self.memo: Dict[Tuple[str, str], Tuple[FrozenSet[str], list]] = {}
        from engine import extsrc

        self.own_assigned: Set[str] = set()
        for c in self.mro:
            for m in c.methods.values():
                sn = m.params[0] if m.params else "self"
                for n in own_nodes(m.node):
                    if isinstance(n, ast.Attribute) and isinstance(n.ctx, ast.Store) and isinstance(n.value, ast.Name) and n.value.id == sn and _fitted_name(n.attr):
                        self.own_assigned.add(n.attr)
        self.parent_assigned: Set[str] = set()
        for e in repo.external_bases(ci):
            if e.startswith("sklearn."):
                self.parent_assigned |= extsrc.assigned_attrs(e)
        self.props = set()
        for c in self.mro:
            for n in c.node.body:
                if isinstance(n, ast.FunctionDef) and any(isinstance(d, ast.Name) and d.id == "property" for d in n.decorator_list):
                    self.props.add(n.name)

    def covered(self, attr: str, st) -> bool:
        """is `attr` assigned in state st?  TOP (the external parent's fit ran)
        covers what the parent's source assigns and attributes the repository
        classes never assign themselves."""
        if attr in st:
            return True
        if self.TOP in st:
            return attr in self.parent_assigned or attr not in self.own_assigned
        return False

    def _selfname(self, fi: FunctionInfo) -> Optional[str]:
        if fi.cls is not None and fi.parent is None and fi.cls.qualname in self.mro_names:
            ps = fi.params
            return ps[0] if ps else None
        return None

    def summary(self, fi: FunctionInfo, selfname: Optional[str], stack=()) -> Tuple[FrozenSet[str], list]:
        key = (fi.qualname, selfname or "")
        if key in self.memo:
            return self.memo[key]
        if key in stack or selfname is None:
            return frozenset(), []
        cfg = build_cfg(fi.node)
        reads: list = []  # (attr, ast node, fi, chain)

        def events(n: Node):
            """ordered list of ('read', attr, node) / ('assign', attr) / ('call', FunctionInfo, selfname') / ('top',)"""
            a = n.ast
            ev = []
            if a is None or n.kind in ("except", "dispatch", "join"):
                return ev
            if isinstance(a, (ast.FunctionDef, ast.AsyncFunctionDef, ast.ClassDef)):
                return ev
            exprs: List[ast.AST] = []
            targets: List[ast.AST] = []
            if n.kind == "stmt":
                if isinstance(a, (ast.Assign, ast.AnnAssign)):
                    if getattr(a, "value", None) is not None:
                        exprs.append(a.value)
                    targets = assign_targets(a)
                elif isinstance(a, ast.AugAssign):
                    exprs.append(a.value)
                    exprs.append(a.target)
                    targets = [a.target]
                elif isinstance(a, ast.Delete):
                    for t in a.targets:
                        if is_self_attr(t, None, selfname) and _fitted_name(t.attr):
                            ev.append(("assign", t.attr))
                    return ev
                else:
                    exprs.append(a)
            elif n.kind in ("test", "return"):
                exprs.append(a if n.kind == "test" else (a.value if a.value is not None else ast.Constant(None)))
            elif n.kind == "for":
                exprs.append(a.iter)
                targets = assign_targets(a)
            elif n.kind == "with":
                for it in a.items:
                    exprs.append(it.context_expr)
                targets = assign_targets(a)
            for e in exprs:
                ev.extend(self._expr_events(e, fi, selfname))
            for t in targets:
                if is_self_attr(t, None, selfname):
                    if _fitted_name(t.attr) or _private_state(t.attr):
                        ev.append(("assign", t.attr))
                else:
                    # in-place update of private state (self._cache[k] = v): the object of a
                    # previous fit keeps growing unless this fit assigned it first
                    b = t
                    while isinstance(b, ast.Subscript):
                        b = b.value
                    if b is not t and is_self_attr(b, None, selfname) and _private_state(b.attr):
                        ev.append(("read", b.attr, t))
                    # reads inside subscripted targets: self.betas_[i, :] = ...
                    if isinstance(t, (ast.Subscript, ast.Attribute)):
                        ev.extend(self._expr_events(t, fi, selfname))
            return ev

        def transfer(n: Node, st: FrozenSet[str], label: str):
            if label == "exc":
                return st
            for e in events(n):
                if e[0] == "assign":
                    st = st | {e[1]}
                elif e[0] == "top":
                    st = st | {self.TOP}
                elif e[0] == "call":
                    m, _ = self.summary(e[1], e[2], stack + (key,))
                    st = st | m
            return st

        T = self.TOP

        def join(a, b):
            # TOP ("the external parent's fit assigned everything") is the unit of intersection
            r = a & b
            if T in a:
                r = r | b
            if T in b:
                r = r | a
            return r

        IN = forward(cfg, frozenset(), transfer, join)
        for n in cfg.nodes:
            if n.id not in IN:
                continue
            st = set(IN[n.id])
            for e in events(n):
                if e[0] == "read":
                    if not self.covered(e[1], st):
                        reads.append((e[1], e[2], fi, ""))
                elif e[0] == "assign":
                    st.add(e[1])
                elif e[0] == "top":
                    st.add(self.TOP)
                elif e[0] == "call":
                    m, r = self.summary(e[1], e[2], stack + (key,))
                    for attr, node, f2, chain in r:
                        if not self.covered(attr, st):
                            reads.append((attr, node, f2, f"{fi.qualname.split(':')[1]} -> " + chain))
                    st |= set(m)
        # a function without normal exit never returns: vacuously assigns everything
        must = IN.get(cfg.exit.id, frozenset([self.TOP]))
        self.memo[key] = (must, reads)
        return must, reads

    def _expr_events(self, e: ast.AST, fi: FunctionInfo, selfname: str):
        ev = []
        # evaluation order approximated by source position
        nodes = [x for x in ast.walk(e) if not isinstance(x, (ast.Lambda,))]
        nodes.sort(key=lambda x: (getattr(x, "end_lineno", 0) or 0, getattr(x, "end_col_offset", 0) or 0))
        for x in nodes:
            if isinstance(x, ast.Attribute) and isinstance(x.ctx, ast.Load) and isinstance(x.value, ast.Name) and x.value.id == selfname and _fitted_name(x.attr):
                par = getattr(x, "_parent", None)
                if isinstance(par, ast.Call) and par.func is x:
                    continue  # method call self.name_()
                if x.attr in self.props:
                    for c in self.mro:
                        for nn in c.node.body:
                            if isinstance(nn, ast.FunctionDef) and nn.name == x.attr and hasattr(nn, "_finfo"):
                                ev.append(("call", nn._finfo, nn._finfo.params[0]))
                                break
                        else:
                            continue
                        break
                    continue
                ev.append(("read", x.attr, x))
            elif isinstance(x, ast.Call):
                f = x.func
                if isinstance(f, ast.Name) and f.id in ("hasattr", "getattr") and len(x.args) >= 2 and isinstance(x.args[0], ast.Name) and x.args[0].id == selfname:
                    k = const_value(x.args[1])
                    if isinstance(k, str) and _fitted_name(k):
                        ev.append(("read", k, x))
                    continue
                par = explicit_parent_call(self.repo, fi, x, f.attr) if isinstance(f, ast.Attribute) else None
                if par is not None and not isinstance(par, ClassInfo):
                    if isinstance(f, ast.Attribute) and f.attr in ("fit", "fit_transform", "fit_predict", "_fit", "partial_fit"):
                        ev.append(("top",))
                    continue
                callee = resolve_call(self.repo, fi, x)
                if callee is None or callee.name == "__init__":
                    continue
                # self.m(...) or Parent.m(self, ...) or f(self, ...)
                cs = None
                if isinstance(f, ast.Attribute) and isinstance(f.value, ast.Name) and f.value.id == selfname:
                    cs = callee.params[0] if callee.params else None
                elif isinstance(f, ast.Attribute) and isinstance(f.value, ast.Call):
                    cs = callee.params[0] if callee.params else None
                else:
                    for i, a in enumerate(x.args):
                        if isinstance(a, ast.Name) and a.id == selfname:
                            ps = callee.named_params
                            if i < len(ps):
                                cs = ps[i]
                            break
                if cs is not None:
                    ev.append(("call", callee, cs))
        return ev


# ------------------------------------------------------------------ C03.d / c / e
def check_dce(ck, repo):
    n_fit = 0
    for ci in estimator_classes(repo):
        _, fit = repo.find_method(ci, "fit")
        if fit is None:
            continue
        # analyse each class against its own view of fit (inherited fits are analysed per subclass
        # only when the subclass overrides something fit calls)
        if "fit" not in ci.methods and not any(m in ci.methods for m in _self_calls(repo, fit)):
            continue
        n_fit += 1
        af = AttrFlow(repo, ci)
        sn = fit.params[0]
        must, reads = af.summary(fit, sn)
        # ---- d
        if not reads:
            ck.holds("C03.d", fit, f"{ci.name}.fit", f"every fitted attribute read on the fit path is assigned first (must-assigned at exit: {sorted(x for x in must if x != '*')[:8]}{' + parent fit' if '*' in must else ''})")
        seen = set()
        for attr, node, f2, chain in reads:
            k = (f2.qualname, attr, getattr(node, "lineno", 0))
            if k in seen:
                continue
            seen.add(k)
            ck.violated(
                "C03.d",
                f2,
                enclosing_stmt(node) if isinstance(node, ast.AST) and hasattr(node, "_parent") else node,
                f"{ci.name}.fit reads self.{attr} (via {chain}{f2.name}) before this fit assigned it: the value left by a previous fit influences the new model",
            )
        # ---- c: caches assigned outside fit-reachable code
        fit_funcs = {f.qualname for f in reachable_functions(repo, [fit])}
        pred_roots = []
        for m in PREDICT_ENTRY + ("get_fct_inv", "transform_bins", "kneighbors"):
            _, pf = repo.find_method(ci, m)
            if pf is not None:
                pred_roots.append(pf)
        pred_funcs = [f for f in reachable_functions(repo, pred_roots) if f.qualname not in fit_funcs]
        for pf in pred_funcs:
            if pf.cls is None or pf.cls.qualname not in af.mro_names or pf.name in ("__init__", "set_params"):
                continue
            psn = pf.params[0] if pf.params else "self"
            for n in own_nodes(pf.node):
                if isinstance(n, (ast.Assign, ast.AugAssign, ast.AnnAssign)):
                    for t in assign_targets(n):
                        if is_self_attr(t, None, psn) and _fitted_name(t.attr):
                            ex = C_EXEMPT.get((ci.name, t.attr))
                            if ex:
                                ck.holds("C03.c", pf, n, f"exempt: {ex}", nontrivial=False)
                            elif af.covered(t.attr, must):
                                ck.holds("C03.c", pf, n, f"cache self.{t.attr} is reset by {ci.name}.fit on every normal path")
                            else:
                                ck.violated(
                                    "C03.c",
                                    pf,
                                    n,
                                    f"self.{t.attr} is built lazily at predict time and {ci.name}.fit never resets it: after refitting on other data the stale cache answers queries",
                                )
        # ---- e: partially assigned attributes read at predict time
        may: Dict[str, List[Tuple[FunctionInfo, ast.AST]]] = {}
        for f in reachable_functions(repo, [fit]):
            if f.cls is None or f.cls.qualname not in af.mro_names:
                continue
            fsn = f.params[0] if f.params else "self"
            for n in own_nodes(f.node):
                if isinstance(n, (ast.Assign, ast.AugAssign, ast.AnnAssign)):
                    for t in assign_targets(n):
                        if is_self_attr(t, None, fsn) and _fitted_name(t.attr):
                            may.setdefault(t.attr, []).append((f, n))
        partial = {a: w for a, w in may.items() if not af.covered(a, must)}
        for attr, writes in sorted(partial.items()):
            wguards = None
            for f, n in writes:
                g = _guards(repo, af, f, n, fit, set())
                wguards = g if wguards is None else (wguards & g)
            wguards = wguards or set()
            # reads in predict-reachable functions (incl. fit-reachable helpers shared with predict)
            all_pred = reachable_functions(repo, pred_roots)
            n_reads = 0
            for pf in all_pred:
                if pf.cls is None or pf.cls.qualname not in af.mro_names or pf.qualname == fit.qualname:
                    continue
                psn = pf.params[0] if pf.params else "self"
                for x in own_nodes_incl_lambda(pf.node):
                    hit = None
                    if isinstance(x, ast.Attribute) and isinstance(x.ctx, ast.Load) and is_self_attr(x, attr, psn):
                        hit = x
                    if isinstance(x, ast.Call) and isinstance(x.func, ast.Name) and x.func.id in ("hasattr", "getattr") and len(x.args) >= 2 and isinstance(x.args[0], ast.Name) and x.args[0].id == psn and const_value(x.args[1]) == attr:
                        hit = x
                    if hit is None:
                        continue
                    n_reads += 1
                    rg = set()
                    for root in pred_roots:
                        rg |= _guards(repo, af, pf, hit, root, set())
                    hyper_w = {g for g in wguards}
                    if hyper_w and hyper_w <= rg:
                        ck.holds("C03.e", pf, enclosing_stmt(hit), f"self.{attr} is written under {sorted(hyper_w)} and read under the same guard")
                    else:
                        ck.violated(
                            "C03.e",
                            pf,
                            enclosing_stmt(hit),
                            f"self.{attr} is assigned only on some paths of {ci.name}.fit (guard {sorted(wguards) or 'data-dependent'}) and never reset, but read here without that guard: after refitting with another configuration the value of the previous fit is used",
                        )
            if n_reads == 0:
                ck.holds("C03.e", fit, f"self.{attr} (partial)", "assigned on some fit paths only, but no predict-reachable code reads it", nontrivial=False)
    return n_fit


def _self_calls(repo, fit: FunctionInfo) -> Set[str]:
    out = set()
    for f in reachable_functions(repo, [fit]):
        for n in own_nodes_incl_lambda(f.node):
            if isinstance(n, ast.Attribute) and isinstance(n.value, ast.Name) and n.value.id == "self":
                out.add(n.attr)
    return out


def _norm_guard(t: ast.AST, pol: bool) -> str:
    s = src_of(t)
    return s if pol else f"not ({s})"


def _guards(repo, af: AttrFlow, fi: FunctionInfo, node: ast.AST, root: FunctionInfo, seen, depth=0) -> Set[str]:
    """guards (normalised test texts mentioning self.<...>) under which `node`
    executes when entered from `root`: enclosing tests in its function plus the
    intersection over call sites of the guards of the callers."""
    own = {_norm_guard(t, pol) for t, pol in enclosing_tests(node, fi.node) if "self." in src_of(t)}
    if fi.qualname == root.qualname or depth > 5 or fi.qualname in seen:
        return own
    seen = seen | {fi.qualname}
    inter = None
    for g in reachable_functions(repo, [root]):
        if g.qualname == fi.qualname:
            continue
        for c in own_nodes_incl_lambda(g.node):
            if isinstance(c, ast.Call) and resolve_call(repo, g, c) is fi:
                cg = _guards(repo, af, g, c, root, seen, depth + 1)
                inter = cg if inter is None else (inter & cg)
    return own | (inter or set())


# ------------------------------------------------------------------ C03.g
WIDTH_READERS = {"_check_test_data", "_check_n_features", "_check_feature_names"}
WIDTH_VALIDATORS = {"validate_data", "_validate_data"}


def _reads_width(c: ast.Call) -> bool:
    """a scikit-learn validator that compares the input with n_features_in_ recorded by fit"""
    f = c.func
    nm = f.attr if isinstance(f, ast.Attribute) else (f.id if isinstance(f, ast.Name) else "")
    rs = next((k.value for k in c.keywords if k.arg == "reset"), None)
    if nm == "_check_test_data":
        return True
    if nm in WIDTH_VALIDATORS or nm in ("_check_n_features", "_check_feature_names"):
        return rs is not None and isinstance(rs, ast.Constant) and rs.value is False
    return False


def _writes_width(n: ast.AST, parents) -> bool:
    if isinstance(n, (ast.Assign, ast.AnnAssign)):
        for t in assign_targets(n):
            if is_self_attr(t, "n_features_in_"):
                return True
    if isinstance(n, ast.Call):
        f = n.func
        nm = f.attr if isinstance(f, ast.Attribute) else (f.id if isinstance(f, ast.Name) else "")
        rs = next((k.value for k in n.keywords if k.arg == "reset"), None)
        if nm in WIDTH_VALIDATORS or nm == "_check_n_features":
            return rs is None or (isinstance(rs, ast.Constant) and rs.value is True)
        if nm in ("fit", "fit_transform", "fit_predict", "partial_fit") and isinstance(f, ast.Attribute):
            v = src_of(f.value)
            if v in parents or v == "super()":
                return True
    return False


def check_g(ck, repo):
    """an estimator whose predict-time code lets scikit-learn compare the input
    with the width recorded at fit (`n_features_in_`) must record it on EVERY
    fit path; a path that does not leaves the width of an earlier fit in place"""
    from .sem import paths as _paths, RAISE as _RAISE

    n = 0
    for ci in estimator_classes(repo):
        _, fit = repo.find_method(ci, "fit")
        if fit is None or fit.cls is None:
            continue
        pred_roots = [m for nm in PREDICT_ENTRY for _, m in [repo.find_method(ci, nm)] if m is not None]
        readers = []
        for g in reachable_functions(repo, pred_roots):
            for c in own_nodes_incl_lambda(g.node):
                if isinstance(c, ast.Call) and _reads_width(c):
                    readers.append((g, c))
        if not readers:
            continue
        n += 1
        parents = {b.split(".")[-1] for b in repo.external_bases(ci)} | {c.name for c in repo.mro(ci)[1:] if isinstance(c, ClassInfo)}

        def has_writer(fn: FunctionInfo, seen) -> bool:
            if fn.qualname in seen:
                return False
            seen.add(fn.qualname)
            for x in own_nodes_incl_lambda(fn.node):
                if _writes_width(x, parents):
                    return True
                if isinstance(x, ast.Call):
                    g2 = resolve_call(repo, fn, x)
                    if g2 is not None and g2.name != "__init__" and has_writer(g2, seen):
                        return True
            return False

        try:
            ps = [p for p in _paths(fit) if p.ret != _RAISE]
        except AnalysisError:
            ps = []
        bad = None
        for p in ps:
            ok = False
            for c in p.calls:
                if _writes_width(c, parents):
                    ok = True
                    break
                g2 = resolve_call(repo, fit, c)
                if g2 is not None and g2.name != "__init__" and has_writer(g2, set()):
                    ok = True
                    break
            ok = ok or any(k == "self.n_features_in_" for k in p.stores)
            if not ok:
                bad = p
                break
        g, c = readers[0]
        if not ps:
            ck.unknown("C03.g", fit, f"{ci.name}.fit", "no path through fit could be evaluated")
        elif bad is None:
            ck.holds("C03.g", fit, f"{ci.name}: n_features_in_ recorded on every fit path", f"`{src_of(c)[:50]}` in {g.name} compares with the width of THIS fit")
        else:
            where = " and ".join(t if pol else f"not ({t})" for t, pol in bad.conds) or "always"
            ck.violated("C03.g", fit, f"{ci.name}.fit when {where[:80]}", f"when {where[:120]}, fit records no n_features_in_ (no scikit-learn validator with reset, no parent fit, no assignment), but `{src_of(c)[:60]}` in {g.name} checks the input against it: after a refit the width of an EARLIER fit is used (e.g. fit with norm='L2' on 3 columns, set_params(norm='L1'), fit on 2 columns: transform raises while a fresh clone works)")
    return n


def check_step_cache(ck, repo):
    """C03.k: a cache of fitted steps is keyed by the data the step is fitted on.  In every method
    that looks a fitted object up with `<cache>.get(K)` and stores it with `<cache>.cache(K, obj)`,
    the entry K["X"] is the variable handed as data to the fitting call of the miss branch and to
    `.transform` of the hit branch (otherwise a later fit with other upstream parameters reuses a
    step fitted on the earlier upstream output)."""
    n = 0
    for fi in repo.all_functions.values():
        if not fi.module.relpath.startswith("mlinsights/") or fi.cls is None:
            continue
        nodes = list(own_nodes(fi.node))
        gets = [c for c in nodes if isinstance(c, ast.Call) and isinstance(c.func, ast.Attribute) and c.func.attr == "get" and src_of(c.func.value).startswith("self.cache") and len(c.args) == 1 and isinstance(c.args[0], ast.Name)]
        puts = [c for c in nodes if isinstance(c, ast.Call) and isinstance(c.func, ast.Attribute) and c.func.attr == "cache" and src_of(c.func.value).startswith("self.cache") and len(c.args) == 2 and isinstance(c.args[0], ast.Name)]
        if not gets or not puts:
            continue
        K = gets[0].args[0].id
        if any(c.args[0].id != K for c in gets + puts):
            ck.violated("C03.k", fi, puts[0], f"fitted steps are looked up under {gets[0].args[0].id} but stored under {puts[0].args[0].id}")
            continue
        n += 1
        keyed = [s_ for s_ in nodes if isinstance(s_, ast.Assign) and isinstance(s_.targets[0], ast.Subscript) and src_of(s_.targets[0].value) == K and isinstance(s_.targets[0].slice, ast.Constant) and s_.targets[0].slice.value == "X"]
        if len(keyed) != 1 or not isinstance(keyed[0].value, ast.Name):
            ck.unknown("C03.k", fi, keyed[0] if keyed else f"{K}['X']", f"the entry of the cache key that identifies the training data is not a single store {K}['X'] = <variable>")
            continue
        V = keyed[0].value.id
        fits = [c for c in nodes if isinstance(c, ast.Call) and ("fit_transform_one" in src_of(c.func) or (isinstance(c.func, ast.Attribute) and c.func.attr in ("fit", "fit_transform"))) and c.lineno > keyed[0].lineno]
        trs = [c for c in nodes if isinstance(c, ast.Call) and isinstance(c.func, ast.Attribute) and c.func.attr == "transform" and c.lineno > keyed[0].lineno]
        data_args = []
        for c in fits:
            a = c.args[1] if "fit_transform_one" in src_of(c.func) and len(c.args) > 1 else (c.args[0] if c.args else None)
            data_args.append((c, src_of(a) if a is not None else None))
        data_args += [(c, src_of(c.args[0]) if c.args else None) for c in trs]
        bad = [(c, a) for c, a in data_args if a != V]
        rebound_between = [s_ for s_ in nodes if isinstance(s_, ast.Name) and isinstance(s_.ctx, ast.Store) and s_.id == V and keyed[0].lineno < s_.lineno < min((c.lineno for c, _ in data_args), default=0)]
        if not data_args:
            ck.unknown("C03.k", fi, keyed[0], "no fitting call or transform follows the cache key: nothing to compare the key with")
        else:
            ck.verdict(not bad and not rebound_between, "C03.k", fi, keyed[0], f"the cache key holds {V}, the data the step is fitted on and transforms ({len(data_args)} calls)", f"the cache key holds {V} but the step is fitted on / transforms {sorted({a or '?' for _, a in bad})}: a step fitted on the output of an earlier configuration of the upstream steps is reused by a later fit")
    return n


def check_set_order(ck, repo):
    """C03.l: the iteration order of a set (hash order: it changes with PYTHONHASHSEED for strings)
    does not reach fitted state: on fit paths a set is never numbered or laid out in sequence
    (enumerate / zip / list / tuple / array / a comprehension that builds a list or dict) unless it
    went through sorted() first."""
    from .sem import expander, stmt_of

    ex = expander(repo)
    n = 0
    ORDERING = {"enumerate", "zip", "list", "tuple", "numpy.array", "numpy.asarray", "dict"}

    def is_set(e, fi, st):
        if isinstance(e, (ast.Set, ast.SetComp)):
            return True
        try:
            with ex.lenient():
                t = ex.text(e, fi, st)
        except Exception:
            t = src_of(e)
        return t.startswith(("set(", "frozenset(")) and t.endswith(")") and t.count("(") == t.count(")") and _closes_at_end(t)

    for fi in repo.all_functions.values():
        if not fi.module.relpath.startswith("mlinsights/") or fi.cls is None or fi.name not in ("fit", "_fit", "fit_transform", "partial_fit"):
            continue
        for c in own_nodes(fi.node):
            sites = []
            if isinstance(c, ast.Call) and src_of(c.func) in ORDERING:
                sites = [a for a in c.args if not isinstance(a, ast.Starred)]
            elif isinstance(c, (ast.ListComp, ast.DictComp, ast.GeneratorExp)):
                sites = [g.iter for g in c.generators]
            # the sequence goes straight into a call that forgets the order: nothing reaches the state
            par = getattr(c, "_parent", None)
            if isinstance(par, ast.Call) and src_of(par.func) in ("sorted", "set", "frozenset", "len", "sum", "min", "max", "any", "all", "numpy.sort", "numpy.unique") and c in par.args:
                continue
            for a in sites:
                st = stmt_of(c)
                n += 1
                if is_set(a, fi, st):
                    ck.violated("C03.l", fi, st, f"`{src_of(a)[:50]}` is a set and `{src_of(c)[:70]}` numbers or lays out its elements in iteration order: for strings that order changes with the interpreter's hash seed, so the same data, parameters and seeds give different fitted state in two runs (sort the set first)")
    ck.holds("C03.l", None, f"{n} ordering sites on fit paths", "no set is numbered or laid out in iteration order", file="mlinsights", function="*.fit", line=1, nontrivial=False)
    return n


def _closes_at_end(t):
    depth = 0
    for i, ch in enumerate(t):
        if ch == "(":
            depth += 1
        elif ch == ")":
            depth -= 1
            if depth == 0:
                return i == len(t) - 1
    return False


def run(ck):
    repo = ck.repo
    for k, v in RULES.items():
        ck.rule(k, v)
    ck.extra["step_caches"] = check_step_cache(ck, repo)
    ck.extra["set_order_sites"] = check_set_order(ck, repo)
    na = check_a(ck, repo)
    check_b(ck, repo)
    check_seed_truthiness(ck, repo)
    nf = check_dce(ck, repo)
    from .c02 import check_d as _trained_object

    ck.extra["trained_receivers"] = _trained_object(ck, repo, rule="C03.f")
    ck.extra["width_checked_classes"] = check_g(ck, repo)
    from .sem import share_clauses

    share_clauses(ck, "c01", {
        "C01.g": ("C03.h", "state derived from a hyper-parameter is recomputed when set_params replaces it: a later fit does not answer with an object set up for the previous parameters"),
        "C01.i": ("C03.j", "constructor defaults are not objects shared by every default-built instance: fitting one instance does not change another"),
    })
    share_clauses(ck, "c02", {
        "C02.b": ("C03.i", "fit does not write into the hyper-parameters or into the objects they hold: a refit starts from the same parameters as a fresh clone"),
    })
    ck.extra["rng_constructor_sites"] = na
    ck.extra["fit_methods_analysed"] = nf
    ck.extra["exemptions"] = {"C03.a": {f"{k[0]}/{k[1]}": v for k, v in A_EXEMPT.items()}, "C03.c": {f"{k[0]}.{k[1]}": v for k, v in C_EXEMPT.items()}}
    ck.require_count("C03.a", 3, "check_random_state sites in kmeans_l1 (3), kmeans_constraint, piecewise_estimator (2) and RandomState in sklearn_transform_inv_fct")
    ck.require_count("C03.b", 1, "KMeansL1L2, PermutationReciprocalTransformer")
    ck.require_count("C03.d", 12, "fit methods")
    ck.require_count("C03.f", 7, "receivers of .fit on fit paths (clones, fresh objects, documented in-place wrappers)")


# ---------------------------------------------------------------- self-test
_PE = "mlinsights/mlmodel/piecewise_estimator.py"
_KC = "mlinsights/mlmodel/kmeans_constraint.py"
_TI = "mlinsights/mlmodel/sklearn_transform_inv_fct.py"
_TB = "mlinsights/timeseries/base.py"
_PT = "mlinsights/mlmodel/piecewise_tree_regression.py"
_KL = "mlinsights/mlmodel/kmeans_l1.py"
WITNESSES = [
    {"name": "piecewise-entropy-state", "file": _PE, "rule": "C03.a", "old": "        random_state = check_random_state(random_state)\n", "new": "        if random_state is None:\n            random_state = numpy.random.RandomState()\n"},
    {"name": "ckm-unguarded-seed", "file": _KC, "rule": "C03.a", "old": "state = check_random_state(self.random_state)", "new": "state = numpy.random.RandomState(self.random_state)"},
    {"name": "permutation-unguarded-seed", "file": _TI, "rule": "C03.a", "old": "        if self.random_state is None:\n            lin = numpy.random.permutation(lin)\n        else:\n            rs = numpy.random.RandomState(self.random_state)\n            lin = rs.permutation(lin)\n", "new": "        rs = numpy.random.RandomState(self.random_state)\n        lin = rs.permutation(lin)\n"},
    {"name": "permutation-global-stream", "file": _TI, "rule": "C03.b", "old": "        if self.random_state is None:\n            lin = numpy.random.permutation(lin)\n        else:\n            rs = numpy.random.RandomState(self.random_state)\n            lin = rs.permutation(lin)\n", "new": "        lin = numpy.random.permutation(lin)\n"},
    {"name": "kmeansl1-unseeded-utility", "file": _KL, "rule": "C03.b", "old": "        seeds = random_state.permutation(n_samples)[:k]\n", "new": "        from sklearn.utils.random import sample_without_replacement\n\n        seeds = sample_without_replacement(n_samples, k)\n"},
    {"name": "kmeansl1-global-draw", "file": _KL, "rule": "C03.b", "old": "    center_id = random_state.randint(n_samples)\n", "new": "    center_id = numpy.random.randint(n_samples)\n"},
    {"name": "piecewise-seed-truthiness", "file": _PE, "rule": "C03.b", "old": "        if nb_classes is None:\n            seeds = [None for _ in estimators]\n", "new": "        if nb_classes is None or not getattr(self, \"random_state\", None):\n            seeds = [None for _ in estimators]\n"},
    {"name": "categories-accumulate", "file": "mlinsights/mlmodel/categories_to_integers.py", "rule": "C03.d", "old": "        self._categories = {}\n        for c in columns:", "new": "        for c in columns:"},
    {"name": "permutation-cache-not-reset", "file": _TI, "rule": "C03.c", "old": "        self.knn_ = None\n        self.knn_perm_ = None\n        return self\n", "new": "        return self\n"},
    {"name": "timeseries-no-reset", "file": _TB, "rule": "C03.d", "old": "        self.preprocessing_ = None\n        check_ts_X_y(self, X, y)\n", "new": "        check_ts_X_y(self, X, y)\n"},
    {"name": "timeseries-partial-attr", "file": _TB, "rule": "C03.e", "old": "        self.preprocessing_ = None\n        check_ts_X_y(self, X, y)\n", "new": "        check_ts_X_y(self, X, y)\n"},
    {"name": "piecewise-incremental-mapping", "file": _PE, "rule": "C03.d", "old": "        association, self.mapping_, self.leaves_ = self._mapping_train(X, self.binner_)\n", "new": "        if not hasattr(self, \"mapping_\"):\n            association, self.mapping_, self.leaves_ = self._mapping_train(X, self.binner_)\n        else:\n            association = self.transform_bins(X)\n"},
    {"name": "ptr-reads-old-betas", "file": _PT, "rule": "C03.d", "old": "        self.betas_ = numpy.empty((len(self.leaves_index_), X.shape[1] + 1))\n", "new": "        if not hasattr(self, \"betas_\") or self.betas_.shape[0] != len(self.leaves_index_):\n            self.betas_ = numpy.empty((len(self.leaves_index_), X.shape[1] + 1))\n"},
    {"name": "dtlr-root-not-cloned", "file": "mlinsights/mlmodel/decision_tree_logreg.py", "rule": "C03.f", "old": "        estimator = clone(self.estimator)\n        self.tree_ = _DecisionTreeLogisticRegressionNode(estimator, 0.5)\n", "new": "        self.tree_ = _DecisionTreeLogisticRegressionNode(self.estimator, 0.5)\n"},
    {"name": "kmeansl1-warm-start-centers", "file": _KL, "rule": "C03.d", "old": "        init = self.init\n        if hasattr(init, \"__array__\"):", "new": "        init = self.cluster_centers_ if hasattr(self, \"cluster_centers_\") else self.init\n        if hasattr(init, \"__array__\"):"},
]
# witnesses of the rules added after the ninth round of independent changes
WITNESSES += [
    {"name": "cache-keyed-by-the-pipeline-input", "file": "mlinsights/mlbatch/pipeline_cache.py", "rule": "C03.k", "old": 'params["X"] = Xt', "new": 'params["X"] = X'},
    {"name": "categories-in-set-order", "file": "mlinsights/mlmodel/categories_to_integers.py", "rule": "C03.l", "old": "enumerate(list(sorted(distinct)))", "new": "enumerate(list(distinct))"},
]


TWINS = [
    {"name": "permutation-guard-flipped", "file": _TI, "old": "        if self.random_state is None:\n            lin = numpy.random.permutation(lin)\n        else:\n            rs = numpy.random.RandomState(self.random_state)\n            lin = rs.permutation(lin)\n", "new": "        if self.random_state is not None:\n            rs = numpy.random.RandomState(self.random_state)\n            lin = rs.permutation(lin)\n        else:\n            lin = numpy.random.permutation(lin)\n"},
    {"name": "permutation-reset-with-del", "file": _TI, "old": "        self.knn_ = None\n        self.knn_perm_ = None\n        return self\n", "new": "        self.knn_, self.knn_perm_ = None, None\n        return self\n"},
    {"name": "timeseries-reset-in-else", "file": _TB, "old": "        self.preprocessing_ = None\n        check_ts_X_y(self, X, y)\n", "new": "        self.preprocessing_ = None if self.preprocessing is None else clone(self.preprocessing)\n        check_ts_X_y(self, X, y)\n"},
    {"name": "piecewise-mapping-local-first", "file": _PE, "old": "        association, self.mapping_, self.leaves_ = self._mapping_train(X, self.binner_)\n", "new": "        association, mapping, leaves = self._mapping_train(X, self.binner_)\n        self.mapping_ = mapping\n        self.leaves_ = leaves\n"},
]
MIN_WITNESSES = 9
