"""C14 — traceable vectorizers (structural part).

  C14.a  element kinds: abstract interpretation of NGramsMixin._word_ngrams over
         {str, tuple-of-str, nested tuple}: the operand of `in stop_words` has
         kind str, and what reaches the n-gram section is tuple-of-str
  C14.b  override vs parent: the n-gram loop nest equals, modulo alpha-renaming
         and the replacement of " ".join by tuple concatenation, the loop nest of
         the installed scikit-learn _VectorizerMixin._word_ngrams (parsed, not
         imported)
  C14.c  both Traceable classes define _word_ngrams delegating to
         NGramsMixin._word_ngrams(self, tokens=tokens, stop_words=stop_words)
"""

from __future__ import annotations

import ast
from engine.util import clone_ast
import copy
from typing import Dict, List, Optional

from engine.src import FunctionInfo, own_nodes, src_of, AnalysisError, ClassInfo
from engine import extsrc, norm
from engine.util import kwarg

RULES = {
    "C14.a": "element-kind abstract interpretation of _word_ngrams: stop-word membership is tested on str elements; the n-gram section receives tuple-of-str",
    "C14.b": "the n-gram loop nest of the override equals the parsed scikit-learn parent's (alpha-renaming; join replaced by tuple concatenation)",
    "C14.c": "TraceableCountVectorizer / TraceableTfidfVectorizer delegate _word_ngrams to NGramsMixin explicitly (the scikit-learn base precedes the mixin in the MRO)",
}

MOD = "mlinsights.mlmodel.sklearn_text"
S, T, N, U = "str", "tuple-of-str", "nested-tuple", "unknown"


def _kind(e: ast.AST, env: Dict[str, str]) -> str:
    if isinstance(e, ast.Name):
        return env.get(e.id, U)
    if isinstance(e, ast.Tuple):
        ks = {_kind(x, env) for x in e.elts}
        if ks == {S}:
            return T
        if ks <= {T, N, S} and (T in ks or N in ks):
            return N
        return U
    if isinstance(e, ast.IfExp):
        t = e.test
        # (x,) if isinstance(x, str) else x
        if isinstance(t, ast.Call) and isinstance(t.func, ast.Name) and t.func.id == "isinstance" and len(t.args) == 2 and isinstance(t.args[0], ast.Name) and src_of(t.args[1]) == "str":
            v = t.args[0].id
            k = env.get(v, U)
            if k == S:
                return _kind(e.body, env)
            if k in (T, N):
                return _kind(e.orelse, env)
        a, b = _kind(e.body, env), _kind(e.orelse, env)
        return a if a == b else U
    if isinstance(e, ast.Constant) and isinstance(e.value, str):
        return S
    return U


def check_a(ck, repo):
    ci = repo.cls(MOD, "NGramsMixin")
    fi = ci.methods.get("_word_ngrams")
    if fi is None:
        raise AnalysisError("anchor vanished: NGramsMixin._word_ngrams")
    params = fi.named_params
    tok, sw = params[1], params[2]
    elem: Dict[str, str] = {tok: S}  # list name -> element kind
    n_filter = 0
    body = list(fi.node.body)
    # walk top-level statements up to the n-gram section (`min_n, max_n = self.ngram_range`)
    def run_block(stmts):
        nonlocal n_filter
        for s in stmts:
            if isinstance(s, ast.Expr) and isinstance(s.value, ast.Constant):
                continue
            if isinstance(s, ast.Assign) and "ngram_range" in src_of(s.value):
                return True
            if isinstance(s, ast.If):
                # guards `if stop_words is not None` / `if tokens is not None`
                if run_block(s.body):
                    return True
                continue
            if isinstance(s, ast.Assign) and len(s.targets) == 1 and isinstance(s.targets[0], ast.Name):
                tgt = s.targets[0].id
                v = s.value
                if isinstance(v, ast.ListComp) and len(v.generators) == 1 and isinstance(v.generators[0].target, ast.Name):
                    g = v.generators[0]
                    var = g.target.id
                    src_kind = elem.get(src_of(g.iter), U)
                    env = {var: src_kind}
                    for cond in g.ifs:
                        for c in ast.walk(cond):
                            if isinstance(c, ast.Compare) and len(c.ops) == 1 and isinstance(c.ops[0], (ast.In, ast.NotIn)) and src_of(c.comparators[0]) == sw:
                                n_filter += 1
                                k = _kind(c.left, env)
                                ck.verdict(k == S, "C14.a", fi, s, "stop-word membership is tested on plain string tokens", f"`{src_of(c.left)} in {sw}` is evaluated on elements of kind {k}: stop words are strings, so no token ever matches and nothing is filtered")
                    if any(src_of(c.comparators[0]) == sw for cond in g.ifs for c in ast.walk(cond) if isinstance(c, ast.Compare)):
                        okc = len(g.ifs) == 1 and src_of(g.ifs[0]) == f"{var} not in {sw}" and src_of(v.elt) in (var, f"({var},)")
                        ck.verdict(okc, "C14.a", fi, f"filter [{src_of(v.elt)} for {var} in .. if {src_of(g.ifs[0])}]", "tokens are kept iff they are not stop words, unchanged", "the stop-word filter keeps/drops tokens by another condition than `token not in stop_words`, or alters them")
                    elem[tgt] = _kind(v.elt, env)
                elif isinstance(v, ast.List) and not v.elts:
                    elem[tgt] = "empty"
                elif isinstance(v, ast.Name):
                    elem[tgt] = elem.get(v.id, U)
                elif isinstance(v, ast.Call) and src_of(v.func) == "list" and v.args:
                    elem[tgt] = elem.get(src_of(v.args[0]), U)
                continue
            if isinstance(s, ast.For) and isinstance(s.target, ast.Name):
                src_kind = elem.get(src_of(s.iter), U)
                env = {s.target.id: src_kind}
                for c in ast.walk(s):
                    if isinstance(c, ast.Call) and isinstance(c.func, ast.Attribute) and c.func.attr == "append" and isinstance(c.func.value, ast.Name) and c.args:
                        lst = c.func.value.id
                        k = _kind(c.args[0], env)
                        prev = elem.get(lst, "empty")
                        elem[lst] = k if prev in ("empty", k) else U
                continue
        return False

    reached = run_block(body)
    if not reached:
        ck.unknown("C14.a", fi, "min_n, max_n = self.ngram_range", "n-gram section not found")
        return
    if n_filter == 0:
        ck.violated("C14.a", fi, f"{sw} filter", f"no statement filters tokens against {sw}: stop words are never removed")
    k = elem.get(tok, U)
    ck.verdict(k == T, "C14.a", fi, f"element kind of {tok} at the n-gram section: {k}", "every token reaching the n-gram section is a tuple of strings", f"tokens reaching the n-gram section have kind {k} (expected tuple-of-str): vocabulary keys become nested tuples or plain strings instead of token tuples")
    # space_join flattens: returns tuple(new_tokens) built by append(str) / extend(tuple)
    sj = [f for f in repo.all_functions.values() if f.parent is fi and f.name == "space_join"]
    if len(sj) != 1:
        ck.unknown("C14.a", fi, "space_join", "helper not found")
    else:
        t = sj[0]
        rets = [src_of(r.value) for r in own_nodes(t.node) if isinstance(r, ast.Return)]
        body_t = [src_of(x) for x in own_nodes(t.node) if isinstance(x, ast.Expr)]
        ok = rets == ["tuple(new_tokens)"] and "new_tokens.append(token)" in body_t and "new_tokens.extend(token)" in body_t
        ck.verdict(ok, "C14.a", t, "space_join: append(str) / extend(tuple) -> tuple(...)", "an n-gram is the flat tuple of its tokens", "space_join does not flatten its tokens into one tuple")


def _ngram_block(fn: ast.AST) -> Optional[ast.If]:
    for s in ast.walk(fn):
        if isinstance(s, ast.If) and src_of(s.test) == "max_n != 1":
            return s
    return None


def _strip_join(block: ast.If) -> ast.If:
    b = clone_ast(block)
    new = []
    for s in b.body:
        if isinstance(s, ast.FunctionDef) and s.name == "space_join":
            continue
        if isinstance(s, ast.Assign) and src_of(s.targets[0]) == "space_join":
            continue
        new.append(s)
    b.body = new
    return b


def check_b(ck, repo):
    ci = repo.cls(MOD, "NGramsMixin")
    fi = ci.methods["_word_ngrams"]
    got = extsrc.find_method("sklearn.feature_extraction.text.CountVectorizer", "_word_ngrams")
    if got is None:
        ck.unknown("C14.b", fi, "sklearn _VectorizerMixin._word_ngrams", "cannot read the installed scikit-learn source")
        return
    pfn, owner = got
    mine, theirs = _ngram_block(fi.node), _ngram_block(pfn)
    if mine is None or theirs is None:
        ck.unknown("C14.b", fi, "if max_n != 1:", f"n-gram block not found (override: {mine is not None}, {owner}: {theirs is not None})")
        return
    a = norm.dump(_strip_join(mine), rename=True)
    b = norm.dump(_strip_join(theirs), rename=True)
    ck.verdict(a == b, "C14.b", fi, "n-gram loop nest", f"identical to {owner}._word_ngrams modulo renaming and the join function", f"the n-gram loop nest differs from {owner}._word_ngrams (range bounds, slice original_tokens[i:i+n] or the min_n == 1 shortcut): the set or order of n-grams is not scikit-learn's")
    # the unpacking of ngram_range and the final return
    for fn, who in ((fi.node, "override"), (pfn, "parent")):
        pass
    u1 = [src_of(s) for s in ast.walk(fi.node) if isinstance(s, ast.Assign) and "ngram_range" in src_of(s.value)]
    u2 = [src_of(s) for s in ast.walk(pfn) if isinstance(s, ast.Assign) and "ngram_range" in src_of(s.value)]
    ck.verdict(u1 == u2, "C14.b", fi, f"{u1}", "n-gram range unpacked as in the parent", f"ngram_range is unpacked as {u1}, the parent does {u2}")
    r1 = [src_of(r.value) for r in fi.node.body if isinstance(r, ast.Return)]
    r2 = [src_of(r.value) for r in pfn.body if isinstance(r, ast.Return)]
    ck.verdict(r1 == r2 == ["tokens"], "C14.b", fi, f"return {r1}", "returns the token list like the parent", f"returns {r1}, the parent returns {r2}")
    # filter precedes wrapping precedes n-grams
    order = []
    for s in fi.node.body:
        t = src_of(s)
        if isinstance(s, ast.If) and src_of(s.test) == "stop_words is not None":
            order.append("filter")
        elif isinstance(s, ast.If) and src_of(s.test) == "tokens is not None":
            order.append("wrap")
        elif isinstance(s, ast.Assign) and "ngram_range" in t:
            order.append("ngrams")
    ck.verdict(order == ["filter", "wrap", "ngrams"], "C14.b", fi, f"order {order}", "filter strings, then wrap into tuples, then build n-grams", f"statement order is {order}; expected filter -> wrap -> ngrams")


def check_c(ck, repo):
    for cname, base in (("TraceableCountVectorizer", "sklearn.feature_extraction.text.CountVectorizer"), ("TraceableTfidfVectorizer", "sklearn.feature_extraction.text.TfidfVectorizer")):
        ci = repo.cls(MOD, cname)
        m = ci.methods.get("_word_ngrams")
        if m is None:
            ck.violated("C14.c", None, f"{cname}._word_ngrams", f"{cname} does not define _word_ngrams: {base} precedes NGramsMixin in the MRO, so scikit-learn's string n-grams are used and vocabulary_ keys are not token tuples", file=ci.module.relpath, function=cname, line=ci.node.lineno)
            continue
        r = [x.value for x in own_nodes(m.node) if isinstance(x, ast.Return)]
        ok = len(r) == 1 and isinstance(r[0], ast.Call) and src_of(r[0].func) == "NGramsMixin._word_ngrams"
        if ok:
            c = r[0]
            a0 = src_of(c.args[0]) if c.args else None
            tk, sw = kwarg(c, "tokens"), kwarg(c, "stop_words")
            if tk is None and len(c.args) > 1:
                tk = c.args[1]
            if sw is None and len(c.args) > 2:
                sw = c.args[2]
            ok = a0 == "self" and tk is not None and src_of(tk) == m.named_params[1] and sw is not None and src_of(sw) == m.named_params[2]
        ck.verdict(ok, "C14.c", m, r[0] if r else f"{cname}._word_ngrams", "explicit delegation to the mixin with tokens and stop_words forwarded", f"{cname}._word_ngrams does not forward (tokens, stop_words) to NGramsMixin._word_ngrams")
        bases = ci.bases
        ck.verdict(len(bases) == 2 and bases[0] == base and bases[1].endswith("NGramsMixin"), "C14.c", None, f"class {cname}({', '.join(b.split('.')[-1] for b in bases)})", "scikit-learn vectorizer first, mixin second (explicit delegation required and present)", f"bases of {cname} are {bases}", file=ci.module.relpath, function=cname, line=ci.node.lineno)


def run(ck):
    repo = ck.repo
    for k, v in RULES.items():
        ck.rule(k, v)
    check_a(ck, repo)
    check_b(ck, repo)
    check_c(ck, repo)
    ck.require_count("C14.a", 2, "filter kind, kind at n-gram section, space_join")
    ck.require_count("C14.b", 2, "loop nest, unpacking, return, filter statement, order")
    ck.require_count("C14.c", 2, "two classes x (delegation, bases)")


_F = "mlinsights/mlmodel/sklearn_text.py"
WITNESSES = [
    {"name": "filter-after-wrapping", "file": _F, "rule": "C14.a", "old": "        if stop_words is not None:\n            tokens = [w for w in tokens if w not in stop_words]\n\n        if tokens is not None:\n            new_tokens = []\n            for token in tokens:\n                new_tokens.append((token,) if isinstance(token, str) else token)\n            tokens = new_tokens\n", "new": "        if tokens is not None:\n            new_tokens = []\n            for token in tokens:\n                new_tokens.append((token,) if isinstance(token, str) else token)\n            tokens = new_tokens\n\n        if stop_words is not None:\n            tokens = [(w,) for w in tokens if w not in stop_words]\n"},
    {"name": "filter-lowercases", "file": _F, "rule": "C14.a", "old": "            tokens = [w for w in tokens if w not in stop_words]\n", "new": "            tokens = [w for w in tokens if w.lower() not in stop_words]\n"},
    {"name": "no-stop-word-filter", "file": _F, "rule": "C14.a", "old": "        if stop_words is not None:\n            tokens = [w for w in tokens if w not in stop_words]\n\n", "new": ""},
    {"name": "ngram-upper-bound", "file": _F, "rule": "C14.b", "old": "for n in range(min_n, min(max_n + 1, n_original_tokens + 1)):", "new": "for n in range(min_n, min(max_n, n_original_tokens + 1)):"},
    {"name": "ngram-window-short", "file": _F, "rule": "C14.b", "old": "for i in range(n_original_tokens - n + 1):", "new": "for i in range(n_original_tokens - n):"},
    {"name": "ngram-slice", "file": _F, "rule": "C14.b", "old": "tokens_append(space_join(original_tokens[i : i + n]))", "new": "tokens_append(space_join(original_tokens[i : i + n - 1]))"},
    {"name": "unigram-shortcut-dropped", "file": _F, "rule": "C14.b", "old": "                tokens = list(original_tokens)\n                min_n += 1\n", "new": "                tokens = list(original_tokens)\n"},
    {"name": "count-vectorizer-no-override", "file": _F, "rule": "C14.c", "old": "    def _word_ngrams(self, tokens, stop_words=None):\n        return NGramsMixin._word_ngrams(self, tokens=tokens, stop_words=stop_words)\n\n\nclass TraceableTfidfVectorizer", "new": "\n\nclass TraceableTfidfVectorizer"},
    {"name": "tfidf-drops-stop-words", "file": _F, "rule": "C14.c", "old": "        return NGramsMixin._word_ngrams(self, tokens=tokens, stop_words=stop_words)\n", "new": "        return NGramsMixin._word_ngrams(self, tokens=tokens, stop_words=None)\n", "count": 2},
]
TWINS = [
    {"name": "filter-wraps-early", "file": _F, "old": "            tokens = [w for w in tokens if w not in stop_words]\n", "new": "            tokens = [(w,) for w in tokens if w not in stop_words]\n"},
    {"name": "filter-renamed-variable", "file": _F, "old": "            tokens = [w for w in tokens if w not in stop_words]\n", "new": "            tokens = [tok for tok in tokens if tok not in stop_words]\n"},
]
MIN_WITNESSES = 8
