"""C14 — traceable vectorizers (structural part).

  C14.a  element kinds: abstract interpretation of NGramsMixin._word_ngrams over
         {str, tuple-of-str, nested tuple}: the operand of `in stop_words` has
         kind str, and what reaches the n-gram section is tuple-of-str
  C14.b  override vs parent: the n-gram loop nest equals, modulo alpha-renaming
         and the replacement of " ".join by tuple concatenation, the loop nest of
         the installed scikit-learn _VectorizerMixin._word_ngrams (parsed, not
         imported)
  C14.c  both Traceable classes define _word_ngrams delegating to
         NGramsMixin._word_ngrams(self, tokens=tokens, stop_words=stop_words)
"""

from __future__ import annotations

import ast
from engine.util import clone_ast
import copy
from typing import Dict, List, Optional

from engine.src import FunctionInfo, own_nodes, src_of, AnalysisError, ClassInfo
from engine import extsrc, norm
from engine.util import kwarg
from .common import resolve_call
from .sem import xt, stmt_of, paths, block_paths, cy_expander, RAISE, BREAK, CONTINUE

RULES = {
    "C14.a": "element-kind abstract interpretation of _word_ngrams: stop-word membership is tested on str elements; the n-gram section receives tuple-of-str",
    "C14.b": "the n-gram loop nest of the override equals the parsed scikit-learn parent's (alpha-renaming; join replaced by tuple concatenation)",
    "C14.c": "TraceableCountVectorizer / TraceableTfidfVectorizer delegate _word_ngrams to NGramsMixin explicitly (the scikit-learn base precedes the mixin in the MRO)",
}

MOD = "mlinsights.mlmodel.sklearn_text"
S, T, N, U = "str", "tuple-of-str", "nested-tuple", "unknown"


def _kind(e: ast.AST, env: Dict[str, str]) -> str:
    if isinstance(e, ast.Name):
        return env.get(e.id, U)
    if isinstance(e, ast.Tuple):
        ks = {_kind(x, env) for x in e.elts}
        if ks == {S}:
            return T
        if ks <= {T, N, S} and (T in ks or N in ks):
            return N
        return U
    if isinstance(e, ast.IfExp):
        t = e.test
        if isinstance(t, ast.UnaryOp) and isinstance(t.op, ast.Not):
            return _kind(ast.IfExp(test=t.operand, body=e.orelse, orelse=e.body), env)
        # (x,) if isinstance(x, str) else x
        if isinstance(t, ast.Call) and isinstance(t.func, ast.Name) and t.func.id == "isinstance" and len(t.args) == 2 and isinstance(t.args[0], ast.Name) and src_of(t.args[1]) == "str":
            v = t.args[0].id
            k = env.get(v, U)
            if k == S:
                return _kind(e.body, env)
            if k in (T, N):
                return _kind(e.orelse, env)
        a, b = _kind(e.body, env), _kind(e.orelse, env)
        return a if a == b else U
    if isinstance(e, ast.Constant) and isinstance(e.value, str):
        return S
    return U


def check_a(ck, repo):
    ci = repo.cls(MOD, "NGramsMixin")
    fi = ci.methods.get("_word_ngrams")
    if fi is None:
        raise AnalysisError("anchor vanished: NGramsMixin._word_ngrams")
    params = fi.named_params
    tok, sw = params[1], params[2]
    elem: Dict[str, str] = {tok: S}  # list name -> element kind
    n_filter = 0
    body = list(fi.node.body)
    # walk top-level statements up to the n-gram section (`min_n, max_n = self.ngram_range`)
    def run_block(stmts):
        nonlocal n_filter
        for s in stmts:
            if isinstance(s, ast.Expr) and isinstance(s.value, ast.Constant):
                continue
            if isinstance(s, ast.Assign) and "ngram_range" in src_of(s.value):
                return True
            if isinstance(s, ast.If):
                # guards `if stop_words is not None` / `if tokens is not None`
                if run_block(s.body):
                    return True
                continue
            if isinstance(s, ast.Assign) and len(s.targets) == 1 and isinstance(s.targets[0], ast.Name):
                tgt = s.targets[0].id
                v = s.value
                if isinstance(v, ast.ListComp) and len(v.generators) == 1 and isinstance(v.generators[0].target, ast.Name):
                    g = v.generators[0]
                    var = g.target.id
                    src_kind = elem.get(src_of(g.iter), U)
                    env = {var: src_kind}
                    for cond in g.ifs:
                        for c in ast.walk(cond):
                            if isinstance(c, ast.Compare) and len(c.ops) == 1 and isinstance(c.ops[0], (ast.In, ast.NotIn)) and src_of(c.comparators[0]) == sw:
                                n_filter += 1
                                k = _kind(c.left, env)
                                ck.verdict(k == S, "C14.a", fi, s, "stop-word membership is tested on plain string tokens", f"`{src_of(c.left)} in {sw}` is evaluated on elements of kind {k}: stop words are strings, so no token ever matches and nothing is filtered")
                    if any(src_of(c.comparators[0]) == sw for cond in g.ifs for c in ast.walk(cond) if isinstance(c, ast.Compare)):
                        wrap = norm.dump(v.elt, rename=False) in (norm.dump(ast.parse(f"({var},) if isinstance({var}, str) else {var}", mode="eval").body, rename=False), norm.dump(ast.parse(f"{var} if not isinstance({var}, str) else ({var},)", mode="eval").body, rename=False))
                        okc = len(g.ifs) == 1 and src_of(g.ifs[0]) == f"{var} not in {sw}" and (src_of(v.elt) in (var, f"({var},)") or wrap)
                        ck.verdict(okc, "C14.a", fi, f"filter [{src_of(v.elt)} for {var} in .. if {src_of(g.ifs[0])}]", "tokens are kept iff they are not stop words, unchanged", "the stop-word filter keeps/drops tokens by another condition than `token not in stop_words`, or alters them")
                    elem[tgt] = _kind(v.elt, env)
                elif isinstance(v, ast.List) and not v.elts:
                    elem[tgt] = "empty"
                elif isinstance(v, ast.Name):
                    elem[tgt] = elem.get(v.id, U)
                elif isinstance(v, ast.Call) and src_of(v.func) == "list" and v.args:
                    elem[tgt] = elem.get(src_of(v.args[0]), U)
                continue
            if isinstance(s, ast.For) and isinstance(s.target, ast.Name):
                src_kind = elem.get(src_of(s.iter), U)
                env = {s.target.id: src_kind}
                for c in ast.walk(s):
                    if isinstance(c, ast.Call) and isinstance(c.func, ast.Attribute) and c.func.attr == "append" and isinstance(c.func.value, ast.Name) and c.args:
                        lst = c.func.value.id
                        k = _kind(c.args[0], env)
                        prev = elem.get(lst, "empty")
                        elem[lst] = k if prev in ("empty", k) else U
                continue
        return False

    reached = run_block(body)
    if not reached:
        ck.unknown("C14.a", fi, "min_n, max_n = self.ngram_range", "n-gram section not found")
        return
    if n_filter == 0:
        ck.violated("C14.a", fi, f"{sw} filter", f"no statement filters tokens against {sw}: stop words are never removed")
    k = elem.get(tok, U)
    helper_calls = [c_ for c_ in ast.walk(fi.node) if isinstance(c_, ast.Call) and isinstance(c_.func, ast.Attribute) and isinstance(c_.func.value, ast.Name) and c_.func.value.id in ("NGramsMixin", "self", "cls") and c_.func.attr.startswith("_") and c_.func.attr != "_word_ngrams"]
    expanded_here = bool(getattr(repo, "expanded_helpers", {}).get(fi.module.relpath)) if getattr(fi, "module", None) is not None else False
    if k == U and (helper_calls or expanded_here):
        # the tokens come out of a call this abstract walk does not follow (a helper of the class
        # called through the class, a generator..): their kind is not known, which is not "wrong"
        ck.unknown("C14.a", fi, f"element kind of {tok} at the n-gram section: {k}", "the tokens reaching the n-gram section are produced by code this rule does not follow: whether each is a tuple of strings is not decided")
        return
    ck.verdict(k == T, "C14.a", fi, f"element kind of {tok} at the n-gram section: {k}", "every token reaching the n-gram section is a tuple of strings", f"tokens reaching the n-gram section have kind {k} (expected tuple-of-str): vocabulary keys become nested tuples or plain strings instead of token tuples")
    # the join function flattens: str -> appended, tuple -> extended, result tuple(...)
    site = _append_site(fi)
    t = None
    if site is not None:
        arg = site[2]
        if isinstance(arg, ast.Call):
            t = resolve_call(repo, fi, arg)
    if t is None:
        ck.unknown("C14.a", fi, "join function of the n-gram loop", "helper not found")
    else:
        par = t.named_params[0]
        loops = [l for l in own_nodes(t.node) if isinstance(l, ast.For) and isinstance(l.target, ast.Name) and src_of(l.iter) == par]
        ok = False
        if len(loops) == 1:
            v = loops[0].target.id
            accs = set()
            good = 0
            bad = 0
            cases = []  # (facts, [(callee text, [argument texts])], is raise)
            for p in block_paths(t, loops[0].body):
                facts = dict(p.conds)
                cl = [c for c in p.calls if isinstance(c.func, ast.Attribute) and c.func.attr in ("append", "extend", "insert")]
                # a conditional argument `A if isinstance(v, str) else B` is two cases
                if len(cl) == 1 and len(cl[0].args) == 1 and isinstance(cl[0].args[0], ast.IfExp) and p.ret != RAISE:
                    ie = cl[0].args[0]
                    tt = ast.unparse(ie.test)
                    for pol_, arm in ((True, ie.body), (False, ie.orelse)):
                        f2 = dict(facts)
                        f2[tt] = pol_
                        cases.append((f2, [(src_of(cl[0].func), [ast.unparse(arm)])], False))
                else:
                    cases.append((facts, [(src_of(c.func), [ast.unparse(a) for a in c.args]) for c in cl], p.ret == RAISE))
            for facts, cs, is_raise in cases:
                is_s, is_t = facts.get(f"isinstance({v}, str)"), facts.get(f"isinstance({v}, tuple)")
                is_st = facts.get(f"isinstance({v}, (str, tuple))")
                if is_st is None:
                    is_st = facts.get(f"isinstance({v}, (tuple, str))")
                if is_raise:
                    if not ((is_s is False and is_t is False) or is_st is False):
                        bad += 1
                    continue
                one = [f"({v},)", f"[{v}]"]
                if is_s is True and len(cs) == 1 and ((cs[0][0].endswith(".append") and cs[0][1] == [v]) or (cs[0][0].endswith(".extend") and cs[0][1][0] in one)):
                    accs.add(cs[0][0].rsplit(".", 1)[0]); good += 1
                elif is_s is False and (is_t is True or is_st is True) and len(cs) == 1 and cs[0][0].endswith(".extend") and cs[0][1] == [v]:
                    accs.add(cs[0][0].rsplit(".", 1)[0]); good += 1
                else:
                    bad += 1
            rets = [p.ret_text() for p in paths(t) if p.ret != RAISE]
            ok = good == 2 and bad == 0 and len(accs) == 1 and rets == [f"tuple({next(iter(accs))})"]
        has_gen = any(isinstance(n_, (ast.Yield, ast.YieldFrom)) for n_ in ast.walk(t.node))
        if not ok and (has_gen or len(loops) != 1):
            ck.unknown("C14.a", t, f"{t.name}: append(str) / extend(tuple) -> tuple(...)", f"{t.name} does not build the n-gram with one append/extend loop (a generator, or another construction): whether it flattens its tokens into one tuple is not decided")
        else:
            ck.verdict(ok, "C14.a", t, f"{t.name}: append(str) / extend(tuple) -> tuple(...)", "an n-gram is the flat tuple of its tokens", f"{t.name} does not flatten its tokens into one tuple")


def _set_parents(tree):
    for node in ast.walk(tree):
        for child in ast.iter_child_nodes(node):
            child._parent = node  # type: ignore[attr-defined]


def _append_sites(fi: FunctionInfo):
    return _append_site(fi, every=True)


def _append_site(fi: FunctionInfo, every=False):
    """(call, receiver expression, appended argument, inner loop, outer loop) of the
    n-gram append inside the doubly nested loop"""
    found = []
    for c in ast.walk(fi.node):
        if isinstance(c, ast.Call) and len(c.args) == 1:
            loops = []
            p = getattr(c, "_parent", None)
            while p is not None and p is not fi.node:
                if isinstance(p, ast.For):
                    loops.append(p)
                if isinstance(p, (ast.FunctionDef, ast.Lambda)):
                    loops = None
                    break
                p = getattr(p, "_parent", None)
            if loops and len(loops) == 2:
                f = c.func
                is_append = (isinstance(f, ast.Attribute) and f.attr == "append") or isinstance(f, ast.Name)
                if is_append and getattr(c, "_parent", None).__class__ is ast.Expr:
                    found.append((c, f, c.args[0], loops[0], loops[1]))
    if every:
        return found
    return found[0] if found else None


def _alpha(texts: List[str], locals_: set) -> List[str]:
    """rename the function's own local names by order of first appearance"""
    table: Dict[str, str] = {}
    out = []
    for t in texts:
        try:
            x = ast.parse(t, mode="eval").body
        except SyntaxError:
            out.append(t)
            continue
        # deterministic traversal order
        def visit(n):
            if isinstance(n, ast.Name) and n.id in locals_:
                if n.id not in table:
                    table[n.id] = f"_v{len(table)}"
                n.id = table[n.id]
            for c in ast.iter_child_nodes(n):
                visit(c)
        visit(x)
        out.append(ast.unparse(x))
    return out


def ngram_summary(repo, fi: FunctionInfo) -> Optional[Dict[str, object]]:
    """what the n-gram section does, in expanded form with local names
    alpha-renamed: loop ranges, the window appended, the guards it runs under,
    how the result list starts and how the lower bound is adjusted"""
    site = _append_site(fi)
    if site is None:
        return None
    call, f, arg, inner, outer = site
    ex = cy_expander(repo)
    locals_ = {n.id for n in ast.walk(fi.node) if isinstance(n, ast.Name) and isinstance(n.ctx, ast.Store)}
    st = stmt_of(call)
    # receiver list of the append: `tokens.append` or a bound method `tokens_append`
    fx = ex.norm_expr(f, fi, st)
    recv = fx.value if isinstance(fx, ast.Attribute) and fx.attr == "append" else None
    if recv is None:
        return None
    # the window, with the join function abstracted
    understood = True
    if not isinstance(arg, ast.Call):
        understood = False
        # a window taken from a local or a table: the expression appended stands for itself
        argx = ex.norm_expr(arg, fi, st)
        understood = isinstance(argx, ast.Call)
        arg = argx if isinstance(argx, ast.Call) else ast.Call(func=ast.Name(id="_", ctx=ast.Load()), args=[argx], keywords=[])
    win = ex.norm_expr(arg.args[0], fi, st) if arg.args else None
    texts = [xt(ex.norm_expr(outer.iter, fi, outer)), xt(ex.norm_expr(inner.iter, fi, inner)), xt(win) if win is not None else "?", xt(recv)]
    # the inner loop and the window up to a change of variable: for v in range(A, B) taking
    # S[lo(v):hi(v)] is the sequence S[lo(i + A):hi(i + A)] for i in range(B - A)
    try:
        from engine.affine import lin, Lin, LinErr

        if isinstance(inner.target, ast.Name) and isinstance(outer.target, ast.Name) and isinstance(inner.iter, ast.Call) and ast.unparse(inner.iter.func) == "range" and 1 <= len(inner.iter.args) <= 2 and isinstance(win, ast.Subscript) and isinstance(win.slice, ast.Slice) and win.slice.step is None:
            tv = xt(ex.norm_expr(ast.Name(id=inner.target.id, ctx=ast.Load()), fi, st))
            tn = xt(ex.norm_expr(ast.Name(id=outer.target.id, ctx=ast.Load()), fi, st))

            def L(e_, at_):
                t_ = xt(ex.norm_expr(e_, fi, at_)) if not isinstance(e_, str) else e_
                t_ = t_.replace(tv, "V__").replace(tn, "N__")
                return lin(ast.parse(t_, mode="eval").body)

            ra = inner.iter.args
            # the bounds of the inner range are evaluated at the loop head: the outer variable is N__ there too
            tn_h = xt(ex.norm_expr(ast.Name(id=outer.target.id, ctx=ast.Load()), fi, inner))

            def Lh(e_):
                t_ = xt(ex.norm_expr(e_, fi, inner)).replace(tn_h, "N__")
                return lin(ast.parse(t_, mode="eval").body)

            A = Lh(ra[0]) if len(ra) == 2 else Lin(0)
            B = Lh(ra[-1])
            lo = L(xt(win.slice.lower), st) if win.slice.lower is not None else Lin(0)
            hi = L(xt(win.slice.upper), st) if win.slice.upper is not None else None
            if hi is not None:
                sh = {"V__": Lin.sym("V__") + A}
                base_t = xt(win.value).replace(tn, "N__")
                texts[1] = f"range({(B - A)!r})"
                texts[2] = f"{base_t}[{lo.subs(sh)!r}:{hi.subs(sh)!r}]"
    except Exception as e_:
        import os as _os

        if _os.environ.get("C14_DEBUG"):
            print("C14 change of variable failed:", type(e_).__name__, e_)
    conds = sorted(pconds_cy(repo, fi).at(call))
    # the result list and the lower bound: every binding with its branch facts
    binds = []
    rname = recv.id if isinstance(recv, ast.Name) else None
    lows = {n.id for n in ast.walk(ex.norm_expr(outer.iter, fi, outer)) if isinstance(n, ast.Name) and n.id in locals_}
    for nm in sorted(({rname} if rname else set()) | lows):
        for s_ in sorted((x for x in ast.walk(fi.node) if isinstance(x, (ast.Assign, ast.AugAssign))), key=lambda x: x.lineno):
            tg = s_.targets if isinstance(s_, ast.Assign) else [s_.target]
            for t in tg:
                elts = t.elts if isinstance(t, (ast.Tuple, ast.List)) else [t]
                for k, e in enumerate(elts):
                    if isinstance(e, ast.Name) and e.id == nm:
                        if isinstance(s_, ast.AugAssign):
                            v = ast.BinOp(left=ast.Name(id=nm, ctx=ast.Load()), op=s_.op, right=s_.value)
                        elif isinstance(t, (ast.Tuple, ast.List)):
                            v = ast.Subscript(value=s_.value, slice=ast.Constant(k), ctx=ast.Load())
                        else:
                            v = s_.value
                        c_ = sorted(pconds_cy(repo, fi).at(s_))
                        in_section = any(isinstance(p_, ast.If) for p_ in _parents(s_))
                        vt = xt(ex.norm_expr(v, fi, s_))
                        # bindings of the n-gram section (made under its guard) and the unpacking of the range
                        in_section = bool(set(c_) & set(conds)) or "ngram_range" in vt
                        if s_.lineno < outer.lineno and in_section:
                            binds.append((nm, [c for c in c_], vt))
    # renaming order: loops, receiver, bindings and their facts, guards of the site, the window last
    # (a local only the window or an extra guard uses does not shift the names of the rest)
    win_text = texts[2]
    texts = [texts[0], texts[1], texts[3]]
    flat = texts + [t for _, _, t in binds] + [c[0] for _, cs, _ in binds for c in cs] + [c[0] for c in conds] + [win_text]
    ren = _alpha(flat, locals_)
    k = len(texts)
    out = {"outer": ren[0], "inner": ren[1], "receiver": ren[2], "window": ren[-1], "window_understood": understood}
    vals = ren[k : k + len(binds)]
    pos = k + len(binds)
    bl = []
    for (nm, cs, _), v in zip(binds, vals):
        cc = ren[pos : pos + len(cs)]
        pos += len(cs)
        bl.append((sorted(zip(cc, [c[1] for c in cs])), v))
    cr = ren[pos : pos + len(conds)]
    out["guards"] = sorted(zip(cr, [c[1] for c in conds]))
    # keep the bindings that belong to the n-gram section or unpack the range
    out["bindings"] = sorted(map(str, bl))
    # what the function returns
    rets = sorted(set(_alpha([xt(ex.norm_expr(r.value, fi, r)) for r in ast.walk(fi.node) if isinstance(r, ast.Return) and r.value is not None and _owner(r, fi.node)], locals_)))
    out["returns"] = rets
    return out


def _owner(n, fn) -> bool:
    p = getattr(n, "_parent", None)
    while p is not None:
        if isinstance(p, (ast.FunctionDef, ast.Lambda)):
            return p is fn
        p = getattr(p, "_parent", None)
    return True


def _parents(n):
    p = getattr(n, "_parent", None)
    while p is not None:
        yield p
        p = getattr(p, "_parent", None)


_pc_cache: Dict[int, object] = {}


def pconds_cy(repo, fi: FunctionInfo):
    from engine.guards import PathConditions

    k = id(fi.node)
    pc = _pc_cache.get(k)
    if pc is None:
        ex = cy_expander(repo)
        pc = _pc_cache[k] = PathConditions(fi.node, lambda t: ex.norm_expr(t, fi, t))
    return pc


def _ngram_block(fn: ast.AST) -> Optional[ast.If]:
    for s in ast.walk(fn):
        if isinstance(s, ast.If) and src_of(s.test) == "max_n != 1":
            return s
    return None


def _strip_join(block: ast.If) -> ast.If:
    b = clone_ast(block)
    new = []
    for s in b.body:
        if isinstance(s, ast.FunctionDef) and s.name == "space_join":
            continue
        if isinstance(s, ast.Assign) and src_of(s.targets[0]) == "space_join":
            continue
        new.append(s)
    b.body = new
    return b


def check_b(ck, repo):
    ci = repo.cls(MOD, "NGramsMixin")
    fi = ci.methods["_word_ngrams"]
    got = extsrc.find_method("sklearn.feature_extraction.text.CountVectorizer", "_word_ngrams")
    if got is None:
        ck.unknown("C14.b", fi, "sklearn _VectorizerMixin._word_ngrams", "cannot read the installed scikit-learn source")
        return
    pfn, owner = got
    pfn = clone_ast(pfn)
    _set_parents(pfn)
    pfi = FunctionInfo("_word_ngrams", f"ext:{owner}._word_ngrams", pfn, None)
    mine_fi = FunctionInfo("_word_ngrams", fi.qualname + "#noresolve", fi.node, None)
    a = ngram_summary(repo, mine_fi)
    b = ngram_summary(repo, pfi)
    if len(_append_sites(mine_fi)) > 1:
        ck.unknown("C14.b", fi, "n-gram loop nest", f"{len(_append_sites(mine_fi))} append sites in the doubly nested loop: which windows are emitted is decided by their guards together, a shape this rule does not compare")
        return
    if a is None or b is None:
        ck.unknown("C14.b", fi, "n-gram loop nest", f"n-gram append site not found (override: {a is not None}, {owner}: {b is not None})")
        return
    # the wrapping into tuples happens before the section: bindings made outside the
    # n-gram guard other than the unpacking of ngram_range are not part of the comparison
    for k in ("outer", "inner", "window", "receiver", "guards", "returns"):
        if k == "guards" and isinstance(a[k], list) and isinstance(b[k], list) and len(a[k]) != len(b[k]):
            ck.violated("C14.b", fi, f"n-gram section: guards = {str(a[k])[:120]}", f"the append of an n-gram is guarded by {len(a[k])} condition(s) where {owner}._word_ngrams has {len(b[k])}: {a[k]} vs {b[k]}: some windows are not emitted (or emitted where scikit-learn emits none), so the n-grams of a document are not scikit-learn's")
            continue
        if a[k] != b[k] and "__it__(" in str(a[k]):
            ck.unknown("C14.b", fi, f"n-gram section: {k} = {str(a[k])[:70]}", "a loop variable reaches this expression through a helper's parameter: the expansion cannot name its value, nothing is decided about it")
            continue
        if k == "window" and a[k] != b[k] and not a["window_understood"]:
            ck.unknown("C14.b", fi, f"n-gram section: window = {str(a[k])[:70]}", "the value appended is not the join of a window of the tokens in a form this analysis expands")
            continue
        ck.verdict(a[k] == b[k], "C14.b", fi, f"n-gram section: {k} = {str(a[k])[:70]}", f"identical to {owner}._word_ngrams (expanded, local names renamed, join function abstracted)", f"the n-gram section differs from {owner}._word_ngrams in its {k}: {a[k]} vs {b[k]}: the set or order of n-grams is not scikit-learn's")
    # the override is a function of (tokens, stop_words, ngram_range): it reads no fitted state and
    # does not touch the list it returns after the n-gram section
    site_ = _append_site(mine_fi)
    if site_ is not None:
        outer_ = site_[4]
        endl = max((getattr(n_, "lineno", 0) for n_ in ast.walk(outer_)), default=outer_.lineno)
        rn_ = {ast.unparse(r_.value) for r_ in ast.walk(fi.node) if isinstance(r_, ast.Return) and isinstance(r_.value, ast.Name)}
        late = [s_ for s_ in ast.walk(fi.node) if isinstance(s_, (ast.Assign, ast.AugAssign)) and s_.lineno > endl and any(isinstance(t_, ast.Name) and t_.id in rn_ for t_ in (s_.targets if isinstance(s_, ast.Assign) else [s_.target]))]
        ck.verdict(not late, "C14.b", fi, late[0] if late else "nothing rebinds the returned list after the n-gram section", "the list of n-grams is returned as built", f"the returned list is rebuilt after the n-gram section ({src_of(late[0])[:70] if late else ''}): n-grams are dropped or changed after scikit-learn's algorithm produced them")
    fitted_reads = sorted({n_.attr for n_ in ast.walk(fi.node) if isinstance(n_, ast.Attribute) and isinstance(n_.value, ast.Name) and n_.value.id == "self" and n_.attr.endswith("_") and not n_.attr.startswith("_")} | {c_.args[1].value for c_ in ast.walk(fi.node) if isinstance(c_, ast.Call) and ast.unparse(c_.func) in ("getattr", "hasattr") and len(c_.args) >= 2 and ast.unparse(c_.args[0]) == "self" and isinstance(c_.args[1], ast.Constant) and isinstance(c_.args[1].value, str) and c_.args[1].value.endswith("_")})
    ck.verdict(not fitted_reads, "C14.b", fi, f"fitted attributes read: {fitted_reads}", "the n-grams of a document do not depend on what a previous fit learnt", f"_word_ngrams reads the fitted attribute(s) {fitted_reads}: what a second fit (or fit_transform) of the same instance extracts depends on the vocabulary of the first one")
    mine_b = [x for x in a["bindings"]]
    their_b = [x for x in b["bindings"]]
    extra = [x for x in mine_b if x not in their_b]
    missing = [x for x in their_b if x not in mine_b]
    # the override binds `tokens` two more times before the section (stop-word filter is shared; wrapping is its own)
    opaque_calls = [c_ for c_ in ast.walk(fi.node) if isinstance(c_, ast.Call) and isinstance(c_.func, ast.Attribute) and isinstance(c_.func.value, ast.Name) and c_.func.value.id in ("NGramsMixin", "self", "cls") and c_.func.attr.startswith("_") and c_.func.attr not in ("_word_ngrams",)]
    if missing and (opaque_calls or bool(getattr(repo, "expanded_helpers", {}).get(MOD.replace(".", "/") + ".py"))):
        ck.unknown("C14.b", fi, f"result list / lower bound bindings ({len(mine_b)})", f"the result list is prepared through {src_of(opaque_calls[0].func)}(..), which this comparison with the parent does not look into")
    else:
      ck.verdict(not missing, "C14.b", fi, f"result list / lower bound bindings ({len(mine_b)})", "the result list starts and the lower bound is adjusted as in the parent (unigram shortcut included)", f"bindings of the parent missing in the override: {missing}: the unigram shortcut or the start of the result list changed")
    ck.extra["override_only_bindings"] = extra
    # filter precedes wrapping precedes n-grams: the element kinds decided by C14.a imply the order


def check_c(ck, repo):
    for cname, base in (("TraceableCountVectorizer", "sklearn.feature_extraction.text.CountVectorizer"), ("TraceableTfidfVectorizer", "sklearn.feature_extraction.text.TfidfVectorizer")):
        ci = repo.cls(MOD, cname)
        m = ci.methods.get("_word_ngrams")
        bound = [s_ for s_ in ci.node.body if isinstance(s_, ast.Assign) and len(s_.targets) == 1 and isinstance(s_.targets[0], ast.Name) and s_.targets[0].id == "_word_ngrams"]
        if m is None and len(bound) == 1:
            # `_word_ngrams = NGramsMixin._word_ngrams` in the class body: the mixin's function is the
            # class's own attribute, found before the scikit-learn parent's
            okb = src_of(bound[0].value) == "NGramsMixin._word_ngrams"
            ck.verdict(okb, "C14.c", None, src_of(bound[0]), "the mixin's implementation is bound as the class's own _word_ngrams", f"{cname}._word_ngrams is bound to {src_of(bound[0].value)}, not to NGramsMixin._word_ngrams", file=ci.module.relpath, function=cname, line=bound[0].lineno)
            bases = ci.bases
            ck.verdict(len(bases) == 2 and bases[0] == base and bases[1].endswith("NGramsMixin"), "C14.c", None, f"class {cname}({', '.join(b.split('.')[-1] for b in bases)})", "scikit-learn vectorizer first, mixin second (explicit binding required and present)", f"bases of {cname} are {bases}", file=ci.module.relpath, function=cname, line=ci.node.lineno)
            continue
        if m is None:
            ck.violated("C14.c", None, f"{cname}._word_ngrams", f"{cname} does not define _word_ngrams: {base} precedes NGramsMixin in the MRO, so scikit-learn's string n-grams are used and vocabulary_ keys are not token tuples", file=ci.module.relpath, function=cname, line=ci.node.lineno)
            continue
        # by path evaluation: a result held in a local before being returned is the same delegation
        ps_ = [p for p in paths(m) if p.ret != RAISE]
        r = [p.ret for p in ps_ if isinstance(p.ret, ast.AST)]
        ok = len(ps_) >= 1 and len(r) == len(ps_) and all(isinstance(x, ast.Call) and src_of(x.func) == "NGramsMixin._word_ngrams" for x in r)
        swp = m.named_params[2] if len(m.named_params) > 2 else "stop_words"
        for p_ in ps_ if ok else []:
            c = p_.ret
            a0 = src_of(c.args[0]) if c.args else None
            tk, sw = kwarg(c, "tokens"), kwarg(c, "stop_words")
            if tk is None and len(c.args) > 1:
                tk = c.args[1]
            if sw is None and len(c.args) > 2:
                sw = c.args[2]
            # on a path where stop_words is None, leaving it out (the mixin's default) or passing None forwards it
            is_none = (f"{swp} is None", True) in p_.conds or (f"{swp} is not None", False) in p_.conds
            if sw is None:
                mx = repo.cls(MOD, "NGramsMixin").methods["_word_ngrams"].node.args
                dflt = dict(zip([a_.arg for a_ in mx.args][-len(mx.defaults):], mx.defaults)) if mx.defaults else {}
                is_none = is_none and "stop_words" in dflt and src_of(dflt["stop_words"]) == "None"
            sw_ok = (sw is not None and src_of(sw) == swp) or (is_none and (sw is None or src_of(sw) == "None"))
            ok = ok and a0 == "self" and tk is not None and src_of(tk) == m.named_params[1] and sw_ok
        ck.verdict(ok, "C14.c", m, r[0] if r else f"{cname}._word_ngrams", "explicit delegation to the mixin with tokens and stop_words forwarded", f"{cname}._word_ngrams does not forward (tokens, stop_words) to NGramsMixin._word_ngrams")
        bases = ci.bases
        ck.verdict(len(bases) == 2 and bases[0] == base and bases[1].endswith("NGramsMixin"), "C14.c", None, f"class {cname}({', '.join(b.split('.')[-1] for b in bases)})", "scikit-learn vectorizer first, mixin second (explicit delegation required and present)", f"bases of {cname} are {bases}", file=ci.module.relpath, function=cname, line=ci.node.lineno)


def _recognised(repo) -> bool:
    try:
        fi = repo.cls(MOD, "NGramsMixin").methods.get("_word_ngrams")
    except AnalysisError:
        return False
    if fi is None:
        return False
    site = _append_site(fi)
    return site is not None and isinstance(site[2], ast.Call) and resolve_call(repo, fi, site[2]) is not None


def _view(repo):
    """the n-gram rules read the join of a window as a FUNCTION applied in a doubly
    nested loop.  When a refactoring moved that function (to module level, under
    another name) the look-through view has it expanded in the loop; the plain
    view of the same sources still shows the call.  Either view is the program."""
    if _recognised(repo):
        return repo
    from engine.src import Repo, CURRENT_REPO

    try:
        plain = Repo(repo.root, repo.overlay, look_through_helpers=False)
    except Exception:
        CURRENT_REPO[0] = repo
        return repo
    if _recognised(plain):
        return plain
    CURRENT_REPO[0] = repo
    return repo


def run(ck):
    repo = _view(ck.repo)
    for k, v in RULES.items():
        ck.rule(k, v)
    from .sem import merge_side_list
    merge_side_list(repo.cls(MOD, "NGramsMixin").methods["_word_ngrams"])
    check_a(ck, repo)
    check_b(ck, repo)
    check_c(ck, repo)
    from engine.src import CURRENT_REPO

    CURRENT_REPO[0] = ck.repo
    ck.require_count("C14.a", 2, "filter kind, kind at n-gram section, space_join")
    ck.require_count("C14.b", 2, "loop nest, unpacking, return, filter statement, order")
    ck.require_count("C14.c", 2, "two classes x (delegation, bases)")


_F = "mlinsights/mlmodel/sklearn_text.py"
WITNESSES = [
    {"name": "filter-after-wrapping", "file": _F, "rule": "C14.a", "old": "        if stop_words is not None:\n            tokens = [w for w in tokens if w not in stop_words]\n\n        if tokens is not None:\n            new_tokens = []\n            for token in tokens:\n                new_tokens.append((token,) if isinstance(token, str) else token)\n            tokens = new_tokens\n", "new": "        if tokens is not None:\n            new_tokens = []\n            for token in tokens:\n                new_tokens.append((token,) if isinstance(token, str) else token)\n            tokens = new_tokens\n\n        if stop_words is not None:\n            tokens = [(w,) for w in tokens if w not in stop_words]\n"},
    {"name": "filter-lowercases", "file": _F, "rule": "C14.a", "old": "            tokens = [w for w in tokens if w not in stop_words]\n", "new": "            tokens = [w for w in tokens if w.lower() not in stop_words]\n"},
    {"name": "no-stop-word-filter", "file": _F, "rule": "C14.a", "old": "        if stop_words is not None:\n            tokens = [w for w in tokens if w not in stop_words]\n\n", "new": ""},
    {"name": "ngram-upper-bound", "file": _F, "rule": "C14.b", "old": "for n in range(min_n, min(max_n + 1, n_original_tokens + 1)):", "new": "for n in range(min_n, min(max_n, n_original_tokens + 1)):"},
    {"name": "ngram-window-short", "file": _F, "rule": "C14.b", "old": "for i in range(n_original_tokens - n + 1):", "new": "for i in range(n_original_tokens - n):"},
    {"name": "ngram-slice", "file": _F, "rule": "C14.b", "old": "tokens_append(space_join(original_tokens[i : i + n]))", "new": "tokens_append(space_join(original_tokens[i : i + n - 1]))"},
    {"name": "unigram-shortcut-dropped", "file": _F, "rule": "C14.b", "old": "                tokens = list(original_tokens)\n                min_n += 1\n", "new": "                tokens = list(original_tokens)\n"},
    {"name": "count-vectorizer-no-override", "file": _F, "rule": "C14.c", "old": "    def _word_ngrams(self, tokens, stop_words=None):\n        return NGramsMixin._word_ngrams(self, tokens=tokens, stop_words=stop_words)\n\n\nclass TraceableTfidfVectorizer", "new": "\n\nclass TraceableTfidfVectorizer"},
    {"name": "tfidf-drops-stop-words", "file": _F, "rule": "C14.c", "old": "        return NGramsMixin._word_ngrams(self, tokens=tokens, stop_words=stop_words)\n", "new": "        return NGramsMixin._word_ngrams(self, tokens=tokens, stop_words=None)\n", "count": 2},
]
TWINS = [
    {"name": "filter-wraps-early", "file": _F, "old": "            tokens = [w for w in tokens if w not in stop_words]\n", "new": "            tokens = [(w,) for w in tokens if w not in stop_words]\n"},
    {"name": "filter-renamed-variable", "file": _F, "old": "            tokens = [w for w in tokens if w not in stop_words]\n", "new": "            tokens = [tok for tok in tokens if tok not in stop_words]\n"},
]
MIN_WITNESSES = 8
